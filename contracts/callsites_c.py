"""Who may trigger a rebuild (C20 / C04 / C05): an AST frame obligation over core.py.

`Ovld.compile()` throws the resolution table away. The properties allow that in exactly three situations: the function has never
been built (`if not self._compiled:` guards the call), the set of methods changed (`Ovld._update`, itself guarded by the contracts of
register / unregister / add_mixins), and the bootstrap entry point's first call. Every other call site of `.compile()` on an Ovld -
a diagnostic, a getter - would make "until the set of methods changes" false. The obligation recomputes all call sites from the
real AST on every run."""
import ast
import time

from pyvc import source
from pyvc.verify import TaskResult

ALLOWED_UNGUARDED = {"Ovld._update", "bootstrap_dispatch.first_entry"}
NOT_AN_OVLD = {"self.argument_analysis", "arganal", "self.argument_analysis.compile"}


def _guarded(node, parents, recv_src):
    """is `node` inside the body of `if not <recv>._compiled:`"""
    cur = node
    while cur in parents:
        p = parents[cur]
        if isinstance(p, ast.If) and cur in p.body:
            t = p.test
            if isinstance(t, ast.UnaryOp) and isinstance(t.op, ast.Not) and isinstance(t.operand, ast.Attribute) and t.operand.attr == "_compiled" and ast.unparse(t.operand.value) == recv_src:
                return True
        cur = p
    return False


def _enclosing(tree, node):
    parents = {}
    for n in ast.walk(tree):
        for c in ast.iter_child_nodes(n):
            parents[c] = n
    names = []
    cur = node
    while cur in parents:
        cur = parents[cur]
        if isinstance(cur, (ast.FunctionDef, ast.AsyncFunctionDef, ast.ClassDef)):
            names.append(cur.name)
    return ".".join(reversed(names))


def effective_callers(tree, qual, modname="core", _seen=None):
    """A call site inside a helper that did not exist when the contracts were written (baseline/functions.json) counts for the
    functions that call the helper: extracting `self._update()` into a private method does not create a new trigger."""
    from pyvc.frames import _known

    seen = _seen if _seen is not None else set()
    if qual in seen:
        return set()
    seen.add(qual)
    if not qual or _known(f"{modname}:{qual}"):
        return {qual}
    simple = qual.rsplit(".", 1)[-1]
    out = set()
    for n in ast.walk(tree):
        if isinstance(n, ast.Call) and ((isinstance(n.func, ast.Attribute) and n.func.attr == simple) or (isinstance(n.func, ast.Name) and n.func.id == simple)):
            enc = _enclosing(tree, n)
            if enc != qual:
                out |= effective_callers(tree, enc, modname, seen)
    return out or {qual}


def rebuild_sites(modname="core"):
    tree = source.module(modname).tree
    parents = {}
    for n in ast.walk(tree):
        for c in ast.iter_child_nodes(n):
            parents[c] = n

    def qual(node):
        names = []
        cur = node
        while cur in parents:
            cur = parents[cur]
            if isinstance(cur, (ast.FunctionDef, ast.AsyncFunctionDef, ast.ClassDef)):
                names.append(cur.name)
        return ".".join(reversed(names))

    sites = []
    for n in ast.walk(tree):
        if isinstance(n, ast.Call) and isinstance(n.func, ast.Attribute) and n.func.attr == "compile":
            recv = ast.unparse(n.func.value)
            if recv in NOT_AN_OVLD or recv == "re":
                continue
            sites.append(dict(function=qual(n), receiver=recv, line=n.lineno, guarded=_guarded(n, parents, recv)))
    return sites


def task():
    def run():
        res = TaskResult("frames.rebuild")
        res.mode = "U"
        t0 = time.time()
        try:
            source.reset()
            sites = rebuild_sites("core")
            tree0 = source.module("core").tree
            bad = [s for s in sites if not s["guarded"] and not (effective_callers(tree0, s["function"]) <= ALLOWED_UNGUARDED)]
            res.obligations.append(dict(name="frames.rebuild/a_built_function_is_rebuilt_only_when_its_methods_change", status="proved" if not bad and sites else "refuted", time=0.0, model=(f"unguarded rebuild: {bad}" if bad else None if sites else "no call site of compile() found"), note="ast-frame", path="", goal=f"call sites of Ovld.compile: {sites}"[:300]))
            # the fields a rebuild replaces are written nowhere else: `_compiled` and `map` of an Ovld
            writers = {}
            for n in ast.walk(source.module("core").tree):
                if isinstance(n, (ast.Assign, ast.AugAssign, ast.AnnAssign, ast.Delete)):
                    tgts = n.targets if isinstance(n, (ast.Assign, ast.Delete)) else [n.target]
                    for t in tgts:
                        for a in ast.walk(t):
                            if isinstance(a, ast.Attribute) and a.attr in ("_compiled", "map") and isinstance(a.ctx, (ast.Store, ast.Del)):
                                writers.setdefault(a.attr, set()).add(_enclosing(source.module("core").tree, a))
                if isinstance(n, ast.Call) and isinstance(n.func, ast.Name) and n.func.id in ("setattr", "delattr") and len(n.args) >= 2 and isinstance(n.args[1], ast.Constant) and n.args[1].value in ("_compiled", "map"):
                    writers.setdefault(n.args[1].value, set()).add(_enclosing(source.module("core").tree, n))
            allowed = {"_compiled": {"Ovld.__init__", "Ovld.compile"}, "map": {"Ovld.compile"}}
            tree1 = source.module("core").tree
            writers = {k: {c for w_ in v for c in effective_callers(tree1, w_)} for k, v in writers.items()}  # helpers split off compile count as compile
            badw = {k: sorted(v - allowed[k]) for k, v in writers.items() if v - allowed[k]}
            res.obligations.append(dict(name="frames.rebuild/built_flag_and_table_are_written_only_by_init_and_compile", status="proved" if not badw and writers.get("_compiled") else "refuted", time=0.0, model=str(badw) if badw else None, note="ast-frame", path="", goal=f"writers: { {k: sorted(v) for k, v in writers.items()} }"[:300]))
            # Ovld._update (rebuild of a function in use and of its linked descendants) is reached only from a change of the method
            # set: register / unregister, and from _update itself for the children
            upd = []
            for n in ast.walk(source.module("core").tree):
                if isinstance(n, ast.Call) and isinstance(n.func, ast.Attribute) and n.func.attr == "_update":
                    upd.append(_enclosing(source.module("core").tree, n))
            tree_ = source.module("core").tree
            upd = sorted({c for u in upd for c in effective_callers(tree_, u)})
            bad_upd = sorted(set(upd) - {"Ovld.register", "Ovld._register", "Ovld.unregister", "Ovld._update"})
            res.obligations.append(dict(name="frames.rebuild/update_is_triggered_only_by_a_change_of_the_method_set", status="proved" if not bad_upd and upd else "refuted", time=0.0, model=(f"_update called from {bad_upd}" if bad_upd else None), note="ast-frame", path="", goal=f"call sites of _update: {sorted(set(upd))}"))
            # the other modules never rebuild a function
            others = []
            for m in ("typemap", "recode", "mro", "types", "dependent", "utils", "abc"):
                try:
                    others += [dict(s, module=m) for s in rebuild_sites(m) if s["receiver"] not in ("arganal",)]
                except Exception:
                    pass
            res.obligations.append(dict(name="frames.rebuild/no_other_module_rebuilds_a_function", status="proved" if not others else "refuted", time=0.0, model=str(others) if others else None, note="ast-frame", path="", goal="no call of .compile() on an Ovld outside core.py"))
            res.functions = [("core:Ovld.ensure_compiled", source.fn_sha("core:Ovld.ensure_compiled")), ("core:Ovld._update", source.fn_sha("core:Ovld._update"))]
            res.cover = True
            res.meta = {"backend": "ast-frame", "cover": ["n/a"]}
        except source.AnchorMissing as e:
            res.status = "undecided"
            res.detail = f"anchor missing: {e}"
        except Exception as e:
            res.status = "error"
            res.detail = f"{type(e).__name__}: {e}"
        res.wall_s = round(time.time() - t0, 3)
        return res

    return run
