"""MultiTypeMap.register in mode U: a signature with ANY number of entries (positional classes and (keyword, class) pairs).

The real function is executed on a symbolic `sig.types` (the key model of contracts/mropos_c.py: entry j is a class `ecls(j)`,
or a pair (kwname(j), ecls(j)) when is_kw(j)); the per-position tables are a functional map key -> TypeMap whose `register`
calls are recorded in the relation REG(key, class); loop invariant over the entries.

Posts (C05: the table after a registration is the table of a fresh function; C01 / C10 / C11: the value-dependence flag
decides whether resolve wraps the method in its condition check):
  * the resolution cache, the remembered errors and the remembered candidate sets are flushed;
  * priority, tiebreak and type tuple of the handler are recorded; no other handler's record is touched;
  * `dependent[handler]` holds iff SOME entry's class - of a positional entry or of a keyword entry - is value-dependent;
  * entry j is filed, with the pair (handler, sig), in the table of its position / keyword under its class - every entry, and
    nothing else; tables are created only for keys that have none; the vararg table (-1) is not used;
  * `empty` is set to the entry iff the signature has no entries, and not touched otherwise.
"""
import z3

from pyvc.interp import Builtin, ExcV, LoopSpec, OutOfSubset, PyRaise, SymObj, SymSeq, ZV
from pyvc.world import World

from .mropos_c import HS, KeyS, N, NameS, NameV, EntryV, ecls, is_kw, key_axioms, keyof, kwname, namek, posk
from .universe import TyS, TyV

ISDEP = z3.Function("is_dependent", TyS, z3.BoolSort())
PRIO = z3.Const("sig_priority", z3.RealSort())
TB = z3.Const("sig_tiebreak", z3.IntSort())
H = z3.Const("the_handler", HS)


class HTok(ZV):
    def __init__(self, t, k="hdl"):
        super().__init__(t, "hdl")

    def py_hash(self, I):
        return self


class SigU(SymObj):
    concrete_identity = True

    def __init__(self, types):
        self.types = types

    def py_getattr(self, I, name):
        if name == "types":
            return self.types
        if name == "priority":
            return ZV(PRIO, "real")
        if name == "tiebreak":
            return ZV(TB, "int")
        if name == "vararg":
            return False  # Signature.extract: vararg=False (contracts/sig_c.py proves it)
        raise OutOfSubset(f"Signature.{name}")


class TypesU(SymSeq):
    """sig.types: truthiness = non-empty"""

    concrete_identity = True

    def py_truth(self, I):
        return self.length > 0


class HMapU(SymObj):
    """priorities / tiebreaks / type_tuples / dependent: handler -> value; writes are recorded with their value"""

    def __init__(self, name, log):
        self.name, self.log = name, log

    def py_setitem(self, I, key, v):
        if not isinstance(key, HTok):
            raise OutOfSubset(f"{self.name}[...] with an unexpected key")
        self.log.append((self.name, key.t, v))

    def py_getattr(self, I, name):
        if name == "clear":
            return Builtin("clear", lambda I: self.log.append((self.name, "clear", None)))
        raise OutOfSubset(f"{self.name}.{name}")


class TMU(SymObj):
    """the TypeMap of one key"""

    def __init__(self, table, key, fresh=False):
        self.table, self.key, self.fresh = table, key, fresh

    def py_getattr(self, I, name):
        if name == "register":

            def register(I, cls, entry):
                t = self.table
                if self.key is None:
                    raise OutOfSubset("register on a TypeMap that is not in the table")
                ok = isinstance(entry, tuple) and len(entry) == 2 and isinstance(entry[0], HTok) and z3.eq(entry[0].t, H) and entry[1] is t.sig
                I.require(bool(ok), "what_is_filed_is_the_pair_of_this_handler_and_this_signature")
                c = ecls(cls.j) if isinstance(cls, EntryV) else I.term(cls)
                old, k0 = t.reg, self.key
                t.reg = lambda k, x: z3.Or(z3.And(k == k0, x == c), old(k, x))
                return None

            return Builtin("TypeMap.register", register)
        raise OutOfSubset(f"TypeMap.{name}")


class MapsU(SymObj):
    def __init__(self, table):
        self.t = table

    def _key(self, I, key):
        if isinstance(key, NameV):
            return namek(key.t)
        if isinstance(key, EntryV):
            raise OutOfSubset("maps[...] keyed by a whole entry")
        return posk(I.int_term(key))

    def py_contains(self, I, key):
        return self.t.has(self._key(I, key))

    def py_setitem(self, I, key, v):
        if not isinstance(v, TMU) or not v.fresh:
            raise OutOfSubset("maps[...] = something that is not a new TypeMap")
        k = self._key(I, key)
        t = self.t
        old_has, old_made = t.has, t.made
        # creating a table where one exists would drop what is registered there
        t.replaced = z3.Or(t.replaced, old_has(k))
        t.has = lambda x: z3.Or(x == k, old_has(x))
        t.made = lambda x: z3.Or(x == k, old_made(x))
        v.key, v.fresh = k, False

    def py_getitem(self, I, key):
        k = self._key(I, key)
        I.require(self.t.has(k), "maps_key_present", exc="KeyError")
        return TMU(self.t, k)

    def py_getattr(self, I, name):
        if name == "get":  # maps.get(key, default=None)

            def get(I, key, default=None):
                if I.branch(self.t.has(self._key(I, key))):
                    return TMU(self.t, self._key(I, key))
                return default

            return Builtin("get", get)
        raise OutOfSubset(f"maps.{name}")


class TableReg(SymObj):
    def __init__(self, I, w):
        self.w = w
        self.log = []
        h0 = I.fresh_fn("has_table", [KeyS], z3.BoolSort())
        self.has0 = lambda k: h0(k)
        self.has = self.has0
        self.made = lambda k: z3.BoolVal(False)
        self.reg = lambda k, x: z3.BoolVal(False)
        self.replaced = z3.BoolVal(False)
        self.bad_entries = []
        self.empty_writes = []
        self.sig = None
        self.attrs = {n: HMapU(n, self.log) for n in ("priorities", "tiebreaks", "type_tuples", "dependent", "errors", "all")}
        self.maps = MapsU(self)

    def snapshot(self):
        return (self.has, self.made, self.reg, self.replaced)

    def py_getattr(self, I, name):
        if name in self.attrs:
            return self.attrs[name]
        if name == "maps":
            return self.maps
        if name == "clear":
            return Builtin("dict.clear", lambda I: self.log.append(("dict", "clear", None)))
        raise OutOfSubset(f"MultiTypeMap.{name}")

    def py_setattr(self, I, name, v):
        if name == "empty":
            self.empty_writes.append(v)
            return
        raise OutOfSubset(f"MultiTypeMap.{name} = ...")


def t_register_unbounded():
    w = World()
    w.inline("typemap:MultiTypeMap.register")
    w.ghost = {}
    j = z3.Int("j")
    k, c = z3.Const("k", KeyS), z3.Const("c", TyS)

    class Either(SymObj):
        """value of a conditional expression whose alternatives are of different kinds"""

        def __init__(self, c, a, b):
            self.c, self.a, self.b = c, a, b

    w.merge = lambda I, c, a, b: Either(c, a, b)

    def isdep_term(t):
        if isinstance(t, Either):
            return z3.If(t.c, isdep_term(t.a), isdep_term(t.b))
        if isinstance(t, TyV):
            return ISDEP(t.t)
        if isinstance(t, EntryV):
            # a positional entry IS its class; a (name, class) pair has no value-dependent component of its own
            return z3.And(z3.Not(is_kw(t.j)), ISDEP(ecls(t.j)))
        return z3.BoolVal(False)  # a name, a pair

    def is_dependent(I, args, kwargs):
        (t,) = args
        return ZV(isdep_term(t), "bool")

    w.contract("dependent:is_dependent", is_dependent)
    w.is_singleton = lambda I, z, other: False

    def inv(I, env, kk, seq):
        K = kk.t
        t = w.ghost["table"]
        return z3.And(
            z3.ForAll([k, c], t.reg(k, c) == z3.Exists([j], z3.And(0 <= j, j < K, keyof(j) == k, ecls(j) == c))),
            z3.ForAll([k], t.has(k) == z3.Or(t.has0(k), z3.Exists([j], z3.And(0 <= j, j < K, keyof(j) == k)))),
            z3.ForAll([k], z3.Implies(t.made(k), z3.Not(t.has0(k)))),
            z3.Not(t.replaced),
        )

    def havoc_table(I, env):
        t = w.ghost["table"]
        has, made, reg = I.fresh_fn("has_l", [KeyS], z3.BoolSort()), I.fresh_fn("made_l", [KeyS], z3.BoolSort()), I.fresh_fn("reg_l", [KeyS, TyS], z3.BoolSort())
        t.has, t.made, t.reg = (lambda x: has(x)), (lambda x: made(x)), (lambda x, y: reg(x, y))
        t.replaced = I.fresh("replaced_l", z3.BoolSort())
        return t

    w.loop("typemap:MultiTypeMap.register", 0, LoopSpec(inv, modifies=["self"], havoc={"self": havoc_table}, skip_names=("i", "cls")))

    def thunk(I):
        w.ghost.clear()
        for a in key_axioms():
            I.assume(a)
        I.assume(N >= 0)
        t = TableReg(I, w)
        w.ghost["table"] = t
        w._class_ctor["typemap:TypeMap"] = lambda I, args, kwargs: TMU(t, None, fresh=True)
        types = TypesU(N, lambda q: EntryV(q), "types")
        sig = SigU(types)
        t.sig = sig
        h = HTok(H)
        try:
            I.call_repo("typemap:MultiTypeMap.register", [t, sig, h], {})
        except PyRaise as e:
            I.require(False, f"register_raises_nothing[{e.exc.cls}]")
            return
        log = t.log
        I.require(("dict", "clear", None) in log, "dict_part_is_flushed")
        I.require(("errors", "clear", None) in log, "remembered_errors_are_flushed")
        I.require(("all", "clear", None) in log, "remembered_candidate_sets_are_flushed")

        def writes(name):
            return [(hk, v) for (n, hk, v) in log if n == name and not (isinstance(hk, str))]

        for name, want in (("priorities", PRIO), ("tiebreaks", TB)):
            ws = writes(name)
            I.require(len(ws) == 1 and z3.eq(ws[0][0], H) and isinstance(ws[0][1], ZV) and z3.eq(ws[0][1].t, want), f"{name}_of_exactly_this_handler_recorded")
        ws = writes("type_tuples")
        I.require(len(ws) == 1 and z3.eq(ws[0][0], H) and ws[0][1] is types, "type_tuple_of_exactly_this_handler_recorded")
        ws = writes("dependent")
        I.require(len(ws) == 1 and z3.eq(ws[0][0], H), "dependent_flag_of_exactly_this_handler_recorded")
        if len(ws) == 1:
            v = ws[0][1]
            vt = z3.BoolVal(v) if isinstance(v, bool) else I.truth(v)
            if isinstance(vt, bool):
                vt = z3.BoolVal(vt)
            I.require(vt == z3.Exists([j], z3.And(0 <= j, j < N, ISDEP(ecls(j)))), "dependent_flag_iff_some_positional_or_keyword_entry_is_value_dependent")
        I.require(not [n for (n, hk, v) in log if n in ("errors", "all") and hk != "clear"], "nothing_is_written_into_the_flushed_memos")
        # the per-position tables
        I.require(z3.ForAll([k, c], t.reg(k, c) == z3.Exists([j], z3.And(0 <= j, j < N, keyof(j) == k, ecls(j) == c))), "every_entry_is_filed_in_the_table_of_its_position_or_keyword_under_its_class_and_nothing_else")
        I.require(z3.ForAll([k], t.has(k) == z3.Or(t.has0(k), z3.Exists([j], z3.And(0 <= j, j < N, keyof(j) == k)))), "tables_exist_afterwards_for_the_old_keys_and_the_keys_of_the_entries")
        I.require(z3.Not(t.replaced), "no_existing_table_is_replaced")
        I.require(z3.ForAll([k], z3.Implies(t.made(k), z3.Not(t.has0(k)))), "tables_are_created_only_for_keys_that_had_none")
        # the zero-argument slot
        ew = t.empty_writes
        if ew:
            e = ew[-1]
            good = len(ew) == 1 and isinstance(e, tuple) and len(e) == 2 and isinstance(e[0], HTok) and z3.eq(e[0].t, H) and e[1] is sig
            I.require(good, "empty_slot_holds_the_pair_of_this_handler_and_this_signature")
            I.require(N == 0, "empty_slot_written_only_for_a_signature_without_entries")
        else:
            I.require(N > 0, "empty_slot_written_for_a_signature_without_entries")
        # guarantee side of the premise of MultiTypeMap.mro (mode U) "a handler occurs at most once in a per-entry table":
        # with pairwise distinct keyword names (Python rejects duplicate parameter names) one registration files the handler
        # under ONE class per table.  Proved from the post above, not from the loop.
        j1, j2 = z3.Ints("j1 j2")
        c2 = z3.Const("c2", TyS)
        I.assume(z3.ForAll([j1, j2], z3.Implies(z3.And(0 <= j1, j1 < N, 0 <= j2, j2 < N, is_kw(j1), is_kw(j2), kwname(j1) == kwname(j2)), j1 == j2)))
        I.require(z3.ForAll([k, c, c2], z3.Implies(z3.And(t.reg(k, c), t.reg(k, c2)), c == c2)), "one_registration_files_the_handler_under_at_most_one_class_per_table")

    return w, thunk, {"timeout_ms": 20000, "fail_fast": False}
