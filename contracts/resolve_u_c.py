"""MultiTypeMap.resolve (typemap.py) in mode U: any number of ranks, any number of methods per rank.

The bounded task typemap_c.t_resolve_writes runs resolve for the rank shapes [1], [1,1], [1,1,1], [1,2], ...  Here the
real function is executed once over a symbolic list of ranks (the contract of MultiTypeMap.mro: a list of non-empty
groups; each method in exactly one group; adapted methods have pairwise distinct code objects) with loop invariants:

  loop 0 (ranks, last to first)   funcs holds, for the ranks already seen, the function to store for that rank
                                  NXT(r) = the dependent wrapper of rank r around NXT(r+1)     if some method of r is value-dependent
                                         = nothing (tie)                                       if r has more than one method
                                         = the single method of r                              otherwise
                                  and the code objects CODES(r) of its methods
  loop 1 (ranks, first to last)   entries written so far: the looked-up key -> NXT(0); for 1 <= r < k and every code c of
                                  rank r-1: (c, *key) -> NXT(r); no error remembered; every rank before k has a function
                                  and code objects
  loops 2 / 3 (the keys of one rank) the keys of the codes already visited carry the error / the function of this rank

Posts (the statement of C07 / C04 at the level of the table, for ANY number of ranks):
  first_rank        the looked-up key maps to NXT(0), or - when rank 0 is a tie - the ambiguity error of rank 0 is remembered
                    under it and nothing is stored
  continuation      for every rank r >= 1 that is reached (all earlier ranks have a function and code objects) and every
                    code object c of rank r-1: (c, *key) maps to NXT(r), or remembers the ambiguity error of rank r
  nothing_else      no other entry is written, no other error remembered
  no_methods        with no rank at all: 'No method' is raised and nothing is written
"""
import ast

import z3

from pyvc import source
from pyvc.interp import Builtin, ExcV, LoopSpec, OutOfSubset, PyRaise, Stream, SymObj, SymSeq, ZV
from pyvc.world import World

from .mropos_c import CodeS, CodeV, HS, HandlerV

ValS = z3.DeclareSort("FnVal")
HVAL = z3.Function("HVAL", HS, ValS)
WRAPV = z3.Function("WRAPV", z3.IntSort(), ValS, ValS)
NONEV = z3.Const("NONEV", ValS)
is_wrap = z3.Function("is_wrap", ValS, z3.BoolSort())
is_none = lambda v: v == NONEV

R = z3.Int("n_ranks")
gsize = z3.Function("gsize", z3.IntSort(), z3.IntSort())
gh = z3.Function("gh", z3.IntSort(), z3.IntSort(), HS)
depf = z3.Function("dependent", HS, z3.BoolSort())
hascode = z3.Function("hascode", HS, z3.BoolSort())
codeof = z3.Function("codeof_r", HS, CodeS)
rank_of = z3.Function("rank_of", HS, z3.IntSort())
idx_of = z3.Function("idx_of", HS, z3.IntSort())
NXT = z3.Function("NXT", z3.IntSort(), ValS)
owner = z3.Function("owner_of_code", CodeS, HS)  # adapted methods have pairwise distinct code objects


def DEPR(r):
    i = z3.Int("di")
    return z3.Exists([i], z3.And(0 <= i, i < gsize(r), depf(gh(r, i))))


def in_codes(c, r):
    """c is the code object of a method of rank r that has one."""
    i = z3.Int("ci")
    return z3.Exists([i], z3.And(0 <= i, i < gsize(r), hascode(gh(r, i)), codeof(gh(r, i)) == c))


def has_codes(r):
    i = z3.Int("hi")
    return z3.Exists([i], z3.And(0 <= i, i < gsize(r), hascode(gh(r, i))))


def background():
    r, i = z3.Ints("r i")
    h = z3.Const("bh", HS)
    v = z3.Const("bv", ValS)
    return [
        R >= 0,
        z3.ForAll([r], z3.Implies(z3.And(0 <= r, r < R), gsize(r) >= 1), patterns=[gsize(r)]),
        # each method sits in exactly one rank at one index (contract of mro / _pull)
        z3.ForAll([r, i], z3.Implies(z3.And(0 <= r, r < R, 0 <= i, i < gsize(r)), z3.And(rank_of(gh(r, i)) == r, idx_of(gh(r, i)) == i)), patterns=[gh(r, i)]),
        # distinct code objects (adapt_function / rename_code give every adapted method its own)
        z3.ForAll([h], owner(codeof(h)) == h, patterns=[codeof(h)]),
        # every registered method is a function (adapt_function reads fn.__code__ of each one)
        z3.ForAll([h], hascode(h), patterns=[hascode(h)]),
        # values: a method, a wrapper and "nothing" are different things
        z3.ForAll([h], z3.And(HVAL(h) != NONEV, z3.Not(is_wrap(HVAL(h)))), patterns=[HVAL(h)]),
        z3.ForAll([r, v], z3.And(WRAPV(r, v) != NONEV, is_wrap(WRAPV(r, v))), patterns=[WRAPV(r, v)]),
    ]


def nxt_def(r):
    """definition of NXT at rank r (instantiated where needed; the recursive axiom would be a matching loop)."""
    return NXT(r) == z3.If(DEPR(r), WRAPV(r, z3.If(r + 1 < R, NXT(r + 1), NONEV)), z3.If(gsize(r) != 1, NONEV, HVAL(gh(r, 0))))


def _rank_of_stream(st):
    r = getattr(st, "rank", None)
    if r is None and getattr(st, "src", None) is not None:
        r = getattr(st.src, "rank", None)
    return r


class ValV(ZV):
    def __init__(self, t, k="fnval"):
        super().__init__(t, "fnval")

    def py_is_none(self, I):
        return self.t == NONEV


def as_val(I, v):
    if v is None:
        return NONEV
    if isinstance(v, ValV):
        return v.t
    if isinstance(v, HandlerV):
        return HVAL(v.t)
    raise OutOfSubset(f"function value {v!r}")


class CandU(SymObj):
    def __init__(self, r, i):
        self.r, self.i = r, i

    def py_getattr(self, I, name):
        if name == "handler":
            return HandlerU(gh(self.r, self.i))
        raise OutOfSubset(f"Candidate.{name} in resolve")


class HandlerU(HandlerV):
    def py_hasattr(self, I, name):
        if name == "__code__":
            return hascode(self.t)
        raise OutOfSubset(f"hasattr(handler, {name})")

    def py_getattr(self, I, name):
        if name == "__code__":
            return CodeV(codeof(self.t))
        raise OutOfSubset(f"handler.{name}")


class GroupU(SymObj):
    """One rank: a non-empty list of candidates."""

    def __init__(self, r):
        self.r = r

    def py_iter(self, I):
        r = self.r
        seq = SymSeq(gsize(r), lambda i: CandU(r, i), "group")
        seq.rank = r
        return seq.stream(I)

    def py_len(self, I):
        return ZV(gsize(self.r), "int")


class RankSeq(SymObj):
    def py_truth(self, I):
        return R > 0

    def py_iter(self, I):
        seq = SymSeq(R, lambda r: GroupU(r), "ranks")
        return seq.stream(I)


class DepMap(SymObj):
    def py_getitem(self, I, key):
        return ZV(depf(I.term(key)), "bool")


class CodesU(SymObj):
    """[h.__code__ for h in handlers if hasattr(h, '__code__')] of rank r."""

    def __init__(self, r):
        self.r = r

    def py_truth(self, I):
        return has_codes(self.r)

    def py_iter(self, I):
        r = self.r
        seq = SymSeq(gsize(r), lambda i: CodeV(codeof(gh(r, i))), "codes")
        seq.rank = r
        return seq.stream(I)


class FuncList(SymObj):
    """funcs: list of (function or None, codes) pairs: length, value function, rank-of-codes function."""

    def __init__(self, length, nx, cr):
        self.length, self.nx, self.cr = length, nx, cr

    def py_truth(self, I):
        return self.length > 0

    def py_getitem(self, I, key):
        if key != -1:
            raise OutOfSubset("funcs[...] other than funcs[-1]")
        I.require(self.length > 0, "index_in_range", exc="IndexError")
        j = self.length - 1
        return (ValV(self.nx(j)), CodesU(self.cr(j)))

    def py_getattr(self, I, name):
        if name == "append":

            def append(I, pair):
                nxt, codes = pair
                v = as_val(I, nxt)
                if isinstance(codes, CodesU):
                    r = codes.r
                elif isinstance(codes, (Stream, SymSeq)):
                    st = codes if isinstance(codes, Stream) else codes.stream(I)
                    r = _rank_of_stream(st)
                    if r is None:
                        raise OutOfSubset("funcs.append of an unexpected codes value")
                    # the list really is the code objects of the methods of that rank, in order
                    i_ = I.fresh("ai", z3.IntSort())
                    el = st.elem_at(I, i_)
                    I.require(z3.And(st.length == gsize(r), z3.ForAll([i_], z3.Implies(z3.And(0 <= i_, i_ < gsize(r)), el.t == codeof(gh(r, i_))))), "codes_of_a_rank_are_the_code_objects_of_its_methods")
                else:
                    raise OutOfSubset("funcs.append of an unexpected codes value")
                n0, nx0, cr0 = self.length, self.nx, self.cr
                self.length = n0 + 1
                self.nx = lambda j: z3.If(j == n0, v, nx0(j))
                self.cr = lambda j: z3.If(j == n0, r, cr0(j))

            return Builtin("append", append)
        if name == "reverse":

            def reverse(I):
                n0, nx0, cr0 = self.length, self.nx, self.cr
                self.nx = lambda j: nx0(n0 - 1 - j)
                self.cr = lambda j: cr0(n0 - 1 - j)

            return Builtin("reverse", reverse)
        raise OutOfSubset(f"list.{name}")

    def py_iter(self, I):
        seq = SymSeq(self.length, lambda j: (ValV(self.nx(j)), CodesU(self.cr(j))), "funcs")
        return seq.stream(I)

    def fresh_like(self, I, hint="funcs"):
        n = I.fresh(hint + "_len", z3.IntSort())
        nx = I.fresh_fn(hint + "_nx", [z3.IntSort()], ValS)
        cr = I.fresh_fn(hint + "_cr", [z3.IntSort()], z3.IntSort())
        return FuncList(n, lambda j: nx(j), lambda j: cr(j))


class PlainKey(SymObj):
    concrete_identity = True
    py_star = True  # (code, *key): kept as a unit


class CodedKey(SymObj):
    def __init__(self, c):
        self.c = c


class TableU(SymObj):
    """The MultiTypeMap: dict part and errors as functional maps keyed by the plain key / a code object."""

    def __init__(self, world):
        self.world = world
        self.d_plain_has, self.d_plain = z3.BoolVal(False), NONEV
        self.d_has, self.d_val = (lambda c: z3.BoolVal(False)), (lambda c: NONEV)
        self.e_plain_has, self.e_plain_rank = z3.BoolVal(False), z3.IntVal(-1)
        self.e_has, self.e_rank = (lambda c: z3.BoolVal(False)), (lambda c: z3.IntVal(-1))

    def snapshot(self):
        return (self.d_plain_has, self.d_plain, self.d_has, self.d_val, self.e_plain_has, self.e_plain_rank, self.e_has, self.e_rank)

    def havoc_inplace(self, I, hint="tab"):
        t = self.fresh_like(I, hint)
        (self.d_plain_has, self.d_plain, self.d_has, self.d_val, self.e_plain_has, self.e_plain_rank, self.e_has, self.e_rank) = t.snapshot()
        return self

    def fresh_like(self, I, hint="tab"):
        t = TableU(self.world)
        t.d_plain_has, t.d_plain = I.fresh(hint + "_dph", z3.BoolSort()), I.fresh(hint + "_dp", ValS)
        f1, f2 = I.fresh_fn(hint + "_dh", [CodeS], z3.BoolSort()), I.fresh_fn(hint + "_dv", [CodeS], ValS)
        t.d_has, t.d_val = (lambda c: f1(c)), (lambda c: f2(c))
        t.e_plain_has, t.e_plain_rank = I.fresh(hint + "_eph", z3.BoolSort()), I.fresh(hint + "_epr", z3.IntSort())
        g1, g2 = I.fresh_fn(hint + "_eh", [CodeS], z3.BoolSort()), I.fresh_fn(hint + "_er", [CodeS], z3.IntSort())
        t.e_has, t.e_rank = (lambda c: g1(c)), (lambda c: g2(c))
        return t

    def py_setitem(self, I, key, v):
        val = as_val(I, v)
        if isinstance(key, PlainKey):
            self.d_plain_has, self.d_plain = z3.BoolVal(True), val
        elif isinstance(key, CodedKey):
            h0, v0, c0 = self.d_has, self.d_val, key.c
            self.d_has = lambda c: z3.Or(c == c0, h0(c))
            self.d_val = lambda c: z3.If(c == c0, val, v0(c))
        else:
            raise OutOfSubset(f"table key {key!r}")

    def py_getattr(self, I, name):
        if name == "mro":
            return Builtin("mro", lambda I, tup: RankSeq())
        if name == "dependent":
            return DepMap()
        if name == "errors":
            return ErrU(self)
        if name == "key_error":
            return Builtin("key_error", lambda I, tup, group=(): ExcV("TypeError", tag=("nomethod" if (isinstance(group, tuple) and not group) else ("ambiguous", group.r if isinstance(group, GroupU) else None))))
        if name == "wrap_dependent":

            def wrap(I, tup, handlers, group, next_call):
                if not isinstance(group, GroupU):
                    raise OutOfSubset("wrap_dependent of an unexpected group")
                if next_call is None:
                    nv = NONEV
                elif isinstance(next_call, tuple):
                    nv = as_val(I, next_call[0])
                else:
                    raise OutOfSubset("next_call")
                return ValV(WRAPV(group.r, nv))

            return Builtin("wrap_dependent", wrap)
        if f"MultiTypeMap.{name}" in source.module("typemap").functions:
            def uncontracted(I, *a, **k):
                self.world.havocked.append(name)
                return None

            return Builtin(name, uncontracted)
        raise OutOfSubset(f"MultiTypeMap.{name} in resolve")


class ErrU(SymObj):
    def __init__(self, t):
        self.t = t

    def py_setitem(self, I, key, v):
        t = self.t
        tag = getattr(v, "tag", None)
        if not (isinstance(tag, tuple) and tag[0] == "ambiguous" and tag[1] is not None):
            raise OutOfSubset("errors[...] = something other than the ambiguity error of a rank")
        r = tag[1]
        if isinstance(key, PlainKey):
            t.e_plain_has, t.e_plain_rank = z3.BoolVal(True), r
        elif isinstance(key, CodedKey):
            h0, r0, c0 = t.e_has, t.e_rank, key.c
            t.e_has = lambda c: z3.Or(c == c0, h0(c))
            t.e_rank = lambda c: z3.If(c == c0, r, r0(c))
        else:
            raise OutOfSubset(f"errors key {key!r}")


class ResolveWorldU(World):
    def __init__(self):
        super().__init__()
        self.inline("typemap:MultiTypeMap.resolve")
        self.havocked = []
        self.plain = PlainKey()
        self.trusted += ["contract of MultiTypeMap.mro at its call site in resolve: a list of non-empty groups, each method in exactly one group (mro.positions / mro._pull)", "every registered method is a function with its own code object (adapt_function / rename_code)"]

    def is_singleton(self, I, z, other):
        return False

    def build_tuple(self, I, elts):
        from pyvc.interp import StarV

        if len(elts) == 2 and isinstance(elts[1], StarV) and elts[1].value is self.plain and isinstance(elts[0], CodeV):
            return CodedKey(elts[0].t)
        raise OutOfSubset("tuple display shape in resolve")

    def materialize(self, I, stream):
        """a list comprehension whose filter is true of every element (all methods have code objects)."""
        if getattr(stream, "_mat", None) is not None:
            return stream._mat
        i = I.fresh("mi", z3.IntSort())
        I.quiet += 1
        try:
            g = stream.guard_at(I, i)
        finally:
            I.quiet -= 1
        s = z3.Solver()
        for a in I.solver.assertions():
            s.add(a)
        s.add(z3.Not(z3.Implies(z3.And(0 <= i, i < stream.length), g)))
        s.set("timeout", 3000)
        if s.check() != z3.unsat:
            raise OutOfSubset("materialize of a properly filtered list in resolve")
        seq = SymSeq(stream.length, stream.elem, "list")
        r = _rank_of_stream(stream)
        if r is not None:
            seq.rank = r
        stream._mat = seq
        return seq


def t_resolve_unbounded():
    w = ResolveWorldU()
    c = z3.Const("c", CodeS)
    q = z3.Int("q")

    def funcs_of(env):
        f = env.get("funcs")
        if isinstance(f, list) and not f:
            return FuncList(z3.IntVal(0), lambda j: NONEV, lambda j: z3.IntVal(-1))
        return f

    def inv0(I, env, k, seq):
        """after k ranks (R-1 down to R-k): funcs[j] = (NXT(R-1-j), codes of rank R-1-j) for j < k."""
        K = k.t
        f = funcs_of(env)
        j = z3.Int("fj")
        if z3.is_const(K) and not z3.is_int_value(K):
            I.assume(z3.Implies(z3.And(0 <= K, K < R), nxt_def(R - 1 - K)))
        return z3.And(f.length == K, z3.ForAll([j], z3.Implies(z3.And(0 <= j, j < K), z3.And(f.nx(j) == NXT(R - 1 - j), f.cr(j) == R - 1 - j))))

    def valid(cc):
        """cc is the code object of a method of some rank."""
        o = owner(cc)
        return z3.And(codeof(o) == cc, 0 <= rank_of(o), rank_of(o) < R, 0 <= idx_of(o), idx_of(o) < gsize(rank_of(o)), gh(rank_of(o), idx_of(o)) == o)

    def reach_prefix(K):
        return z3.ForAll([q], z3.Implies(z3.And(0 <= q, q < K), NXT(q) != NONEV))

    def table_inv(T, K):
        """entries written by ranks 0..K-1 (none of which was a tie)."""
        return z3.And(
            T.d_plain_has == (K > 0),
            z3.Implies(K > 0, T.d_plain == NXT(0)),
            z3.ForAll([c], T.d_has(c) == z3.And(valid(c), rank_of(owner(c)) + 1 < K)),
            z3.ForAll([c], z3.Implies(T.d_has(c), T.d_val(c) == NXT(rank_of(owner(c)) + 1))),
            z3.Not(T.e_plain_has),
            z3.ForAll([c], z3.Not(T.e_has(c))),
        )

    class CodesOrEmpty(CodesU):
        """parents after the havoc: the codes of rank r, or the empty list when r == -1."""

        def py_truth(self, I):
            return self.r >= 0

    def inv1(I, env, k, seq):
        K = k.t
        T = env.get("self")
        parents = env.get("parents")
        if isinstance(parents, list) and not parents:
            pk = K == 0
        elif isinstance(parents, CodesU):
            pk = parents.r == K - 1
        else:
            pk = z3.BoolVal(False)
        return z3.And(0 <= K, K <= R, pk, reach_prefix(K), table_inv(T, K))

    ghost = {}

    def inv_inner(kind):
        def inv(I, env, k, seq):
            """the keys of the codes of rank K-1 visited so far carry the error / the function of rank K."""
            T = env.get("self")
            K = env.get("group").r
            if z3.is_int_value(k.t) and k.t.as_long() == 0 and ghost.get(("T0", kind)) is None:
                ghost[("T0", kind)] = T.snapshot()
            d_plain_has, d_plain, d_has, d_val, e_plain_has, e_plain_rank, e_has, e_rank = ghost[("T0", kind)]
            rr = K - 1
            visited = lambda cc: z3.And(valid(cc), rank_of(owner(cc)) == rr, idx_of(owner(cc)) < k.t)
            same_d = z3.And(T.d_plain_has == d_plain_has, T.d_plain == d_plain)
            same_e = z3.And(T.e_plain_has == e_plain_has, T.e_plain_rank == e_plain_rank)
            if kind == "err":
                return z3.And(
                    same_d, same_e, z3.ForAll([c], z3.And(T.d_has(c) == d_has(c), T.d_val(c) == d_val(c))),
                    z3.ForAll([c], T.e_has(c) == z3.Or(e_has(c), visited(c))),
                    z3.ForAll([c], z3.Implies(visited(c), T.e_rank(c) == K)),
                    z3.ForAll([c], z3.Implies(z3.And(e_has(c), z3.Not(visited(c))), T.e_rank(c) == e_rank(c))),
                )
            fv = as_val(I, env.get("func"))
            return z3.And(
                same_d, same_e, z3.ForAll([c], z3.And(T.e_has(c) == e_has(c), T.e_rank(c) == e_rank(c))),
                z3.ForAll([c], T.d_has(c) == z3.Or(d_has(c), visited(c))),
                z3.ForAll([c], z3.Implies(visited(c), T.d_val(c) == fv)),
                z3.ForAll([c], z3.Implies(z3.And(d_has(c), z3.Not(visited(c))), T.d_val(c) == d_val(c))),
            )

        return inv

    hv = lambda I, env: env.get("self").havoc_inplace(I)
    w.loop("typemap:MultiTypeMap.resolve", 0, LoopSpec(inv0, modifies=["funcs"], havoc={"funcs": lambda I, env: FuncList(None, None, None).fresh_like(I)}, skip_names=("handlers", "dependent", "nxt", "codes", "group")))
    w.loop("typemap:MultiTypeMap.resolve", 1, LoopSpec(inv1, modifies=["self", "parents"], havoc={"parents": lambda I, env: CodesOrEmpty(I.fresh("prank", z3.IntSort())), "self": hv}, skip_names=("tups", "tup", "group", "func", "codes")))
    w.loop("typemap:MultiTypeMap.resolve", 2, LoopSpec(inv_inner("err"), modifies=["self"], havoc={"self": hv}))
    w.loop("typemap:MultiTypeMap.resolve", 3, LoopSpec(inv_inner("val"), modifies=["self"], havoc={"self": hv}))

    def thunk(I):
        ghost.clear()
        del w.havocked[:]
        I.assume(background())
        T = TableU(w)
        try:
            r = I.call_repo("typemap:MultiTypeMap.resolve", [T, w.plain], {})
            out = ("return", r)
        except PyRaise as e:
            out = ("raise", e.exc)
        I.require(not w.havocked, "resolve_calls_no_method_of_the_table_that_has_no_contract")
        if out[0] == "raise":
            I.require(getattr(out[1], "tag", None) == "nomethod", "only_no_method_is_raised")
            I.require(R == 0, "no_methods.no_method_is_raised_only_without_any_rank")
            I.require(z3.And(z3.Not(T.d_plain_has), z3.Not(T.e_plain_has), z3.ForAll([c], z3.And(z3.Not(T.d_has(c)), z3.Not(T.e_has(c))))), "no_methods.nothing_is_written")
            return
        I.require(R > 0, "returns_only_with_at_least_one_rank")
        # definition of NXT at the ranks the posts talk about: all of them (premise of the posts, not of the code)
        rq = z3.Int("rq")
        I.assume(z3.ForAll([rq], z3.Implies(z3.And(0 <= rq, rq < R), nxt_def(rq)), patterns=[NXT(rq)]))
        I.require(z3.If(NXT(0) != NONEV, z3.And(T.d_plain_has, T.d_plain == NXT(0), z3.Not(T.e_plain_has)), z3.And(z3.Not(T.d_plain_has), T.e_plain_has, T.e_plain_rank == 0)), "first_rank.key_maps_to_the_function_of_rank_0_or_remembers_its_tie")
        rr = lambda cc: rank_of(owner(cc)) + 1
        reached = lambda cc: z3.ForAll([q], z3.Implies(z3.And(0 <= q, q < rr(cc)), NXT(q) != NONEV))
        I.require(z3.ForAll([c], z3.Implies(z3.And(valid(c), rr(c) < R, reached(c), NXT(rr(c)) != NONEV), z3.And(T.d_has(c), T.d_val(c) == NXT(rr(c)), z3.Not(T.e_has(c))))), "continuation.code_of_rank_r_maps_to_the_function_of_rank_r_plus_1")
        I.require(z3.ForAll([c], z3.Implies(z3.And(valid(c), rr(c) < R, reached(c), NXT(rr(c)) == NONEV), z3.And(T.e_has(c), T.e_rank(c) == rr(c), z3.Not(T.d_has(c))))), "continuation.a_tied_next_rank_is_remembered_as_its_ambiguity_error")
        I.require(z3.ForAll([c], z3.Implies(T.d_has(c), z3.And(valid(c), rr(c) < R, reached(c), NXT(rr(c)) != NONEV))), "nothing_else.is_stored")
        I.require(z3.ForAll([c], z3.Implies(T.e_has(c), z3.And(valid(c), rr(c) < R, reached(c), NXT(rr(c)) == NONEV))), "nothing_else.is_remembered_as_an_error")

    return w, thunk, {"timeout_ms": 20000, "fail_fast": False}
