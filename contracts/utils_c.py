"""utils.keyword_decorator (C17 / C10: `@ovld(priority=..)`, `@dependent_check(bound_is_name=True)` go through it): with or without
keyword arguments the wrapped decorator is applied exactly once, to the function, with exactly the given keywords, and its result
is what the decoration evaluates to. Mode B: two concrete keyword names with opaque values (the body does not look at them)."""
from pyvc.interp import Builtin, OutOfSubset, PyRaise, SymObj
from pyvc.world import ModuleV, World


class Opaque(SymObj):
    concrete_identity = True

    def __init__(self, name):
        self.name = name

    def __repr__(self):
        return f"<{self.name}>"


def t_keyword_decorator():
    w = World()
    w.inline("utils:keyword_decorator")
    w.inline_prefixes = getattr(w, "inline_prefixes", ()) + ("utils:keyword_decorator.",)
    w.set_global("utils", "functools", ModuleV("functools", {"wraps": Builtin("wraps", lambda I, f: Builtin("wrapper", lambda I, g: g))}))

    def thunk(I):
        calls = []
        result = Opaque("decorated")

        def deco(I, *a, **k):
            calls.append((a, dict(k)))
            return result

        fn, v1, v2 = Opaque("fn"), Opaque("v1"), Opaque("v2")
        nd = I.call_repo("utils:keyword_decorator", [Builtin("deco", deco)], {})
        for label, kw in (("no_keywords", {}), ("one_keyword", {"priority": v1}), ("two_keywords", {"priority": v1, "linkback": v2})):
            # direct form: deco(fn, **kw)
            del calls[:]
            r = I.call(nd, [fn], dict(kw))
            I.require(len(calls) == 1 and len(calls[0][0]) == 1 and calls[0][0][0] is fn and set(calls[0][1]) == set(kw) and all(calls[0][1][k] is kw[k] for k in kw), f"direct[{label}].wrapped_decorator_applied_once_to_the_function_with_exactly_the_keywords")
            I.require(r is result, f"direct[{label}].its_result_is_returned")
            # two-step form: deco(**kw)(fn)
            del calls[:]
            step = I.call(nd, [], dict(kw))
            I.require(not calls, f"two_step[{label}].nothing_is_applied_before_the_function_arrives")
            r = I.call(step, [fn], {})
            I.require(len(calls) == 1 and len(calls[0][0]) == 1 and calls[0][0][0] is fn and set(calls[0][1]) == set(kw) and all(calls[0][1][k] is kw[k] for k in kw), f"two_step[{label}].wrapped_decorator_applied_once_to_the_function_with_exactly_the_keywords")
            I.require(r is result, f"two_step[{label}].its_result_is_returned")

    return w, thunk, {"bound": "0-2 keyword arguments", "fail_fast": False}
