"""State inventory of the dispatch path (frame obligations, mode F).

C04 / C05 / C20 are statements about state: every cache must be invisible, flushed by every change and filled once.
Those arguments enumerate the state the library keeps; they are only as good as that enumeration.  The obligation
`frames.state/<module>.every_piece_of_state_is_declared` recomputes, from the real AST of each module on the dispatch
path, the places where state can live -

    global X              module-level name bound to a mutable container / counter
    memoised function f   lru_cache / cache / cached_property
    field C.a             attribute of self / cls assigned anywhere in class C
    class-level C.a       mutable container in a class body
    attribute write *.a   attribute `a` assigned on some other object (function objects, generated functions), whatever
                          the variable holding that object is called
    global statement X

- and requires it to be within the inventory below, each item of which names the contract that covers it.  A change that
adds a memo table, a cached field or a marker attribute therefore leaves an undischarged obligation until the new state
gets an invariant of its own (that is the point: "add a cache with an incomplete key" is the most common way to break
C04 / C05 / C20, and no bounded history is guaranteed to hit the stale entry).  Removing state is always allowed.
"""
import ast
import time

from pyvc import source
from pyvc.verify import TaskResult

MUT_CALLS = {"dict", "list", "set", "count", "defaultdict", "OrderedDict", "WeakKeyDictionary", "WeakValueDictionary", "deque", "Counter", "ChainMap"}
CACHE_DECOS = {"lru_cache", "cache", "cached_property", "functools.lru_cache", "functools.cache", "functools.cached_property"}

DECLARED = {
    "typemap": {
        # MultiTypeMap: registration tables (written by register only: MultiTypeMap.register[*]) ...
        "field MultiTypeMap.maps", "field MultiTypeMap.priorities", "field MultiTypeMap.tiebreaks", "field MultiTypeMap.dependent", "field MultiTypeMap.type_tuples", "field MultiTypeMap.empty",
        # ... caches (dict part, errors, all: __missing__ / resolve / mro contracts; flushed by register) ...
        "field MultiTypeMap.all", "field MultiTypeMap.errors",
        # ... constants of the instance
        "field MultiTypeMap.key_error", "field MultiTypeMap.name", "field MultiTypeMap.dispatch_id",
        # TypeMap: registration tables + dict-part cache (TypeMap.register / TypeMap.__missing__ contracts)
        "field TypeMap.entries", "field TypeMap.types",
    },
    "mro": set(),
    "core": {
        "global _current_id", "global __all__",
        # Ovld: heap contracts of contracts/core_c.py (every field is in OvldObj / built by the real __init__)
        "field Ovld.id", "field Ovld._compiled", "field Ovld.linkback", "field Ovld.children", "field Ovld.allow_replacement", "field Ovld.name", "field Ovld.shortname", "field Ovld.__name__",
        "field Ovld.__qualname__", "field Ovld.__module__", "field Ovld._defns", "field Ovld._locked", "field Ovld.mixins", "field Ovld.argument_analysis", "field Ovld.map", "field Ovld.dispatch",
        # the user-facing function object: attributes set once by bootstrap_dispatch
        "attribute write *.__ovld__", "attribute write *.__signature__", "attribute write *.add_mixins", "attribute write *.copy", "attribute write *.display_methods",
        "attribute write *.display_resolution", "attribute write *.next", "attribute write *.register", "attribute write *.resolve", "attribute write *.unregister", "attribute write *.variant",
        "attribute write *._conformer", "attribute write *._extend_super",
        # ArgumentAnalyzer: rebuilt from scratch by analyze_arguments on every build (per-instance verification of its output)
        "field ArgumentAnalyzer.complex_transforms", "field ArgumentAnalyzer.counts", "field ArgumentAnalyzer.done", "field ArgumentAnalyzer.is_method", "field ArgumentAnalyzer.keyword_optional",
        "field ArgumentAnalyzer.keyword_required", "field ArgumentAnalyzer.name_to_positions", "field ArgumentAnalyzer.position_to_names", "field ArgumentAnalyzer.positional_optional",
        "field ArgumentAnalyzer.positional_required", "field ArgumentAnalyzer.strict_positional_optional", "field ArgumentAnalyzer.strict_positional_required", "field ArgumentAnalyzer.total",
        "field LazySignature.ovld", "field ovld_cls_dict._bases",
        # cached properties of the frozen Arginfo record: functions of its (immutable) fields
        "memoised method Arginfo.canonical", "memoised method Arginfo.is_complex",
    },
    "recode": {
        "global _current",  # counter for fresh code names (recode.tail: every rewrite gets its own)
        "attribute write *.__annotations__", "attribute write *.__kwdefaults__",
        "field Conformer.code", "field Conformer.orig_fn", "field Conformer.ovld", "field Conformer.renamed_fn",
        "field NameConverter.analysis", "field NameConverter.call_next_sym", "field NameConverter.code_mangled", "field NameConverter.count", "field NameConverter.map_mangled",
        "field NameConverter.ovld_mangled", "field NameConverter.recurse_sym",
    },
    "types": {
        "global __all__", "attribute write *.__name__", "attribute write *.__qualname__",
        "field Intersection.__args__", "field Intersection.types", "field MetaMC.__args__", "field SingleFunctionHandler.__args__", "field SingleFunctionHandler.args", "field SingleFunctionHandler.handler",
        "field TypeNormalizer.generic_handlers", "field Union.__args__", "field Union.types",
    },
    "dependent": {
        "global __all__", "global _current",
        "field CodeGen.substitutions", "field CodeGen.template", "field DependentType.bound", "field ParametrizedDependentType.__args__", "field ParametrizedDependentType.__origin__",
        "field ParametrizedDependentType.parameters", "field Regexp.rx",
    },
    "utils": {
        "global __all__", "field NameDatabase.count", "field NameDatabase.default_name", "field NameDatabase.names", "field NameDatabase.registered", "field NameDatabase.variables", "field Named.name", "field Unusable.__message",
    },
    "abc": set(),
}


def _mutable(v):
    return isinstance(v, (ast.Dict, ast.List, ast.Set, ast.ListComp, ast.DictComp, ast.SetComp)) or (isinstance(v, ast.Call) and (getattr(v.func, "id", None) in MUT_CALLS or getattr(v.func, "attr", None) in MUT_CALLS))


def inventory(modname):
    tree = source.module(modname).tree
    out = set()
    for st in tree.body:
        if isinstance(st, (ast.Assign, ast.AnnAssign)) and st.value is not None and _mutable(st.value):
            for t in st.targets if isinstance(st, ast.Assign) else [st.target]:
                if isinstance(t, ast.Name):
                    out.add(f"global {t.id}")
        if isinstance(st, ast.FunctionDef):
            for d in st.decorator_list:
                if ast.unparse(d).split("(")[0] in CACHE_DECOS:
                    out.add(f"memoised function {st.name}")
        if isinstance(st, ast.ClassDef):
            for b in st.body:
                if isinstance(b, ast.FunctionDef):
                    for d in b.decorator_list:
                        if ast.unparse(d).split("(")[0] in CACHE_DECOS:
                            out.add(f"memoised method {st.name}.{b.name}")
                    for n in ast.walk(b):
                        if isinstance(n, ast.Attribute) and isinstance(n.ctx, ast.Store) and isinstance(n.value, ast.Name) and n.value.id in ("self", "cls"):
                            out.add(f"field {st.name}.{n.attr}")
                if isinstance(b, (ast.Assign, ast.AnnAssign)) and b.value is not None and _mutable(b.value):
                    for t in b.targets if isinstance(b, ast.Assign) else [b.target]:
                        if isinstance(t, ast.Name):
                            out.add(f"class-level {st.name}.{t.id}")
    for n in ast.walk(tree):
        if isinstance(n, ast.Attribute) and isinstance(n.ctx, ast.Store) and isinstance(n.value, ast.Name) and n.value.id not in ("self", "cls"):
            out.add(f"attribute write *.{n.attr}")  # whatever the receiver is called: renaming a local is not new state
        if isinstance(n, ast.Global):
            out |= {f"global statement {x}" for x in n.names}
        # nested memo decorators (functions defined inside functions / methods)
        if isinstance(n, ast.FunctionDef):
            for d in n.decorator_list:
                if ast.unparse(d).split("(")[0] in CACHE_DECOS:
                    out.add(f"memoised function {n.name}")
    # a memoised method is reported once, as a method
    for x in list(out):
        if x.startswith("memoised method "):
            out.discard("memoised function " + x.rsplit(".", 1)[1])
    return out


def state_task(modules):
    def run():
        res = TaskResult("frames.state")
        res.mode = "U"
        t0 = time.time()
        try:
            source.reset()
            for mod in modules:
                inv = inventory(mod)
                bad = sorted(inv - DECLARED[mod])
                res.obligations.append(dict(name=f"frames.state/{mod}.every_piece_of_state_is_declared", status="proved" if not bad else "refuted", time=0.0, model=(f"state without a contract: {bad}" if bad else None), note="ast-frame", path="", goal=f"inventory({mod}) within the declared set ({len(DECLARED[mod])} items)"))
            res.cover = True
            res.meta = {"backend": "ast-frame", "cover": ["n/a"]}
        except source.AnchorMissing as e:
            res.status = "undecided"
            res.detail = f"anchor missing: {e}"
        except Exception as e:
            res.status = "error"
            res.detail = f"{type(e).__name__}: {e}"
        res.wall_s = round(time.time() - t0, 3)
        return res

    return run
