"""Per-instance verification of the entry points emitted by recode.generate_dispatch (DESIGN C03, mode I).

Each emitted __DISPATCH__ is executed by the same interpreter on *opaque* argument objects: the emitted code may
only test `param is MISSING`, apply type / subtler_type, build tuples/lists/dicts and call; anything else applied to
an argument is out of subset (a hard failure), so one execution per presence pattern covers every argument value.
The contract Spec_D is computed from the method set, never from ArgumentAnalyzer's output.
"""
import ast
import itertools
import json

from pyvc.interp import Builtin, Closure, Env, ExcV, Interp, OutOfSubset, PyRaise, SymObj
from pyvc.verify import TaskResult
from pyvc.world import World


class Opaque(SymObj):
    concrete_identity = True

    def __init__(self, name):
        self.name = name

    def __repr__(self):
        return f"<{self.name}>"


class Lookup:
    def __init__(self, fn, arg):
        self.fn, self.arg = fn, arg

    def __eq__(self, o):
        return isinstance(o, Lookup) and o.fn == self.fn and o.arg is self.arg

    def __hash__(self):
        return hash((self.fn, id(self.arg)))

    def __repr__(self):
        return f"{self.fn}({self.arg!r})"


class MissingTok(SymObj):
    concrete_identity = True

    def py_is(self, I, other):
        return other is self

    def __repr__(self):
        return "MISSING"


class MapV(SymObj):
    def __init__(self, log):
        self.log = log

    def py_getitem(self, I, key):
        m = MethodV(len(self.log))
        self.log.append(("lookup", key, m))
        return m


class MethodV(SymObj):
    concrete_identity = True

    def __init__(self, n):
        self.n = n
        self.calls = []

    def py_call(self, I, args, kwargs):
        r = Opaque(f"result{self.n}")
        self.calls.append((list(args), dict(kwargs), r))
        return r


class OvldV(SymObj):
    def __init__(self, log):
        self.map = MapV(log)

    def py_getattr(self, I, name):
        if name == "map":
            return self.map
        raise OutOfSubset(f"OVLD.{name}")


class EntryWorld(World):
    def __init__(self, gl):
        super().__init__()
        self.missing = MissingTok()
        self.gl = gl

    def global_value(self, I, mod, name):
        kind = self.gl.get(name)
        if kind == "MISSING":
            return self.missing
        if kind in ("type", "subtler_type"):
            return Builtin(kind, lambda I, x, kind=kind: self._lookup(kind, x))
        if name == "type":
            return Builtin("type", lambda I, x: self._lookup("type", x))
        if name in ("True", "False", "None"):
            return {"True": True, "False": False, "None": None}[name]
        raise OutOfSubset(f"emitted code uses the name {name}")

    def _lookup(self, kind, x):
        if not isinstance(x, Opaque):
            raise OutOfSubset(f"{kind}() applied to a non-argument {x!r}")
        return Lookup(kind, x)

    def is_singleton(self, I, z, other):
        return False


def accepted_shapes(shape):
    """(n positional, frozenset of keyword names) accepted by some method when positional parameters are passed
    positionally and keyword-only ones by name (docs/usage.md)."""
    out = {}
    for mi, m in enumerate(shape):
        pos = [p for p in m if p["kind"] in ("P", "O")]
        kw = [p for p in m if p["kind"] == "K"]
        req = sum(1 for p in pos if not p["default"])
        reqk = {p["name"] for p in kw if not p["default"]}
        optk = [p["name"] for p in kw if p["default"]]
        for n in range(req, len(pos) + 1):
            for r in range(len(optk) + 1):
                for extra in itertools.combinations(optk, r):
                    out.setdefault((n, frozenset(reqk | set(extra))), []).append(mi)
    return out


def complex_keys(shape):
    """positions / keyword names at which some method is annotated type[...] (lookup must be subtler_type, C14)."""
    cx = set()
    for m in shape:
        i = 0
        for p in m:
            if p["kind"] in ("P", "O"):
                if p.get("typeann"):
                    cx.add(i)
                i += 1
            elif p.get("typeann"):
                cx.add(p["name"])
    return cx


def positional_names(shape):
    """name of positional parameter i in each method (for binding the generated signature)."""
    return [[p["name"] for p in m if p["kind"] in ("P", "O")] for m in shape]


def verify_instance(inst, idx):
    """Returns list of obligation dicts for one emitted entry point."""
    obs = []
    name = f"entry[{shape_str(inst['shape'])}{',self' if inst['is_method'] else ''}]"

    def ob(tag, ok, detail=None):
        obs.append(dict(name=f"{name}/{tag}", status="proved" if ok else "refuted", time=0.0, model=None if ok else json.dumps(detail, default=repr)[:1500], note="opaque-execution", path="", goal=tag))

    if inst.get("error"):
        ob("generator_accepts_the_method_set", False, inst["error"])
        return name, obs
    tree = ast.parse(inst["source"])
    wrap = tree.body[0]
    fn = next(n for n in wrap.body if isinstance(n, ast.FunctionDef))
    # syntactic obligation: no try/except in the emitted code (errors of the lookup / the method propagate unchanged)
    ob("no_exception_handling_in_emitted_code", not any(isinstance(n, (ast.Try, ast.With)) for n in ast.walk(fn)))
    shape = inst["shape"]
    cx = complex_keys(shape)
    acc = accepted_shapes(shape)
    gen_pos = [a.arg for a in fn.args.posonlyargs + fn.args.args]
    if inst["is_method"]:
        gen_pos = gen_pos[1:]
    for (n, kws), methods in sorted(acc.items(), key=lambda kv: (kv[0][0], sorted(kv[0][1]))):
        npos_max = max(len([p for p in m_ if p["kind"] in ("P", "O")]) for m_ in shape) if shape else 0
        # marker of the known-finding pattern F-kwdrop: an optional positional omitted while a keyword is supplied
        mark = ";omitted_optional+keyword" if (kws and n < npos_max) else ""
        tag = f"shape[{n}{''.join(',' + k for k in sorted(kws))}{mark}]"
        w = EntryWorld(inst["globals"])
        I = Interp(w)
        log = []
        w_ovld = OvldV(log)
        selfobj = Opaque("self")
        args = [Opaque(f"arg{i}") for i in range(n)]
        kwargs = {k: Opaque(f"kw_{k}") for k in kws}

        def thunk(I):
            env = Env(None)
            env.set("OVLD", w_ovld)
            return I.exec_function(fn, "emitted", "emitted:__DISPATCH__", ([selfobj] if inst["is_method"] else []) + list(args), dict(kwargs), env)

        try:
            paths = I.explore(thunk, name)
        except OutOfSubset as e:
            ob(f"{tag}.emitted_code_only_tests_MISSING_and_takes_types", False, str(e))
            continue
        if len(paths) != 1:
            ob(f"{tag}.single_path_for_a_fixed_presence_pattern", False, len(paths))
            continue
        p = paths[0]
        if p.outcome[0] == "raise":
            ob(f"{tag}.accepted_call_shape_is_not_rejected", False, dict(exception=repr(p.outcome[1]), tag=p.outcome[1].tag, accepted_by=[f"m{m}" for m in methods]))
            continue
        ob(f"{tag}.accepted_call_shape_is_not_rejected", True)
        lookups = [e for e in log if e[0] == "lookup"]
        ob(f"{tag}.exactly_one_table_lookup", len(lookups) == 1, [repr(e[1]) for e in lookups])
        if len(lookups) != 1:
            continue
        key, m = lookups[0][1], lookups[0][2]
        key = list(key) if isinstance(key, (tuple, list)) else [key]
        want_pos = [Lookup("subtler_type" if i in cx else "type", args[i]) for i in range(n)]
        want_kw = {(k, Lookup("subtler_type" if k in cx else "type", kwargs[k])) for k in kws}
        got_pos = [k for k in key if isinstance(k, Lookup)]
        got_kw = {tuple(k) for k in key if isinstance(k, (tuple, list))}
        ob(f"{tag}.key_is_the_lookup_types_of_exactly_the_supplied_arguments", got_pos == want_pos and got_kw == want_kw and len(key) == n + len(kws), dict(key=repr(key), expected=repr(want_pos + sorted(want_kw, key=repr))))
        ob(f"{tag}.exactly_one_call_of_the_selected_method", len(m.calls) == 1, len(m.calls))
        if len(m.calls) != 1:
            continue
        cargs, ckw, res = m.calls[0]
        want_args = ([selfobj] if inst["is_method"] else []) + args
        ob(f"{tag}.positional_arguments_passed_unchanged_in_order", len(cargs) == len(want_args) and all(a is b for a, b in zip(cargs, want_args)), dict(got=repr(cargs), expected=repr(want_args)))
        ob(f"{tag}.exactly_the_supplied_keywords_passed_unchanged", set(ckw) == set(kws) and all(ckw[k] is kwargs[k] for k in kws), dict(got=repr(ckw), expected=sorted(kws)))
        ob(f"{tag}.placeholder_never_passed", not any(isinstance(a, MissingTok) for a in cargs) and not any(isinstance(v, MissingTok) for v in ckw.values()))
        ob(f"{tag}.result_returned_unchanged", p.outcome[1] is res, repr(p.outcome[1]))
    _named_positionals_by_keyword(inst, fn, shape, cx, ob, name)
    return name, obs


def _named_positionals_by_keyword(inst, fn, shape, cx, ob, name):
    """Call shapes in which named positional parameters are supplied BY KEYWORD (docs/usage.md: allowed when every method names
    its positional parameters the same; all strictly positional when the spread of optional positionals exceeds one).
    The generated entry point may refuse such a call at binding time - loudly - but if it accepts it, no supplied object may be
    dropped or moved: the key has the lookup type of every supplied positional at its position, the method receives every
    supplied object at its parameter. Refusal is a violation only in the documented case (uniform names, spread <= 1, no gap)."""
    poslists = [[p for p in m if p["kind"] in ("P", "O")] for m in shape]
    if not poslists:
        return
    maxpos = max(len(pl) for pl in poslists)
    minreq = min(sum(1 for p in pl if not p["default"]) for pl in poslists)
    uniform = all(len({pl[i]["name"] for pl in poslists if i < len(pl)}) == 1 and all(pl[i]["kind"] == "P" for pl in poslists if i < len(pl)) for i in range(maxpos))
    done = set()
    for mi, m in enumerate(shape):
        pos = poslists[mi]
        kwp = [p for p in m if p["kind"] == "K"]
        reqk = {p["name"] for p in kwp if not p["default"]}
        for npos in range(0, len(pos) + 1):
            rest = list(range(npos, len(pos)))
            for r in range(1, len(rest) + 1):
                for S in itertools.combinations(rest, r):
                    if any(pos[i]["kind"] != "P" for i in S):
                        continue  # positional-only in this method: not a call shape the method accepts
                    if any((not pos[i]["default"]) and i not in S for i in rest):
                        continue  # a required parameter would be missing
                    byname = {pos[i]["name"]: i for i in S}
                    if len(byname) != len(S) or set(byname) & {p["name"] for p in kwp}:
                        continue
                    sig = (npos, tuple(sorted(byname.items())), tuple(sorted(reqk)))
                    if sig in done:
                        continue
                    done.add(sig)
                    supplied = sorted(list(range(npos)) + list(S))
                    gap = supplied != list(range(len(supplied)))
                    tag = f"shape[{npos}" + "".join(f",{nm}@{i}" for nm, i in sorted(byname.items(), key=lambda kv: kv[1])) + "".join("," + k for k in sorted(reqk)) + ";positional_by_keyword]"
                    w = EntryWorld(inst["globals"])
                    I = Interp(w)
                    log = []
                    w_ovld = OvldV(log)
                    selfobj = Opaque("self")
                    objs = {i: Opaque(f"arg{i}") for i in supplied}
                    args = [objs[i] for i in range(npos)]
                    kwargs = {nm: objs[i] for nm, i in byname.items()}
                    kwobjs = {k: Opaque(f"kw_{k}") for k in reqk}
                    kwargs.update(kwobjs)

                    def thunk(I, args=args, kwargs=kwargs):
                        env = Env(None)
                        env.set("OVLD", w_ovld)
                        return I.exec_function(fn, "emitted", "emitted:__DISPATCH__", ([selfobj] if inst["is_method"] else []) + list(args), dict(kwargs), env)

                    try:
                        paths = I.explore(thunk, name)
                    except OutOfSubset as e:
                        ob(f"{tag}.emitted_code_only_tests_MISSING_and_takes_types", False, str(e))
                        continue
                    if len(paths) != 1:
                        ob(f"{tag}.single_path_for_a_fixed_presence_pattern", False, len(paths))
                        continue
                    p = paths[0]
                    if p.outcome[0] == "raise":
                        documented = uniform and (maxpos - minreq) <= 1 and not gap
                        refused_at_binding = str(getattr(p.outcome[1], "tag", "")).startswith("binding:")
                        ob(f"{tag}.refused_loudly_at_binding_or_passed_intact", refused_at_binding and not documented, dict(exception=repr(p.outcome[1]), tag=getattr(p.outcome[1], "tag", None), documented_as_accepted=documented))
                        continue
                    lookups = [e for e in log if e[0] == "lookup"]
                    calls_ok = len(lookups) == 1 and len(lookups[0][2].calls) == 1
                    detail = dict(lookups=[repr(e[1]) for e in lookups])
                    ok = calls_ok and not gap
                    if calls_ok:
                        key, mth = lookups[0][1], lookups[0][2]
                        key = list(key) if isinstance(key, (tuple, list)) else [key]
                        got_pos = [k for k in key if isinstance(k, Lookup)]
                        got_kw = {tuple(k) for k in key if isinstance(k, (tuple, list))}
                        # every supplied positional object is looked up: at its position, or (never emitted today) under its name
                        want_pos = [Lookup("subtler_type" if i in cx else "type", objs[i]) for i in supplied] if not gap else None
                        want_kw = {(k, Lookup("subtler_type" if k in cx else "type", kwobjs[k])) for k in reqk}
                        cargs, ckw, res = mth.calls[0]
                        recv = list(cargs[1:] if inst["is_method"] else cargs)
                        bound = {}
                        for j, a in enumerate(recv):
                            bound[j] = a
                        for k, v in ckw.items():
                            if k in byname and byname[k] not in bound:
                                bound[byname[k]] = v
                        passed = all(bound.get(i) is objs[i] for i in supplied) and set(bound) == set(supplied) and all(ckw.get(k) is kwobjs[k] for k in reqk) and set(ckw) <= set(reqk) | set(byname)
                        ok = ok and got_pos == want_pos and got_kw == want_kw and passed and p.outcome[1] is res
                        detail.update(key=repr(key), call=repr((cargs, ckw)), supplied=repr(objs), gap=gap)
                    ob(f"{tag}.refused_loudly_at_binding_or_passed_intact", ok, detail)


def shape_str(shape):
    def ps(p):
        return p["name"] + {"P": "", "O": "/", "K": "*"}[p["kind"]] + ("?" if p["default"] else "") + ("^" if p.get("typeann") else "")

    return "|".join(",".join(ps(p) for p in m) or "()" for m in shape)


def entry_task(tier, native):
    """Task runner (mode I): dump the emitted entry points with the real generator, verify each."""

    def run():
        import time

        res = TaskResult("generate_dispatch.instances")
        res.mode = "I"
        t0 = time.time()
        r = native(["gen_dispatch.py", tier], timeout=600)
        if r["rc"] != 0:
            res.status = "undecided" if "Error" in r["err"] else "error"
            res.status = "undecided"
            res.detail = f"the generator run failed: {(r['out'] + r['err'])[-600:]}"
            res.wall_s = round(time.time() - t0, 3)
            return res
        insts = json.loads(r["out"])["instances"]
        n = 0
        for i, inst in enumerate(insts):
            n += 1
            _, obs = verify_instance(inst, i)
            res.obligations.extend(obs)
        res.meta = {"instances": n, "emitted": len(insts), "cover": ["n/a"], "bound": "method-set shapes of native/gen_dispatch.py"}
        res.functions = []
        res.trusted = ["compile/exec of the emitted source text produce a function that behaves as the text says", "CPython argument binding (modelled by the interpreter's binder)"]
        res.wall_s = round(time.time() - t0, 3)
        return res

    return run
