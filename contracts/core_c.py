"""Heap contracts for src/ovld/core.py (DESIGN A.3): Ovld.defns, lock/_attempt_modify, add_mixins, compile,
register_signature, _register/_set, unregister, _update, copy/variant, first_entry trampoline.

The real method ASTs are executed on a heap of Ovld objects whose *shape* (the derivation graph: who mixes in whom,
with or without linkback) is enumerated up to a bound, while the flags (_compiled, _locked) are symbolic and the
functions / signatures are opaque objects.  Callees outside core.py (MultiTypeMap, generate_dispatch,
adapt_function, analyze_arguments, mkdoc, bootstrap_dispatch) are contracts that log what they were given and may
raise where the real ones can.  Frame conditions are checked by comparing heap snapshots.
"""
import ast
import itertools

import z3

from pyvc import source
from pyvc.interp import Builtin, Closure, Env, ExcV, OutOfSubset, PathEnd, PyRaise, RepoFn, SymObj, ZV
from pyvc.world import ModuleV, World


class Tok(SymObj):
    """Opaque object with concrete identity (a user function, a signature, a generated function...)."""

    concrete_identity = True

    def __init__(self, label, **attrs):
        self.label = label
        self.attrs = attrs

    def py_getattr(self, I, name):
        if name in self.attrs:
            return self.attrs[name]
        raise OutOfSubset(f"{self.label}.{name}")

    def py_setattr(self, I, name, v):
        self.attrs[name] = v

    def py_hasattr(self, I, name):
        return name in self.attrs

    def __repr__(self):
        return f"<{self.label}>"


class SigTok(Tok):
    """A Signature: hashable dict key with the `replace(tiebreak=...)` behaviour of the frozen dataclass."""

    def __init__(self, name, tiebreak=0, types=("T",)):
        super().__init__(f"sig:{name}:{tiebreak}")
        self.name, self.tiebreak, self.types = name, tiebreak, types
        self.attrs = dict(tiebreak=tiebreak, types=types)

    def __eq__(self, o):
        return isinstance(o, SigTok) and (o.name, o.tiebreak) == (self.name, self.tiebreak)

    def __hash__(self):
        return hash((self.name, self.tiebreak))


class MapObj(Tok):
    def __init__(self, world, name, key_error):
        super().__init__("MultiTypeMap")
        self.registered = []
        self.world = world
        world.maps_created.append(self)

    def py_getattr(self, I, name):
        if name == "register":

            def register(I, sig, fn):
                self.world.event(I, "map.register")
                self.registered.append((sig, fn))

            return Builtin("map.register", register)
        return super().py_getattr(I, name)


class DispatchFn(Tok):
    """The function object handed to users (bootstrap_dispatch result)."""

    def __init__(self, ov):
        super().__init__("dispatch", __code__="TRAMPOLINE", __kwdefaults__=None, __annotations__=None, __defaults__=None, __doc__=None, map=None)
        self.ov = ov
        self.attrs["__globals__"] = GlobalsObj()


class GlobalsObj(SymObj):
    def py_getattr(self, I, name):
        if name == "update":
            return Builtin("update", lambda I, other: None)
        raise OutOfSubset(f"__globals__.{name}")


class OvldObj(SymObj):
    concrete_identity = True
    FIELDS = ("id", "_compiled", "linkback", "children", "allow_replacement", "name", "shortname", "__name__", "_defns", "_locked", "mixins", "argument_analysis", "map", "dispatch")

    def __init__(self, label):
        self.label = label
        self.f = {}

    def py_getattr(self, I, name):
        if name in self.f:
            return self.f[name]
        m = source.module("core")
        qn = f"Ovld.{name}"
        if qn in m.functions:
            node = m.functions[qn]
            decos = [ast.unparse(d) for d in node.decorator_list]
            if "property" in decos:
                return I.call_repo(f"core:{qn}", [self], {})
            return RepoFn(f"core:{qn}", bound=self)
        raise PyRaise(ExcV("AttributeError", tag=name))

    def py_hasattr(self, I, name):
        return name in self.f or f"Ovld.{name}" in source.module("core").functions

    def py_setattr(self, I, name, v):
        I.world.event(I, f"set {self.label}.{name}")
        self.f[name] = v

    def snapshot(self):
        out = {}
        for k, v in self.f.items():
            if isinstance(v, list):
                out[k] = ("list", tuple(id(x) for x in v))
            elif isinstance(v, dict):
                out[k] = ("dict", tuple((id(a) if not isinstance(a, SigTok) else (a.name, a.tiebreak), id(b)) for a, b in v.items()))
            elif isinstance(v, ZV):
                out[k] = ("z3", v.t.sexpr())
            elif isinstance(v, DispatchFn):
                out[k] = ("dispatch", id(v), tuple((a, id(b) if not isinstance(b, (str, type(None))) else b) for a, b in sorted(v.attrs.items()) if a != "__globals__"))
            else:
                out[k] = ("val", id(v) if not isinstance(v, (str, int, bool, type(None))) else v)
        return out

    def __repr__(self):
        return f"<Ovld {self.label}>"


class CoreWorld(World):
    inline_prefixes = ("core:Ovld.", "core:bootstrap_dispatch.first_entry")

    def __init__(self, fail_at=None):
        super().__init__()
        self.maps_created = []
        self.log = []
        self.events = 0
        self.fail_at = fail_at  # ("callee", k): the k-th call of that callee raises
        self.counts = {}
        self.next_id = 100
        self.interrupt_at = None
        self.set_global("core", "MultiTypeMap", Builtin("MultiTypeMap", lambda I, name=None, key_error=None: MapObj(self, name, key_error)))
        self.set_global("core", "generate_dispatch", Builtin("generate_dispatch", self.generate_dispatch))
        self.set_global("core", "bootstrap_dispatch", Builtin("bootstrap_dispatch", lambda I, ov, name=None: DispatchFn(ov)))
        self.set_global("core", "rename_code", Builtin("rename_code", lambda I, co, name: ("renamed", co)))
        self.set_global("core", "adapt_function", Builtin("adapt_function", self.adapt_function))
        self.set_global("core", "Conformer", Builtin("Conformer", lambda I, *a: Tok("conformer")))
        self.set_global("core", "sigstring", Builtin("sigstring", lambda I, t: "sig"))
        self.set_global("core", "to_ovld", Builtin("to_ovld", lambda I, x: x if isinstance(x, OvldObj) else None))
        self.set_global("core", "replace", Builtin("replace", self.replace))
        self.set_global("core", "partial", Builtin("partial", lambda I, f, **kw: Tok("partial", fn=f, kw=kw)))
        self.set_global("core", "Signature", SignatureCls(self))
        self.set_global("core", "Ovld", Builtin("Ovld", self.new_ovld))
        self.set_global("core", "_current_id", CounterObj(self))
        self.set_global("core", "ArgumentAnalyzer", Builtin("ArgumentAnalyzer", lambda I: Tok("ArgumentAnalyzer")))
        self.ovlds = []

    def reset(self):
        """world-level ghost state is per path"""
        self.maps_created.clear()
        self.ovlds.clear()
        self.log.clear()
        self.events = 0
        self.counts = {}
        self.interrupt_at = None

    def is_singleton(self, I, z, other):
        return False

    def fstring(self, I, e, env, mod):
        return "fstr"

    def as_exception(self, I, v):
        if isinstance(v, Tok):
            return ExcV("Exception", tag=v.label)
        raise OutOfSubset(f"raise of {v!r}")

    def event(self, I, what):
        """Every heap write / external call is a program point at which an asynchronous exception may arrive (C18)."""
        self.events += 1
        self.log.append(what)
        if self.interrupt_at is not None and self.events == self.interrupt_at:
            raise PyRaise(ExcV("KeyboardInterrupt", tag=f"after event {self.events}: {what}"))

    def _maybe_fail(self, I, callee, exc):
        k = self.counts.get(callee, 0) + 1
        self.counts[callee] = k
        if self.fail_at == (callee, k):
            raise PyRaise(ExcV(exc, tag=f"{callee}#{k}"))

    def generate_dispatch(self, I, ov, arganal):
        self.event(I, "generate_dispatch")
        self._maybe_fail(I, "generate_dispatch", "TypeError")
        return Tok("generated_entry", __code__=("GENERATED", len(self.log)), __kwdefaults__="kwd", __annotations__="ann", __defaults__="def", __globals__={})

    def adapt_function(self, I, fn, ovld, newname):
        self.event(I, "adapt_function")
        self._maybe_fail(I, "adapt_function", "UsageError")
        return Tok("adapted", orig=fn, ovld=ovld)

    def replace(self, I, obj, **kw):
        if isinstance(obj, SigTok):
            return SigTok(obj.name, kw.get("tiebreak", obj.tiebreak), obj.types)
        raise OutOfSubset("dataclasses.replace on a non-signature")

    def new_ovld(self, I, mixins=(), name=None, linkback=False, allow_replacement=True):
        o = OvldObj(f"new{len(self.ovlds)}")
        self.ovlds.append(o)
        I.call_repo("core:Ovld.__init__", [o], dict(mixins=list(mixins), name=name, linkback=linkback, allow_replacement=allow_replacement))
        return o

    def global_value(self, I, mod, name):
        if (mod, name) in self._globals:
            return self._globals[(mod, name)]
        if name == "Exception":
            return super().global_value(I, mod, name)
        return super().global_value(I, mod, name)


class CounterObj(SymObj):
    def __init__(self, w):
        self.w = w

    def py_next(self, I):
        self.w.next_id += 1
        return self.w.next_id


class SignatureCls(SymObj):
    def __init__(self, w):
        self.w = w

    def py_getattr(self, I, name):
        if name == "extract":
            return Builtin("Signature.extract", lambda I, fn: fn.attrs["sig"] if isinstance(fn, Tok) and "sig" in fn.attrs else SigTok(f"of:{getattr(fn, 'label', fn)}"))
        raise OutOfSubset(f"Signature.{name}")


def mk_ovld(w, label, mixins=(), linkback=False, compiled=None, locked=None, defns=None, I=None):
    o = OvldObj(label)
    w.ovlds.append(o)
    o.f.update(
        id=len(w.ovlds),
        _compiled=compiled if compiled is not None else ZV(I.fresh(f"compiled_{label}", z3.BoolSort()), "bool"),
        linkback=linkback,
        children=[],
        allow_replacement=True,
        name=label,
        shortname=label,
        __name__=label,
        _defns=dict(defns or {}),
        _locked=locked if locked is not None else ZV(I.fresh(f"locked_{label}", z3.BoolSort()), "bool"),
        mixins=list(mixins),
        argument_analysis=Tok("ArgumentAnalyzer"),
    )
    for m in mixins:
        if linkback:
            m.f["children"].append(o)
    return o


def user_fn(name, sig):
    return Tok(f"fn:{name}", sig=sig, __doc__=None, __qualname__=name, __module__="m", __name__=name)


def spec_defns(o):
    """DESIGN A.3: fold of the parents' tables in list order, own table last (own entries replace identical signatures)."""
    d = {}
    for m in o.f["mixins"]:
        d.update(spec_defns(m))
    d.update(o.f["_defns"])
    return d


def install_common(w):
    # analyze_arguments / mkdoc are outside the contract surface: they may fail (conflicting names) and touch only self.argument_analysis
    def analyze_arguments(I, args, kwargs):
        (self_,) = args
        w.event(I, "analyze_arguments")
        w._maybe_fail(I, "analyze_arguments", "TypeError")
        self_.f["argument_analysis"] = Tok("ArgumentAnalyzer")
        return self_.f["argument_analysis"]

    w.contract("core:Ovld.analyze_arguments", analyze_arguments)
    w.contract("core:Ovld.mkdoc", lambda I, args, kwargs: "doc")
    w.contract("core:Ovld._set_attrs_from", lambda I, args, kwargs: None)
    w.contract("core:Ovld.__repr__", lambda I, args, kwargs: "<Ovld>")


GRAPHS = {
    # name: list of (label, [mixin labels], linkback)
    "single": [("o", [], False)],
    "child": [("p", [], False), ("c", ["p"], False)],
    "linked_child": [("p", [], False), ("c", ["p"], True)],
    "chain3": [("g", [], False), ("p", ["g"], False), ("c", ["p"], False)],
    "linked_chain3": [("g", [], False), ("p", ["g"], True), ("c", ["p"], True)],
    "two_parents": [("p1", [], False), ("p2", [], False), ("c", ["p1", "p2"], False)],
    "siblings": [("p", [], False), ("c1", ["p"], True), ("c2", ["p"], False)],
}


def build_graph(I, w, gname, **flags):
    objs = {}
    s1, s2, s3 = SigTok("s1"), SigTok("s2"), SigTok("s3")
    sigs = [s1, s2, s3]
    for i, (label, mix, linkback) in enumerate(GRAPHS[gname]):
        # every node defines its own method for s<i+1> and overrides s1 (identical signature in parent and child)
        d = {sigs[i % 3]: user_fn(f"{label}_{sigs[i % 3].name}", sigs[i % 3])}
        if i > 0:
            d[s1] = user_fn(f"{label}_s1", s1)
        objs[label] = mk_ovld(w, label, [objs[m] for m in mix], linkback, defns=d, I=I, **{k: v for k, v in flags.items() if k in ("compiled", "locked")})
    return objs


def snapshot_all(w):
    return {o.label: o.snapshot() for o in w.ovlds}


def changed(before, after, allow):
    """list of (object, field) that differ and are not allowed to."""
    out = []
    for lab, snap in after.items():
        b = before.get(lab, {})
        for k in set(snap) | set(b):
            if snap.get(k) != b.get(k) and (lab, k) not in allow and (lab, "*") not in allow:
                out.append((lab, k))
    return out


# --------------------------------------------------------------------------------------------------
# tasks


def t_defns(gname):
    def build():
        w = CoreWorld()
        install_common(w)

        def thunk(I):
            w.reset()
            objs = build_graph(I, w, gname)
            before = snapshot_all(w)
            for lab, o in objs.items():
                got = I.getattr(o, "defns")
                want = spec_defns(o)
                I.require(list(got.items()) == list(want.items()) if isinstance(got, dict) else False, f"defns[{lab}].is_parents_tables_overlaid_by_own_table")
            I.require(not changed(before, snapshot_all(w), set()), "defns.reads_only")

        return w, thunk, {"graph": gname}

    return build


def t_modify_guard(op, gname="child"):
    """lock/_attempt_modify: every mutator refuses (raises) iff the Ovld is locked, before changing anything."""

    def build():
        w = CoreWorld()
        install_common(w)

        def thunk(I):
            w.reset()
            objs = build_graph(I, w, gname)
            target = objs["p"]
            before = snapshot_all(w)
            locked = target.f["_locked"].t
            fn = user_fn("newfn", SigTok("s9"))
            try:
                if op == "register":
                    I.call_repo("core:Ovld._register", [target, fn, 0], {})
                elif op == "unregister":
                    I.call_repo("core:Ovld.unregister", [target, list(target.f["_defns"].values())[0]], {})
                else:
                    other = mk_ovld(w, "other", [], False, defns={}, I=I, compiled=False, locked=False)
                    before = snapshot_all(w)
                    I.call_repo("core:Ovld.add_mixins", [target, other], {})
                out = "return"
            except PyRaise as e:
                out = e.exc
            if out == "return":
                I.require(z3.Not(locked), "mutator_succeeds_only_when_not_locked")
            else:
                I.require(locked, "mutator_raises_only_when_locked")
                I.require(not changed(before, snapshot_all(w), set()), "nothing_modified_when_the_guard_raises")

        return w, thunk, {"op": op}

    return build


def t_register_frame(gname):
    """_register on a node: only that node (and, through _update, its linked descendants) change; no parent or
    sibling is touched (C16); the new method replaces an identical signature, the old holder is pushed down (C02)."""

    def build():
        w = CoreWorld()
        install_common(w)

        def thunk(I):
            w.reset()
            objs = build_graph(I, w, gname, locked=False)
            labels = list(objs)
            target = objs[labels[-1]] if gname not in ("siblings",) else objs["c2"]
            before = snapshot_all(w)
            old_holder = target.f["_defns"].get(SigTok("s1"))
            fn = user_fn("newfn", SigTok("s1"))
            I.call_repo("core:Ovld._register", [target, fn, 0], {})
            after = snapshot_all(w)

            def descendants(o):
                out = []
                for c in o.f["children"]:
                    out.append(c)
                    out += descendants(c)
                return out

            # a rebuild (compile) of a node in use locks its direct non-linked parents: the only permitted effect on a parent
            allow = {(target.label, "*")} | {(d.label, "*") for d in descendants(target)} | {(m.label, "_locked") for n in [target] + descendants(target) for m in n.f["mixins"]}
            I.require(not changed(before, after, allow), "register_never_changes_a_parent_or_sibling")
            d = target.f["_defns"]
            I.require(d.get(SigTok("s1")) is fn, "new_method_holds_the_signature")
            if old_holder is not None:
                I.require(d.get(SigTok("s1", -1)) is old_holder, "replaced_method_is_pushed_down_with_a_lower_tiebreak")

        return w, thunk, {"graph": gname}

    return build


def t_compile(gname, mode="post"):
    """compile(): new table filled from defns with every method adapted FOR SELF, direct non-linked mixins locked,
    _compiled assigned last (C05, C08, C16)."""

    def build():
        w = CoreWorld()
        install_common(w)

        def thunk(I):
            w.reset()
            objs = build_graph(I, w, gname, locked=False)
            labels = list(objs)
            target = objs[labels[-1]]
            before = snapshot_all(w)
            I.call_repo("core:Ovld.compile", [target], {})
            after = snapshot_all(w)
            m = target.f.get("map")
            I.require(isinstance(m, MapObj) and m is w.maps_created[-1] and len(w.maps_created) == 1, "compile_builds_a_brand_new_table")
            want = spec_defns(target)
            got = [(s, f.attrs.get("orig"), f.attrs.get("ovld")) for s, f in m.registered] if isinstance(m, MapObj) else []
            I.require([(s, f) for s, f, _ in got] == list(want.items()), "table_is_filled_from_exactly_the_effective_method_table")
            I.require(all(o is target for _, _, o in got), "every_inherited_method_is_adapted_for_the_function_being_built")  # C08
            for mix in target.f["mixins"]:
                if target not in mix.f["children"]:
                    I.require(I.truth(mix.f["_locked"]) is True, f"direct_non_linked_parent_is_locked[{mix.label}]")  # C16
            I.require(I.truth(target.f["_compiled"]) is True, "built_flag_set")
            allow = {(target.label, "*")} | {(mix.label, "_locked") for mix in target.f["mixins"]}
            I.require(not changed(before, after, allow), "compile_touches_only_self_and_the_lock_of_direct_parents")
            disp = target.f.get("dispatch")
            I.require(isinstance(disp, DispatchFn) and disp.attrs.get("map") is m and isinstance(disp.attrs.get("__code__"), tuple), "entry_point_swapped_to_the_generated_code_over_the_new_table")

        return w, thunk, {"graph": gname}

    return build


def t_transitive_lock(gname="chain3"):
    """C16: once a child has been put to use, EVERY function it derives from refuses modification (transitively)."""

    def build():
        w = CoreWorld()
        install_common(w)

        def thunk(I):
            w.reset()
            objs = build_graph(I, w, gname, locked=False, compiled=False)
            I.call_repo("core:Ovld.compile", [objs["c"]], {})

            def ancestors(o):
                out = []
                for m in o.f["mixins"]:
                    if o not in m.f["children"]:
                        out.append(m)
                        out += ancestors(m)
                return out

            for a in ancestors(objs["c"]):
                I.require(I.truth(a.f["_locked"]) is True, f"ancestor_refuses_modification[{a.label}]")

        return w, thunk, {"graph": gname}

    return build


def t_update_propagates(gname, compiled_parent):
    """_update (after a change of an ancestor): every linked descendant that is in use is rebuilt over its new
    effective method table, whether or not the changed ancestor itself has been used (C16 linkback, C05)."""

    def build():
        w = CoreWorld()
        install_common(w)

        def thunk(I):
            w.reset()
            objs = build_graph(I, w, gname, locked=False, compiled=False)
            labels = list(objs)
            root = objs[labels[0]]
            root.f["_compiled"] = compiled_parent
            kids = [o for o in objs.values() if o is not root]
            for k in kids:
                k.f["_compiled"] = True
                k.f["map"] = Tok("old_map")
            if compiled_parent:
                root.f["map"] = Tok("old_map")
            fn = user_fn("newfn", SigTok("s7"))
            I.call_repo("core:Ovld._register", [root, fn, 0], {})

            def linked_desc(o):
                out = []
                for c in o.f["children"]:
                    out.append(c)
                    out += linked_desc(c)
                return out

            for d in linked_desc(root):
                m = d.f.get("map")
                ok = isinstance(m, MapObj) and [(s, f.attrs.get("orig")) for s, f in m.registered] == list(spec_defns(d).items())
                I.require(bool(ok), f"linked_descendant_in_use_is_rebuilt_over_the_new_method_set[{d.label}]")
            for o in objs.values():
                if o is not root and o not in linked_desc(root):
                    I.require(not isinstance(o.f.get("map"), MapObj), f"non_linked_node_is_not_rebuilt[{o.label}]")
            if compiled_parent:
                m = root.f.get("map")
                I.require(isinstance(m, MapObj) and [(s, f.attrs.get("orig")) for s, f in m.registered] == list(spec_defns(root).items()), "changed_function_in_use_is_rebuilt")

        return w, thunk, {"graph": gname, "compiled_parent": compiled_parent}

    return build


def t_add_mixins_rebuilds():
    """C16: a mixin added to a function that is already in use must show up in it (F-mixin: add_mixins does not call _update)."""

    def build():
        w = CoreWorld()
        install_common(w)

        def thunk(I):
            w.reset()
            o = mk_ovld(w, "o", [], False, compiled=True, locked=False, defns={SigTok("s1"): user_fn("o_s1", SigTok("s1"))}, I=I)
            o.f["map"] = Tok("old_map")
            other = mk_ovld(w, "other", [], False, compiled=False, locked=False, defns={SigTok("s2"): user_fn("x_s2", SigTok("s2"))}, I=I)
            I.call_repo("core:Ovld.add_mixins", [o, other], {})
            m = o.f.get("map")
            I.require(isinstance(m, MapObj) and [(s, f.attrs.get("orig")) for s, f in m.registered] == list(spec_defns(o).items()), "function_in_use_is_rebuilt_when_a_mixin_is_added")

        return w, thunk, {}

    return build


def safe(w, o):
    """Safe(o) of DESIGN C18: the entry point still routes through the build, or the table is complete for defns(o)."""
    disp = o.f.get("dispatch")
    code = disp.attrs.get("__code__") if isinstance(disp, DispatchFn) else "TRAMPOLINE"
    routes_through_build = code == "TRAMPOLINE"
    m = o.f.get("map")
    complete = isinstance(m, MapObj) and [(s, f.attrs.get("orig")) for s, f in m.registered] == list(spec_defns(o).items()) and (not isinstance(disp, DispatchFn) or disp.attrs.get("map") is m)
    return routes_through_build or complete


def t_build_failure(callee, k, first_build):
    """C18: if the build fails because callee #k raises, later calls fail again or see the complete method set."""

    def build():
        w = CoreWorld(fail_at=(callee, k))
        install_common(w)

        def thunk(I):
            w.reset()
            s1, s2, s3 = SigTok("s1"), SigTok("s2"), SigTok("s3")
            o = mk_ovld(w, "o", [], False, compiled=not first_build, locked=False, defns={s1: user_fn("f1", s1), s2: user_fn("f2", s2), s3: user_fn("f3", s3)}, I=I)
            if first_build:
                o.f["dispatch"] = DispatchFn(o)
            else:
                old = MapObj(w, "old", None)
                w.maps_created.clear()
                old.registered = [(s, Tok("adapted", orig=f, ovld=o)) for s, f in spec_defns(o).items()]
                d = DispatchFn(o)
                d.attrs.update(__code__=("GENERATED", 0), map=old)
                o.f.update(map=old, dispatch=d)
            try:
                I.call_repo("core:Ovld.compile", [o], {})
                I.require(safe(w, o), "safe_after_successful_build")
                return
            except PyRaise as e:
                exc = e.exc
            I.require(safe(w, o), f"safe_after_failure_in[{callee}#{k}]")

        return w, thunk, {"callee": callee, "k": k, "first_build": first_build}

    return build


def t_build_interrupt(first_build):
    """C18 'an interrupt arriving at any moment': Safe must hold at EVERY program point of the build (each heap
    write / external call is a point at which an asynchronous exception is raised)."""

    def build():
        w = CoreWorld()
        install_common(w)

        def thunk(I):
            w.reset()
            # first pass (no interrupt) counts the program points; then one path per point
            s1, s2 = SigTok("s1"), SigTok("s2")

            def fresh():
                w.ovlds.clear()
                w.maps_created.clear()
                w.events = 0
                w.log.clear()
                o = mk_ovld(w, "o", [], False, compiled=not first_build, locked=False, defns={s1: user_fn("f1", s1), s2: user_fn("f2", s2)}, I=I)
                if first_build:
                    o.f["dispatch"] = DispatchFn(o)
                else:
                    old = MapObj(w, "old", None)
                    w.maps_created.clear()
                    old.registered = [(s, Tok("adapted", orig=f, ovld=o)) for s, f in spec_defns(o).items()]
                    d = DispatchFn(o)
                    d.attrs.update(__code__=("GENERATED", 0), map=old)
                    o.f.update(map=old, dispatch=d)
                return o

            w.interrupt_at = None
            o = fresh()
            I.call_repo("core:Ovld.compile", [o], {})
            npoints = w.events
            points = list(w.log)
            for p in range(1, npoints + 1):
                o = fresh()
                w.interrupt_at = p
                try:
                    I.call_repo("core:Ovld.compile", [o], {})
                except PyRaise:
                    pass
                w.interrupt_at = None
                I.require(safe(w, o), f"safe_if_interrupted_after[{p}:{points[p - 1]}]")

        return w, thunk, {"first_build": first_build}

    return build


def t_trampoline():
    """bootstrap_dispatch.first_entry / Ovld.__call__: build if needed, then forward exactly *args, **kwargs to the
    entry point and return its result."""

    def build():
        w = CoreWorld()
        install_common(w)
        calls = []

        class Entry(DispatchFn):
            def py_call(self, I, args, kwargs):
                calls.append((list(args), dict(kwargs)))
                return "RESULT"

        def thunk(I):
            w.reset()
            del calls[:]
            o = mk_ovld(w, "o", [], False, locked=False, defns={SigTok("s1"): user_fn("f1", SigTok("s1"))}, I=I)
            o.f["dispatch"] = Entry(o)
            compiled0 = o.f["_compiled"].t
            a, b = Tok("a"), Tok("b")
            r = I.call_repo("core:Ovld.__call__", [o, a], dict(k=b))
            I.require(r == "RESULT" and len(calls) == 1 and calls[0][0] == [a] and calls[0][1] == {"k": b}, "forwards_exactly_the_arguments_and_returns_the_result")
            I.require(z3.Or(compiled0, z3.BoolVal(len(w.maps_created) == 1)), "builds_first_when_not_yet_built")
            I.require(z3.Implies(compiled0, z3.BoolVal(len(w.maps_created) == 0)), "does_not_rebuild_when_already_built")

        return w, thunk, {}

    return build


def t_recovery(first_build, where="adapt"):
    """C18 'once the offending method is removed the function works normally': a build that fails while adapting a
    method, followed by unregistering that method, leaves the function Safe and complete for the remaining methods."""

    def build():
        w = CoreWorld()
        install_common(w)

        def thunk(I):
            w.reset()
            s1, s2 = SigTok("s1"), SigTok("s2")
            good = user_fn("good", s1)
            bad = user_fn("bad", s2)
            o = mk_ovld(w, "o", [], False, compiled=False, locked=False, defns={s1: good}, I=I)
            o.f["dispatch"] = DispatchFn(o)
            if not first_build:
                I.call_repo("core:Ovld.compile", [o], {})  # in use over {good}
            # registering `bad` makes the (re)build fail while adapting it
            orig = w.adapt_function

            def adapt(I2, fn, ovld, newname):
                if fn is bad:
                    w.event(I2, "adapt_function(bad)")
                    raise PyRaise(ExcV("UsageError", tag="call_next should be called right away"))
                return orig(I2, fn, ovld, newname)

            if where == "adapt":
                w.set_global("core", "adapt_function", Builtin("adapt_function", adapt))
            else:  # conflicting argument names: the argument analysis rejects the method set while `bad` is in it

                def analyze(I2, args, kwargs):
                    (self_,) = args
                    w.event(I2, "analyze_arguments")
                    if any(f is bad for f in I2.getattr(self_, "defns").values()):
                        raise PyRaise(ExcV("TypeError", tag="Argument declared in different positions"))
                    self_.f["argument_analysis"] = Tok("ArgumentAnalyzer")
                    return self_.f["argument_analysis"]

                w.contract("core:Ovld.analyze_arguments", analyze)
            try:
                I.call_repo("core:Ovld._register", [o, bad, 0], {})
                if first_build:
                    I.call_repo("core:Ovld.compile", [o], {})
                I.require(False, "the_invalid_method_makes_the_build_fail")
            except PyRaise:
                pass
            try:
                I.call_repo("core:Ovld.unregister", [o, bad], {})
            except PyRaise as e:
                I.require(False, f"unregistering_the_offending_method_succeeds[{e.exc.cls}]")
                return
            # a later call goes through the function object handed to the user: the trampoline (which builds) while its
            # code has not been swapped, the generated entry point (which indexes self.map directly) afterwards
            I.require(safe(w, o), "works_normally_after_the_offending_method_is_removed")

        return w, thunk, {"first_build": first_build, "where": where}

    return build
