"""Heap contracts for src/ovld/core.py (DESIGN A.3): Ovld.defns, lock/_attempt_modify, add_mixins, compile,
register_signature, _register/_set, unregister, _update, copy/variant, first_entry trampoline.

The real method ASTs are executed on a heap of Ovld objects whose *shape* (the derivation graph: who mixes in whom,
with or without linkback) is enumerated up to a bound, while the flags (_compiled, _locked) are symbolic and the
functions / signatures are opaque objects.  Callees outside core.py (MultiTypeMap, generate_dispatch,
adapt_function, analyze_arguments, mkdoc, bootstrap_dispatch) are contracts that log what they were given and may
raise where the real ones can.  Frame conditions are checked by comparing heap snapshots.
"""
import ast
import itertools

import z3

from pyvc import source
from pyvc.interp import Builtin, Closure, Env, ExcV, OutOfSubset, PathEnd, PyRaise, RepoFn, SymObj, ZV
from pyvc.world import ModuleV, World


class Tok(SymObj):
    """Opaque object with concrete identity (a user function, a signature, a generated function...)."""

    concrete_identity = True

    def __init__(self, label, **attrs):
        self.label = label
        self.attrs = attrs

    def py_getattr(self, I, name):
        if name in self.attrs:
            return self.attrs[name]
        raise OutOfSubset(f"{self.label}.{name}")

    def py_setattr(self, I, name, v):
        self.attrs[name] = v

    def py_hasattr(self, I, name):
        return name in self.attrs

    def __repr__(self):
        return f"<{self.label}>"


class SigTok(Tok):
    """A Signature: hashable dict key with the `replace(tiebreak=...)` behaviour of the frozen dataclass."""

    def __init__(self, name, tiebreak=0, types=("T",)):
        super().__init__(f"sig:{name}:{tiebreak}")
        self.name, self.tiebreak, self.types = name, tiebreak, types
        self.attrs = dict(tiebreak=tiebreak, types=types)

    def __eq__(self, o):
        return isinstance(o, SigTok) and (o.name, o.tiebreak) == (self.name, self.tiebreak)

    def __hash__(self):
        return hash((self.name, self.tiebreak))


class MapObj(Tok):
    def __init__(self, world, name, key_error):
        super().__init__("MultiTypeMap")
        self.registered = []
        self.world = world
        world.maps_created.append(self)

    def py_getattr(self, I, name):
        if name == "register":

            def register(I, sig, fn):
                self.world.event(I, "map.register")
                self.registered.append((sig, fn))

            return Builtin("map.register", register)
        if name in self.attrs:
            return self.attrs[name]

        def unknown(I, *a, **k):  # a method the contract does not know (added by a change): it may do anything to the table
            self.world.event(I, f"map.{name}")
            self.registered = [("unknown-state", Tok(f"after map.{name}"))]
            return None

        return Builtin(f"map.{name}", unknown)


class DispatchFn(Tok):
    """The function object handed to users (bootstrap_dispatch result)."""

    def __init__(self, ov):
        super().__init__("dispatch", __code__="TRAMPOLINE", __kwdefaults__=None, __annotations__=None, __defaults__=None, __doc__=None, map=None)
        self.ov = ov
        self.attrs["__globals__"] = GlobalsObj()

    def py_getattr(self, I, name):
        if name in self.attrs:
            return self.attrs[name]
        if name in ("register", "resolve", "copy", "variant", "add_mixins", "unregister", "next", "display_methods", "display_resolution"):
            return I.getattr(self.ov, name)  # core.py bootstrap_dispatch: dispatch.<name> = ov.<name>
        raise OutOfSubset(f"dispatch.{name}")


class GlobalsObj(SymObj):
    def py_getattr(self, I, name):
        if name == "update":
            return Builtin("update", lambda I, other: None)
        raise OutOfSubset(f"__globals__.{name}")


class OvldObj(SymObj):
    concrete_identity = True
    FIELDS = ("id", "_compiled", "linkback", "children", "allow_replacement", "name", "shortname", "__name__", "_defns", "_locked", "mixins", "argument_analysis", "map", "dispatch")

    def __init__(self, label):
        self.label = label
        self.f = {}

    def py_getattr(self, I, name):
        if name in self.f:
            return self.f[name]
        m = source.module("core")
        qn = f"Ovld.{name}"
        if qn in m.functions:
            node = m.functions[qn]
            decos = [ast.unparse(d) for d in node.decorator_list]
            if "property" in decos:
                return I.call_repo(f"core:{qn}", [self], {})
            return RepoFn(f"core:{qn}", bound=self)
        raise PyRaise(ExcV("AttributeError", tag=name))

    def py_hasattr(self, I, name):
        return name in self.f or f"Ovld.{name}" in source.module("core").functions

    def py_setattr(self, I, name, v):
        I.world.event(I, f"set {self.label}.{name}")
        self.f[name] = v

    def snapshot(self):
        out = {}
        for k, v in self.f.items():
            if isinstance(v, list):
                out[k] = ("list", tuple(id(x) for x in v))
            elif isinstance(v, dict):
                out[k] = ("dict", tuple((id(a) if not isinstance(a, SigTok) else (a.name, a.tiebreak), id(b)) for a, b in v.items()))
            elif isinstance(v, ZV):
                out[k] = ("z3", v.t.sexpr())
            elif isinstance(v, DispatchFn):
                out[k] = ("dispatch", id(v), tuple((a, id(b) if not isinstance(b, (str, type(None))) else b) for a, b in sorted(v.attrs.items()) if a != "__globals__"))
            else:
                out[k] = ("val", id(v) if not isinstance(v, (str, int, bool, type(None))) else v)
        return out

    def __repr__(self):
        return f"<Ovld {self.label}>"


class CoreWorld(World):
    inline_prefixes = ("core:Ovld.", "core:bootstrap_dispatch.first_entry")

    def __init__(self, fail_at=None):
        super().__init__()
        self.maps_created = []
        self.log = []
        self.events = 0
        self.fail_at = fail_at  # ("callee", k): the k-th call of that callee raises
        self.counts = {}
        self.next_id = 100
        self.uncontracted = []
        self.interrupt_at = None
        self.set_global("core", "MultiTypeMap", Builtin("MultiTypeMap", lambda I, name=None, key_error=None: MapObj(self, name, key_error)))
        self.set_global("core", "generate_dispatch", Builtin("generate_dispatch", self.generate_dispatch))
        self.set_global("core", "bootstrap_dispatch", Builtin("bootstrap_dispatch", lambda I, ov, name=None: DispatchFn(ov)))
        self.set_global("core", "rename_code", Builtin("rename_code", lambda I, co, name: ("renamed", co)))
        self.set_global("core", "adapt_function", Builtin("adapt_function", self.adapt_function))
        self.set_global("core", "Conformer", Builtin("Conformer", lambda I, *a: Tok("conformer")))
        self.set_global("core", "sigstring", Builtin("sigstring", lambda I, t: "sig"))
        self.set_global("core", "to_ovld", Builtin("to_ovld", lambda I, x: x if isinstance(x, OvldObj) else None))
        self.set_global("core", "replace", Builtin("replace", self.replace))
        self.set_global("core", "partial", Builtin("partial", lambda I, f, **kw: Tok("partial", fn=f, kw=kw)))
        self.set_global("core", "Signature", SignatureCls(self))
        self.set_global("core", "Ovld", Builtin("Ovld", self.new_ovld))
        self.set_global("core", "_current_id", CounterObj(self))
        self.set_global("core", "ArgumentAnalyzer", Builtin("ArgumentAnalyzer", lambda I: Tok("ArgumentAnalyzer")))
        self.ovlds = []

    def reset(self):
        """world-level ghost state is per path"""
        del self.uncontracted[:]
        self.maps_created.clear()
        self.ovlds.clear()
        self.log.clear()
        self.events = 0
        self.counts = {}
        self.interrupt_at = None

    def policy(self, I, qual):
        pol = super().policy(I, qual)
        if pol is None and qual.split(":")[0] in ("core", "recode", "typemap", "utils") and not qual.startswith("core:Ovld."):
            # a helper the contracts do not know (introduced by a change): recorded; every task requires that none was needed
            def uncontracted(I2, args, kwargs):
                self.uncontracted.append(qual)
                return Tok(f"result of {qual}")

            return uncontracted
        return pol

    def is_singleton(self, I, z, other):
        return False

    def fstring(self, I, e, env, mod):
        return "fstr"

    def as_exception(self, I, v):
        if isinstance(v, Tok):
            return ExcV("Exception", tag=v.label)
        raise OutOfSubset(f"raise of {v!r}")

    def event(self, I, what):
        """Every heap write / external call is a program point at which an asynchronous exception may arrive (C18)."""
        self.events += 1
        self.log.append(what)
        if self.interrupt_at is not None and self.events == self.interrupt_at:
            raise PyRaise(ExcV("KeyboardInterrupt", tag=f"after event {self.events}: {what}"))

    def _maybe_fail(self, I, callee, exc):
        k = self.counts.get(callee, 0) + 1
        self.counts[callee] = k
        if self.fail_at == (callee, k):
            raise PyRaise(ExcV(exc, tag=f"{callee}#{k}"))

    def generate_dispatch(self, I, ov, arganal):
        self.event(I, "generate_dispatch")
        self._maybe_fail(I, "generate_dispatch", "TypeError")
        if getattr(self, "empty_entry_attrs", False):  # an entry point without defaults: None / None / {}
            self.last_generated = Tok("generated_entry", __code__=("GENERATED", len(self.log)), __kwdefaults__=None, __annotations__={}, __defaults__=None, __globals__={})
        else:
            self.last_generated = Tok("generated_entry", __code__=("GENERATED", len(self.log)), __kwdefaults__="kwd", __annotations__="ann", __defaults__="def", __globals__={})
        return self.last_generated

    def adapt_function(self, I, fn, ovld, newname):
        self.event(I, "adapt_function")
        self._maybe_fail(I, "adapt_function", "UsageError")
        if getattr(self, "bad_fn", None) is not None and fn is self.bad_fn:  # an invalid method: adapting it always fails
            raise PyRaise(ExcV("UsageError", tag="invalid method"))
        return Tok("adapted", orig=fn, ovld=ovld)

    def replace(self, I, obj, **kw):
        if isinstance(obj, SigTok):
            return SigTok(obj.name, kw.get("tiebreak", obj.tiebreak), obj.types)
        raise OutOfSubset("dataclasses.replace on a non-signature")

    def new_ovld(self, I, mixins=(), name=None, linkback=False, allow_replacement=True):
        o = OvldObj(f"new{len(self.ovlds)}")
        self.ovlds.append(o)
        I.call_repo("core:Ovld.__init__", [o], dict(mixins=list(mixins), name=name, linkback=linkback, allow_replacement=allow_replacement))
        return o

    def global_value(self, I, mod, name):
        if (mod, name) in self._globals:
            return self._globals[(mod, name)]
        if name == "Exception":
            return super().global_value(I, mod, name)
        return super().global_value(I, mod, name)


class CounterObj(SymObj):
    def __init__(self, w):
        self.w = w

    def py_next(self, I):
        self.w.next_id += 1
        return self.w.next_id


class SignatureCls(SymObj):
    def __init__(self, w):
        self.w = w

    def py_getattr(self, I, name):
        if name == "extract":
            return Builtin("Signature.extract", lambda I, fn: fn.attrs["sig"] if isinstance(fn, Tok) and "sig" in fn.attrs else SigTok(f"of:{getattr(fn, 'label', fn)}"))
        raise OutOfSubset(f"Signature.{name}")


def mk_ovld(w, label, mixins=(), linkback=False, compiled=None, locked=None, defns=None, I=None):
    o = OvldObj(label)
    w.ovlds.append(o)
    # the object is constructed by the REAL Ovld.__init__ (so that every field the class maintains exists, with the
    # value the constructor gives it); the harness then puts it into the state the task quantifies over
    ev, lg, ia = w.events, list(w.log), w.interrupt_at
    w.interrupt_at = None
    I.call_repo("core:Ovld.__init__", [o], {"mixins": list(mixins), "name": label, "linkback": linkback})
    w.events, w.interrupt_at = ev, ia
    w.log[:] = lg
    o.f.update(
        id=len(w.ovlds),
        _compiled=compiled if compiled is not None else ZV(I.fresh(f"compiled_{label}", z3.BoolSort()), "bool"),
        linkback=linkback,
        children=[],
        allow_replacement=True,
        name=label,
        shortname=label,
        __name__=label,
        _defns=dict(defns or {}),
        _locked=locked if locked is not None else ZV(I.fresh(f"locked_{label}", z3.BoolSort()), "bool"),
        mixins=list(mixins),
        argument_analysis=Tok("ArgumentAnalyzer"),
    )
    return o


def user_fn(name, sig):
    return Tok(f"fn:{name}", sig=sig, __doc__=None, __qualname__=name, __module__="m", __name__=name)


def spec_defns(o):
    """DESIGN A.3: fold of the parents' tables in list order, own table last (own entries replace identical signatures)."""
    d = {}
    for m in o.f["mixins"]:
        d.update(spec_defns(m))
    d.update(o.f["_defns"])
    return d


def install_common(w):
    # analyze_arguments / mkdoc are outside the contract surface: they may fail (conflicting names) and touch only self.argument_analysis
    def analyze_arguments(I, args, kwargs):
        (self_,) = args
        w.event(I, "analyze_arguments")
        w._maybe_fail(I, "analyze_arguments", "TypeError")
        self_.f["argument_analysis"] = Tok("ArgumentAnalyzer")
        return self_.f["argument_analysis"]

    w.contract("core:Ovld.analyze_arguments", analyze_arguments)
    w.contract("core:Ovld.mkdoc", lambda I, args, kwargs: "doc")
    w.contract("core:Ovld._set_attrs_from", lambda I, args, kwargs: None)
    w.contract("core:Ovld.__repr__", lambda I, args, kwargs: "<Ovld>")


GRAPHS = {
    # name: list of (label, [mixin labels], linkback)
    "single": [("o", [], False)],
    "child": [("p", [], False), ("c", ["p"], False)],
    "linked_child": [("p", [], False), ("c", ["p"], True)],
    "chain3": [("g", [], False), ("p", ["g"], False), ("c", ["p"], False)],
    "linked_chain3": [("g", [], False), ("p", ["g"], True), ("c", ["p"], True)],
    "two_parents": [("p1", [], False), ("p2", [], False), ("c", ["p1", "p2"], False)],
    "siblings": [("p", [], False), ("c1", ["p"], True), ("c2", ["p"], False)],
}


def build_graph(I, w, gname, **flags):
    objs = {}
    s1, s2, s3 = SigTok("s1"), SigTok("s2"), SigTok("s3")
    sigs = [s1, s2, s3]
    for i, (label, mix, linkback) in enumerate(GRAPHS[gname]):
        # every node defines its own method for s<i+1> and overrides s1 (identical signature in parent and child)
        d = {sigs[i % 3]: user_fn(f"{label}_{sigs[i % 3].name}", sigs[i % 3])}
        if i > 0:
            d[s1] = user_fn(f"{label}_s1", s1)
        objs[label] = mk_ovld(w, label, [objs[m] for m in mix], linkback, defns=d, I=I, **{k: v for k, v in flags.items() if k in ("compiled", "locked")})
    return objs


def snapshot_all(w):
    return {o.label: o.snapshot() for o in w.ovlds}


def changed(before, after, allow):
    """list of (object, field) that differ and are not allowed to."""
    out = []
    for lab, snap in after.items():
        b = before.get(lab, {})
        for k in set(snap) | set(b):
            if snap.get(k) != b.get(k) and (lab, k) not in allow and (lab, "*") not in allow:
                out.append((lab, k))
    return out


# --------------------------------------------------------------------------------------------------
# tasks


def t_defns(gname):
    def build():
        w = CoreWorld()
        install_common(w)

        def thunk(I):
            w.reset()
            objs = build_graph(I, w, gname)
            before = snapshot_all(w)
            for lab, o in objs.items():
                got = I.getattr(o, "defns")
                want = spec_defns(o)
                I.require(list(got.items()) == list(want.items()) if isinstance(got, dict) else False, f"defns[{lab}].is_parents_tables_overlaid_by_own_table")
            I.require(not changed(before, snapshot_all(w), set()), "defns.reads_only")

        return w, thunk, {"graph": gname}

    return build


def t_defns_history(gname, at):
    """C16/C17: `defns` is a function of the CURRENT tables.  History: every node's effective table is read once
    (nothing is in use, nothing locked), then node `at` registers a new method, then every node is read again: each
    must equal the fold of its parents' current tables overlaid by its own (DESIGN A.3), whatever was read before."""

    def build():
        w = CoreWorld()
        install_common(w)

        def thunk(I):
            w.reset()
            objs = build_graph(I, w, gname, locked=False, compiled=False)
            for o in objs.values():
                I.getattr(o, "defns")
            node = objs[list(objs)[at]]
            sig = SigTok("s9")
            fn = user_fn("newfn", sig)
            I.call_repo("core:Ovld._register", [node, fn, 0], {})
            for o in objs.values():
                got = I.getattr(o, "defns")
                want = spec_defns(o)
                I.require(isinstance(got, dict) and list(got.keys()) == list(want.keys()) and all(got[k_] is want[k_] for k_ in want), f"effective_table_follows_the_current_tables_after_a_change_to[{node.label}]_seen_from[{o.label}]")

        return w, thunk, {"graph": gname, "at": at}

    return build


def t_modify_guard(op, gname="child"):
    """lock/_attempt_modify: every mutator refuses (raises) iff the Ovld is locked, before changing anything."""

    def build():
        w = CoreWorld()
        install_common(w)

        def thunk(I):
            w.reset()
            objs = build_graph(I, w, gname)
            target = objs["p"]
            before = snapshot_all(w)
            locked = target.f["_locked"].t
            fn = user_fn("newfn", SigTok("s9"))
            try:
                if op == "register":
                    I.call_repo("core:Ovld._register", [target, fn, 0], {})
                elif op == "unregister":
                    I.call_repo("core:Ovld.unregister", [target, list(target.f["_defns"].values())[0]], {})
                else:
                    other = mk_ovld(w, "other", [], False, defns={}, I=I, compiled=False, locked=False)
                    before = snapshot_all(w)
                    I.call_repo("core:Ovld.add_mixins", [target, other], {})
                out = "return"
            except PyRaise as e:
                out = e.exc
            if out == "return":
                I.require(z3.Not(locked), "mutator_succeeds_only_when_not_locked")
            else:
                I.require(locked, "mutator_raises_only_when_locked")
                I.require(not changed(before, snapshot_all(w), set()), "nothing_modified_when_the_guard_raises")

        return w, thunk, {"op": op}

    return build


def t_register_frame(gname, which="own"):
    """_register on a node: only that node (and, through _update, its linked descendants) change; no parent or
    sibling is touched (C16); the new method replaces an identical signature, the old holder is pushed down (C02)."""

    def build():
        w = CoreWorld()
        install_common(w)

        def thunk(I):
            w.reset()
            objs = build_graph(I, w, gname, locked=False)
            labels = list(objs)
            target = objs[labels[-1]] if gname not in ("siblings",) else objs["c2"]
            before = snapshot_all(w)
            # which="own": the signature is already in the node's OWN table; "inherited": only a parent holds it
            the_sig = SigTok("s1") if which == "own" else next(s_ for s_ in spec_defns(target) if s_ not in target.f["_defns"])
            own_before = dict(target.f["_defns"])
            old_holder = own_before.get(the_sig)
            fn = user_fn("newfn", the_sig)
            I.call_repo("core:Ovld._register", [target, fn, 0], {})
            after = snapshot_all(w)

            def descendants(o):
                out = []
                for c in o.f["children"]:
                    out.append(c)
                    out += descendants(c)
                return out

            # a rebuild (compile) of a node in use locks its direct non-linked parents: the only permitted effect on a parent
            allow = {(target.label, "*")} | {(d.label, "*") for d in descendants(target)} | {(m.label, "_locked") for n in [target] + descendants(target) for m in n.f["mixins"]}
            I.require(not changed(before, after, allow), "register_never_changes_a_parent_or_sibling")
            d = target.f["_defns"]
            I.require(d.get(the_sig) is fn, "new_method_holds_the_signature")
            want_own = dict(own_before)
            if old_holder is not None:
                I.require(d.get(SigTok(the_sig.name, -1)) is old_holder, "replaced_method_is_pushed_down_with_a_lower_tiebreak")
                want_own[SigTok(the_sig.name, -1)] = old_holder
            want_own[the_sig] = fn
            # the node's own table gains the new method (and the pushed-down previous holder of its OWN table) and nothing
            # else: a parent's method is never copied into the child's table (C16: changes to a parent stay visible /
            # the child's changes stay its own)
            I.require(set(d.keys()) == set(want_own.keys()) and all(d[k_] is v_ for k_, v_ in want_own.items()), "own_table_changes_by_exactly_the_new_method_and_its_pushed_down_predecessor")

        return w, thunk, {"graph": gname, "which": which}

    return build


def t_compile(gname, mode="post", which="last", empty_attrs=False):
    """compile(): new table filled from defns with every method adapted FOR SELF, direct non-linked mixins locked,
    _compiled assigned last (C05, C08, C16).  which="root": the build of a PARENT (its first use) touches no child,
    linked or not, built or not (C20: using the parent is not a change of any method set)."""

    def build():
        w = CoreWorld()
        install_common(w)

        def thunk(I):
            w.reset()
            objs = build_graph(I, w, gname, locked=False)
            labels = list(objs)
            target = objs[labels[-1]] if which == "last" else objs[labels[0]]
            w.empty_entry_attrs = empty_attrs
            if empty_attrs:  # the function is in use: its user-facing function carries the defaults of the previous entry point
                d0 = DispatchFn(target)
                d0.attrs.update(__code__=("GENERATED", 0), __defaults__=("MISSING",), __kwdefaults__={"k": "MISSING"}, __annotations__={"x": "int"})
                target.f.update(dispatch=d0, _compiled=True)
            if which == "root":
                target.f["_compiled"] = False
                for o_ in objs.values():
                    if o_ is not target:  # the children are in use: they have a table and a generated entry point
                        m_ = MapObj(w, "old", None)
                        m_.registered = [(s_, Tok("adapted", orig=f_, ovld=o_)) for s_, f_ in spec_defns(o_).items()]
                        d_ = DispatchFn(o_)
                        d_.attrs.update(__code__=("GENERATED", 0), map=m_)
                        o_.f.update(map=m_, dispatch=d_, _compiled=True)
                w.maps_created.clear()
            before = snapshot_all(w)
            I.call_repo("core:Ovld.compile", [target], {})
            after = snapshot_all(w)
            m = target.f.get("map")
            I.require(isinstance(m, MapObj) and m is w.maps_created[-1] and len(w.maps_created) == 1, "compile_builds_a_brand_new_table")
            want = spec_defns(target)
            got = [(s, f.attrs.get("orig"), f.attrs.get("ovld")) for s, f in m.registered] if isinstance(m, MapObj) else []
            I.require([(s, f) for s, f, _ in got] == list(want.items()), "table_is_filled_from_exactly_the_effective_method_table")
            I.require(all(o is target for _, _, o in got), "every_inherited_method_is_adapted_for_the_function_being_built")  # C08
            for mix in target.f["mixins"]:
                if target not in mix.f["children"]:
                    I.require(I.truth(mix.f["_locked"]) is True, f"direct_non_linked_parent_is_locked[{mix.label}]")  # C16
            I.require(I.truth(target.f["_compiled"]) is True, "built_flag_set")
            allow = {(target.label, "*")} | {(mix.label, "_locked") for mix in target.f["mixins"]}
            I.require(not changed(before, after, allow), "compile_touches_only_self_and_the_lock_of_direct_parents")
            disp = target.f.get("dispatch")
            I.require(isinstance(disp, DispatchFn) and disp.attrs.get("map") is m and isinstance(disp.attrs.get("__code__"), tuple), "entry_point_swapped_to_the_generated_code_over_the_new_table")
            I.require(not w.uncontracted, "the_build_calls_no_library_function_that_has_no_contract")
            gen = getattr(w, "last_generated", None)
            if isinstance(disp, DispatchFn) and gen is not None:
                same = all(disp.attrs.get(a_) is gen.attrs[a_] or disp.attrs.get(a_) == gen.attrs[a_] for a_ in ("__defaults__", "__kwdefaults__", "__annotations__"))
                I.require(same, "defaults_kwdefaults_annotations_of_the_user_facing_function_are_those_of_the_generated_entry_point")

        return w, thunk, {"graph": gname, "which": which}

    return build


def t_transitive_lock(gname="chain3"):
    """C16: once a child has been put to use, EVERY function it derives from refuses modification (transitively)."""

    def build():
        w = CoreWorld()
        install_common(w)

        def thunk(I):
            w.reset()
            objs = build_graph(I, w, gname, locked=False, compiled=False)
            I.call_repo("core:Ovld.compile", [objs["c"]], {})

            def ancestors(o):
                out = []
                for m in o.f["mixins"]:
                    if o not in m.f["children"]:
                        out.append(m)
                        out += ancestors(m)
                return out

            for a in ancestors(objs["c"]):
                I.require(I.truth(a.f["_locked"]) is True, f"ancestor_refuses_modification[{a.label}]")

        return w, thunk, {"graph": gname}

    return build


def t_update_propagates(gname, compiled_parent):
    """_update (after a change of an ancestor): every linked descendant that is in use is rebuilt over its new
    effective method table, whether or not the changed ancestor itself has been used (C16 linkback, C05)."""

    def build():
        w = CoreWorld()
        install_common(w)

        def thunk(I):
            w.reset()
            objs = build_graph(I, w, gname, locked=False, compiled=False)
            labels = list(objs)
            root = objs[labels[0]]
            root.f["_compiled"] = compiled_parent
            kids = [o for o in objs.values() if o is not root]
            for k in kids:
                k.f["_compiled"] = True
                k.f["map"] = MapObj(w, "old", None)
            if compiled_parent:
                root.f["map"] = MapObj(w, "old", None)
            olds = list(w.maps_created)
            w.maps_created.clear()
            fn = user_fn("newfn", SigTok("s7"))
            I.call_repo("core:Ovld._register", [root, fn, 0], {})

            def linked_desc(o):
                out = []
                for c in o.f["children"]:
                    out.append(c)
                    out += linked_desc(c)
                return out

            for d in linked_desc(root):
                m = d.f.get("map")
                ok = isinstance(m, MapObj) and not any(m is o_ for o_ in olds) and [(s, f.attrs.get("orig")) for s, f in m.registered] == list(spec_defns(d).items())
                I.require(bool(ok), f"linked_descendant_in_use_is_rebuilt_over_the_new_method_set[{d.label}]")
            for o in objs.values():
                if o is not root and o not in linked_desc(root):
                    I.require(any(o.f.get("map") is o_ for o_ in olds), f"non_linked_node_is_not_rebuilt[{o.label}]")
            if compiled_parent:
                m = root.f.get("map")
                I.require(isinstance(m, MapObj) and not any(m is o_ for o_ in olds) and [(s, f.attrs.get("orig")) for s, f in m.registered] == list(spec_defns(root).items()), "changed_function_in_use_is_rebuilt")

        return w, thunk, {"graph": gname, "compiled_parent": compiled_parent}

    return build


def t_add_mixins_rebuilds():
    """C16: a mixin added to a function that is already in use must show up in it (F-mixin: add_mixins does not call _update)."""

    def build():
        w = CoreWorld()
        install_common(w)

        def thunk(I):
            w.reset()
            o = mk_ovld(w, "o", [], False, compiled=True, locked=False, defns={SigTok("s1"): user_fn("o_s1", SigTok("s1"))}, I=I)
            o.f["map"] = MapObj(w, "old", None)
            w.maps_created.clear()
            other = mk_ovld(w, "other", [], False, compiled=False, locked=False, defns={SigTok("s2"): user_fn("x_s2", SigTok("s2"))}, I=I)
            I.call_repo("core:Ovld.add_mixins", [o, other], {})
            m = o.f.get("map")
            I.require(isinstance(m, MapObj) and [(s, f.attrs.get("orig")) for s, f in m.registered] == list(spec_defns(o).items()), "function_in_use_is_rebuilt_when_a_mixin_is_added")

        return w, thunk, {}

    return build


def safe(w, o):
    """Safe(o) of DESIGN C18: the entry point still routes through the build, or the table is complete for defns(o)."""
    disp = o.f.get("dispatch")
    code = disp.attrs.get("__code__") if isinstance(disp, DispatchFn) else "TRAMPOLINE"
    routes_through_build = code == "TRAMPOLINE"
    m = o.f.get("map")
    complete = isinstance(m, MapObj) and [(s, f.attrs.get("orig")) for s, f in m.registered] == list(spec_defns(o).items()) and (not isinstance(disp, DispatchFn) or disp.attrs.get("map") is m)
    return routes_through_build or complete


def t_build_failure(callee, k, first_build, clause="safe"):
    """C18: if the build fails because callee #k raises, later calls fail again or see the complete method set.
    clause="loud" (failures before any method is adapted): the table in service is complete or EMPTY - every later call
    fails; it never keeps answering from a table that lacks a registered method."""

    def build():
        w = CoreWorld(fail_at=(callee, k))
        install_common(w)

        def thunk(I):
            w.reset()
            s1, s2, s3 = SigTok("s1"), SigTok("s2"), SigTok("s3")
            o = mk_ovld(w, "o", [], False, compiled=not first_build, locked=False, defns={s1: user_fn("f1", s1), s2: user_fn("f2", s2), s3: user_fn("f3", s3)}, I=I)
            if first_build:
                o.f["dispatch"] = DispatchFn(o)
            else:
                old = MapObj(w, "old", None)
                w.maps_created.clear()
                # rebuild after a change: the table in service was built before the last method was registered
                old.registered = [(s, Tok("adapted", orig=f, ovld=o)) for s, f in list(spec_defns(o).items())[:-1]]
                d = DispatchFn(o)
                d.attrs.update(__code__=("GENERATED", 0), map=old)
                o.f.update(map=old, dispatch=d)
            try:
                I.call_repo("core:Ovld.compile", [o], {})
                I.require(safe(w, o), "safe_after_successful_build")
                return
            except PyRaise as e:
                exc = e.exc
            if clause == "loud":
                m_ = o.f.get("map")
                empty = isinstance(m_, MapObj) and not m_.registered  # the generated entry point reads OVLD.map at call time
                I.require(safe(w, o) or empty, f"later_calls_fail_or_see_every_registered_method_after_failure_in[{callee}#{k}]")
            else:
                I.require(safe(w, o), f"safe_after_failure_in[{callee}#{k}]")

        return w, thunk, {"callee": callee, "k": k, "first_build": first_build, "clause": clause}

    return build


def t_update_failure(graph):
    """C18 'rebuild after a change' on a linked family: an invalid method is registered on the root of a family whose
    members are all in use; `_update` fails.  Every OTHER member must still be safe: it routes through the build, or
    serves a table complete for its methods, or serves a table complete for its methods minus the offending one.
    (The root's own state after a failed rebuild is t_build_failure / finding F-halfbuilt.)"""

    def build():
        w = CoreWorld()
        install_common(w)

        def thunk(I):
            w.reset()
            objs = build_graph(I, w, graph, locked=False, compiled=True)
            root = objs[list(objs)[0]]

            def linked_desc(o):
                out = []
                for c in o.f["children"]:
                    out.append(c)
                    out += linked_desc(c)
                return out

            for o in objs.values():
                m = MapObj(w, "old", None)
                m.registered = [(s, Tok("adapted", orig=f, ovld=o)) for s, f in spec_defns(o).items()]
                d = DispatchFn(o)
                d.attrs.update(__code__=("GENERATED", 0), map=m)
                o.f.update(map=m, dispatch=d, _compiled=True)
            w.maps_created.clear()
            sbad = SigTok("sbad")
            bad = user_fn("bad", sbad)
            w.bad_fn = bad
            root.f["_defns"][sbad] = bad
            try:
                I.call_repo("core:Ovld._update", [root], {})
                I.require(False, "update_with_an_invalid_method_raises")
            except PyRaise:
                pass
            finally:
                w.bad_fn = None
            for o in linked_desc(root):
                m = o.f.get("map")
                disp = o.f.get("dispatch")
                got = [(s_, f.attrs.get("orig")) for s_, f in m.registered] if isinstance(m, MapObj) else None
                full = list(spec_defns(o).items())
                minus = [(s_, f) for s_, f in full if f is not bad]
                routes = not isinstance(disp, DispatchFn) or disp.attrs.get("__code__") == "TRAMPOLINE"
                I.require(routes or (got in (full, minus) and disp.attrs.get("map") is m), f"linked_member_is_not_left_half_built[{o.label}]")

        return w, thunk, {"graph": graph}

    return build


def t_build_interrupt(first_build):
    """C18 'an interrupt arriving at any moment': Safe must hold at EVERY program point of the build (each heap
    write / external call is a point at which an asynchronous exception is raised)."""

    def build():
        w = CoreWorld()
        install_common(w)

        def thunk(I):
            w.reset()
            # first pass (no interrupt) counts the program points; then one path per point
            s1, s2 = SigTok("s1"), SigTok("s2")

            def fresh():
                w.ovlds.clear()
                w.maps_created.clear()
                w.events = 0
                w.log.clear()
                o = mk_ovld(w, "o", [], False, compiled=not first_build, locked=False, defns={s1: user_fn("f1", s1), s2: user_fn("f2", s2)}, I=I)
                if first_build:
                    o.f["dispatch"] = DispatchFn(o)
                else:
                    old = MapObj(w, "old", None)
                    w.maps_created.clear()
                    old.registered = [(s, Tok("adapted", orig=f, ovld=o)) for s, f in spec_defns(o).items()]
                    d = DispatchFn(o)
                    d.attrs.update(__code__=("GENERATED", 0), map=old)
                    o.f.update(map=old, dispatch=d)
                return o

            w.interrupt_at = None
            o = fresh()
            I.call_repo("core:Ovld.compile", [o], {})
            npoints = w.events
            points = list(w.log)
            for p in range(1, npoints + 1):
                o = fresh()
                w.interrupt_at = p
                try:
                    I.call_repo("core:Ovld.compile", [o], {})
                except PyRaise:
                    pass
                w.interrupt_at = None
                I.require(safe(w, o), f"safe_if_interrupted_after[{p}:{points[p - 1]}]")

        return w, thunk, {"first_build": first_build}

    return build


def t_trampoline():
    """bootstrap_dispatch.first_entry / Ovld.__call__: build if needed, then forward exactly *args, **kwargs to the
    entry point and return its result."""

    def build():
        w = CoreWorld()
        install_common(w)
        calls = []

        class Entry(DispatchFn):
            def py_call(self, I, args, kwargs):
                calls.append((list(args), dict(kwargs)))
                return "RESULT"

        def thunk(I):
            w.reset()
            del calls[:]
            o = mk_ovld(w, "o", [], False, locked=False, defns={SigTok("s1"): user_fn("f1", SigTok("s1"))}, I=I)
            o.f["dispatch"] = Entry(o)
            compiled0 = o.f["_compiled"].t
            a, b = Tok("a"), Tok("b")
            r = I.call_repo("core:Ovld.__call__", [o, a], dict(k=b))
            I.require(r == "RESULT" and len(calls) == 1 and calls[0][0] == [a] and calls[0][1] == {"k": b}, "forwards_exactly_the_arguments_and_returns_the_result")
            I.require(z3.Or(compiled0, z3.BoolVal(len(w.maps_created) == 1)), "builds_first_when_not_yet_built")
            I.require(z3.Implies(compiled0, z3.BoolVal(len(w.maps_created) == 0)), "does_not_rebuild_when_already_built")

        return w, thunk, {}

    return build


def t_recovery(first_build, where="adapt"):
    """C18 'once the offending method is removed the function works normally': a build that fails while adapting a
    method, followed by unregistering that method, leaves the function Safe and complete for the remaining methods."""

    def build():
        w = CoreWorld()
        install_common(w)

        def thunk(I):
            w.reset()
            s1, s2 = SigTok("s1"), SigTok("s2")
            good = user_fn("good", s1)
            bad = user_fn("bad", s2)
            o = mk_ovld(w, "o", [], False, compiled=False, locked=False, defns={s1: good}, I=I)
            o.f["dispatch"] = DispatchFn(o)
            if not first_build:
                I.call_repo("core:Ovld.compile", [o], {})  # in use over {good}
            # registering `bad` makes the (re)build fail while adapting it
            orig = w.adapt_function

            def adapt(I2, fn, ovld, newname):
                if fn is bad:
                    w.event(I2, "adapt_function(bad)")
                    raise PyRaise(ExcV("UsageError", tag="call_next should be called right away"))
                return orig(I2, fn, ovld, newname)

            if where == "adapt":
                w.set_global("core", "adapt_function", Builtin("adapt_function", adapt))
            else:  # conflicting argument names: the argument analysis rejects the method set while `bad` is in it

                def analyze(I2, args, kwargs):
                    (self_,) = args
                    w.event(I2, "analyze_arguments")
                    if any(f is bad for f in I2.getattr(self_, "defns").values()):
                        raise PyRaise(ExcV("TypeError", tag="Argument declared in different positions"))
                    self_.f["argument_analysis"] = Tok("ArgumentAnalyzer")
                    return self_.f["argument_analysis"]

                w.contract("core:Ovld.analyze_arguments", analyze)
            try:
                I.call_repo("core:Ovld._register", [o, bad, 0], {})
                if first_build:
                    I.call_repo("core:Ovld.compile", [o], {})
                I.require(False, "the_invalid_method_makes_the_build_fail")
            except PyRaise:
                pass
            try:
                I.call_repo("core:Ovld.unregister", [o, bad], {})
            except PyRaise as e:
                I.require(False, f"unregistering_the_offending_method_succeeds[{e.exc.cls}]")
                return
            # a later call goes through the function object handed to the user: the trampoline (which builds) while its
            # code has not been swapped, the generated entry point (which indexes self.map directly) afterwards
            I.require(safe(w, o), "works_normally_after_the_offending_method_is_removed")

        return w, thunk, {"first_build": first_build, "where": where}

    return build


# --------------------------------------------------------------------------------------------------
# class bodies (C17): ovld_cls_dict.__setitem__ / OvldMC.__prepare__ / extend_super / to_ovld / is_ovld / ovld on the heap


class ClsDictObj(SymObj):
    """An ovld_cls_dict: the dict part is concrete (attribute names are concrete strings), values are heap objects."""

    concrete_identity = True

    def __init__(self, bases):
        self.d = {}
        self.f = {"_bases": bases}

    def py_getattr(self, I, name):
        if name in self.f:
            return self.f[name]
        if f"ovld_cls_dict.{name}" in source.module("core").functions:
            return RepoFn(f"core:ovld_cls_dict.{name}", bound=self)
        raise OutOfSubset(f"ovld_cls_dict.{name}")

    def py_setattr(self, I, name, v):
        self.f[name] = v

    def py_contains(self, I, k):
        return k in self.d

    def py_getitem(self, I, k):
        if k in self.d:
            return self.d[k]
        raise PyRaise(ExcV("KeyError"))

    def py_setitem(self, I, k, v):  # the class-body `def` statement: goes through the real __setitem__
        return I.call_repo("core:ovld_cls_dict.__setitem__", [self, k, v], {})


class DictSuper(SymObj):
    def __init__(self, obj):
        self.obj = obj

    def py_getattr(self, I, name):
        if name == "__setitem__":
            return Builtin("dict.__setitem__", lambda I, k, v: self.obj.d.__setitem__(k, v))
        raise OutOfSubset(f"super().{name}")


class BaseCls(Tok):
    """A base class: attribute name -> the function object stored in the class (`attrs`) or inherited by it
    (`inherited`): getattr / dir see both, vars / __dict__ only the former."""

    def __init__(self, label, inherited=None, **attrs):
        super().__init__(label, **attrs)
        self.inherited = dict(inherited or {})

    def py_getattr(self, I, name):
        if name in self.attrs:
            return self.attrs[name]
        if name in self.inherited:
            return self.inherited[name]
        if name == "__dict__":
            return dict(self.attrs)
        raise PyRaise(ExcV("AttributeError", tag=name))

    def py_hasattr(self, I, name):
        return name in self.attrs or name in self.inherited


class ClsWorld(CoreWorld):
    inline_prefixes = CoreWorld.inline_prefixes + ("core:ovld_cls_dict.", "core:OvldMC.", "core:to_ovld", "core:is_ovld", "core:ovld", "core:extend_super")

    def __init__(self):
        super().__init__()
        self._globals.pop(("core", "to_ovld"), None)  # the real to_ovld / is_ovld / ovld / extend_super bodies are executed
        self.set_global("core", "bootstrap_dispatch", Builtin("bootstrap_dispatch", self.bootstrap))
        self.set_global("core", "ovld_cls_dict", Builtin("ovld_cls_dict", lambda I, bases: ClsDictObj(bases)))
        from pyvc.world import ModuleV

        self.set_global("core", "inspect", ModuleV("inspect", {"isfunction": Builtin("isfunction", lambda I, x: isinstance(x, Tok) and x.label.startswith("fn:"))}))
        self.set_global("core", "dir", Builtin("dir", lambda I, b: sorted(set(b.attrs) | set(b.inherited) | set(dir(object))) if isinstance(b, BaseCls) else sorted(dir(object)) if getattr(b, "name", None) == "object" or b is object else []))
        self.set_global("core", "vars", Builtin("vars", lambda I, b: dict(b.attrs) if isinstance(b, BaseCls) else {}))

        self.namespace = None  # the class body's namespace while a decorator of the body runs

        def find_overload(I, args, kwargs):
            """_find_overload (trusted: walks the interpreter stack): the function bound to fn.__name__ in the namespace of the
            enclosing body, or a new Ovld"""
            ns = self.namespace
            cur = ns.d.get(ATTR[0]) if ns is not None else None
            if cur is None:
                return self.new_ovld(I, **kwargs)
            if kwargs:
                raise PyRaise(ExcV("TypeError", tag="Cannot configure an overload that already exists"))
            return cur.attrs.get("__ovld__", cur) if isinstance(cur, DispatchFn) else cur

        self.contract("core:_find_overload", find_overload)

    def bootstrap(self, I, ov, name=None):
        d = DispatchFn(ov)
        d.attrs["__ovld__"] = ov  # core.py: dispatch.__ovld__ = ov
        return d

    def isinstance_(self, I, x, cls):
        if isinstance(cls, Builtin) and cls.name == "Ovld":
            return isinstance(x, OvldObj)
        return super().isinstance_(I, x, cls)

    def super_of(self, I, obj, qual):
        if isinstance(obj, ClsDictObj):
            return DictSuper(obj)
        return super().super_of(I, obj, qual)


ATTR = ["perform"]  # the method name of the class-body scenarios (a scenario ending in _dunder uses a special method name)


def method_set(o):
    """The user methods an Ovld dispatches over, by identity, in table order (DESIGN A.3)."""
    return [f for _, f in spec_defns(o).items()]


def _class_with(w, I, label, fns):
    """An existing class whose attribute `perform` is an overloaded method over fns (made by the real constructor)."""
    o = mk_ovld(w, f"{label}.{ATTR[0]}", [], False, compiled=False, locked=False, defns={f.attrs["sig"]: f for f in fns}, I=I)
    o.f["dispatch"] = w.bootstrap(I, o, ATTR[0])
    return BaseCls(f"class:{label}", **{ATTR[0]: o.f["dispatch"]}), o


def t_cls_body(scenario):
    """C17: what a class body leaves in its namespace.  Executes the real ovld_cls_dict.__setitem__ (and, for
    'prepare', OvldMC.__prepare__) together with to_ovld / is_ovld / ovld / extend_super / Ovld.copy / add_mixins /
    register; adapting and generated code stay behind their contracts.
      same_name      two plain defs of one name in a body without bases: one function over both
      extend_one     base B has perform{b1,b2}; body: @extend_super def perform(s1); def perform(s2)
      extend_two     bases B1, B2 each have perform; body: @extend_super def perform
      shadow         base B has perform; body: plain def perform (no extend_super): the body's definition alone
      extend_twice   base B has perform; body: two definitions both marked @extend_super
      prepare_two    __prepare__ for bases (B1, B2) where B2's perform is marked extend_super; empty body
      prepare_deep   the same with both bases only inheriting the method from their own bases
    Posts: the stored entry is the user-facing function of an Ovld whose method set is exactly the expected one, in the
    expected order; no Ovld of any base changes (the only permitted effect is nothing at all: nothing is compiled)."""

    def build():
        w = ClsWorld()
        install_common(w)
        w.inline("core:Ovld._set_attrs_from")  # the real body: names the function after its first method and creates the user-facing function

        def thunk(I):
            w.reset()
            ATTR[0] = "__eq__" if scenario.endswith("_dunder") else "perform"
            s = {n: SigTok(n) for n in ("b1", "b2", "c1", "s1", "s2")}
            fn = {n: user_fn(n, s[n]) for n in s}
            for f_ in fn.values():
                f_.label = "fn:" + f_.label.split(":")[-1]
            bases, base_ovlds = [], []
            if scenario in ("extend_one", "shadow", "decorated_later_extend"):
                B, ob = _class_with(w, I, "B", [fn["b1"], fn["b2"]])
                bases, base_ovlds = [B], [ob]
            elif scenario == "extend_twice":
                B, ob = _class_with(w, I, "B", [fn["b1"], fn["b2"]])
                bases, base_ovlds = [B], [ob]
            elif scenario == "prepare_three":
                B1, o1 = _class_with(w, I, "B1", [fn["b1"]])
                B2, o2 = _class_with(w, I, "B2", [fn["c1"]])
                o2.f["dispatch"].attrs["_extend_super"] = True
                B3 = BaseCls("class:B3", **{ATTR[0]: fn["b2"]})  # a plain (not overloaded) definition in the third base
                bases, base_ovlds = [B1, B2, B3], [o1, o2]
            elif scenario in ("extend_two", "prepare_two", "prepare_deep", "prepare_two_dunder"):
                B1, o1 = _class_with(w, I, "B1", [fn["b1"]])
                B2, o2 = _class_with(w, I, "B2", [fn["c1"]])
                if scenario.startswith("prepare"):
                    o2.f["dispatch"].attrs["_extend_super"] = True
                if scenario == "prepare_deep":  # neither direct base redefines the method: both inherit it
                    B1 = BaseCls("class:B1plus", inherited=dict(B1.attrs))
                    B2 = BaseCls("class:B2plus", inherited=dict(B2.attrs))
                bases, base_ovlds = [B1, B2], [o1, o2]
            before = {o.label: o.snapshot() for o in base_ovlds}
            n_before = len(w.ovlds)
            try:
                body(I, bases, base_ovlds, fn, before)
            except PyRaise as e:
                I.require(False, f"class_body_raises_no_exception[{e.exc.cls}:{getattr(e.exc, 'tag', None)}]")

        def body(I, bases, base_ovlds, fn, before):
            if scenario.startswith("prepare"):
                d = I.call_repo("core:OvldMC.__prepare__", [Tok("OvldMC"), "Sub", tuple(bases)], {})
                want = [fn["b1"], fn["c1"]] + ([fn["b2"]] if scenario == "prepare_three" else [])
            else:
                d = ClsDictObj(tuple(bases))
                if scenario == "same_name":
                    d.py_setitem(I, ATTR[0], fn["s1"])
                    d.py_setitem(I, ATTR[0], fn["s2"])
                    want = [fn["s1"], fn["s2"]]
                elif scenario == "shadow":
                    d.py_setitem(I, ATTR[0], fn["s1"])
                    want = None
                elif scenario in ("decorated_later", "decorated_later_extend"):
                    # @ovld def perform(s1) / @ovld(priority=10) def perform(s2): the second decorator finds the function already
                    # bound to the name, registers on it and hands its user-facing function back to the namespace
                    w.namespace = d
                    first = I.call_repo("core:ovld", [fn["s1"]], {}) if scenario == "decorated_later" else I.call_repo("core:extend_super", [fn["s1"]], {})
                    d.py_setitem(I, ATTR[0], first)
                    second = I.call_repo("core:ovld", [fn["s2"]], {"priority": 10})
                    d.py_setitem(I, ATTR[0], second)
                    w.namespace = None
                    want = ([fn["b1"], fn["b2"]] if scenario == "decorated_later_extend" else []) + [fn["s1"], fn["s2"]]
                else:
                    marked = I.call_repo("core:extend_super", [fn["s1"]], {})
                    d.py_setitem(I, ATTR[0], marked)
                    if scenario == "extend_one":
                        d.py_setitem(I, ATTR[0], fn["s2"])
                        want = [fn["b1"], fn["b2"], fn["s1"], fn["s2"]]
                    elif scenario == "extend_twice":
                        d.py_setitem(I, ATTR[0], I.call_repo("core:extend_super", [fn["s2"]], {}))
                        want = [fn["b1"], fn["b2"], fn["s1"], fn["s2"]]
                    else:
                        want = [fn["b1"], fn["c1"], fn["s1"]]
            got = d.d.get(ATTR[0])
            if want is None:
                I.require(got is fn["s1"], "plain_definition_without_extend_super_is_stored_as_is")
            else:
                ok = isinstance(got, DispatchFn) and isinstance(got.attrs.get("__ovld__"), OvldObj) and got.attrs["__ovld__"].f.get("dispatch") is got
                I.require(ok, "namespace_entry_is_the_user_facing_function_of_one_overloaded_method")
                if ok:
                    o = got.attrs["__ovld__"]
                    own_mixin = any(m is o for m in o.f["mixins"])
                    I.require(not own_mixin, "an_overloaded_method_is_never_its_own_mixin")
                    if own_mixin:
                        return
                    ms = method_set(o)
                    I.require(len(ms) == len(want) and all(a is b for a, b in zip(ms, want)), "method_set_is_inherited_methods_then_own_definitions")
                    I.require(not any(o is b for b in base_ovlds), "the_class_gets_its_own_overloaded_method_not_a_base_class_s")
            after = {o.label: o.snapshot() for o in base_ovlds}
            I.require(after == before, "no_base_class_method_is_modified")

        return w, thunk, {"scenario": scenario}

    return build
CLS_SCENARIOS = ("same_name", "extend_one", "extend_twice", "extend_two", "shadow", "prepare_two", "prepare_deep", "prepare_three", "decorated_later", "decorated_later_extend", "prepare_two_dunder")


def t_copy_variant(gname, op, linkback):
    """C16: copy() / variant(fn) on the last node of a derivation graph create a FRESH node whose effective table is the
    parent's (plus the new method for variant); nothing else changes, except that a linked copy is recorded among the
    parent's children."""

    def build():
        w = CoreWorld()
        install_common(w)

        def thunk(I):
            w.reset()
            objs = build_graph(I, w, gname, locked=False)
            parent = objs[list(objs)[-1]]
            before = snapshot_all(w)
            known = list(w.ovlds)
            kids_before = list(parent.f["children"])
            want_parent = dict(spec_defns(parent))
            if op == "copy":
                c = I.call_repo("core:Ovld.copy", [parent], {"linkback": linkback})
                fn = None
            else:
                fn = user_fn("vfn", SigTok("s8"))
                c = I.call_repo("core:Ovld.variant", [parent, fn], {"linkback": linkback})
            I.require(isinstance(c, OvldObj) and not any(c is k for k in known), "result_is_a_fresh_function")
            if not isinstance(c, OvldObj):
                return
            after = snapshot_all(w)
            allow = {(c.label, "*"), (parent.label, "children")}
            I.require(not changed(before, {k: v for k, v in after.items() if k in before}, allow), "nothing_but_the_parent_s_child_list_changes")
            I.require(parent.f["children"] == (kids_before + [c] if linkback else kids_before), "linked_copy_is_recorded_as_a_child_of_the_parent_only_if_linkback")
            I.require(len(c.f["mixins"]) == 1 and c.f["mixins"][0] is parent, "the_copy_inherits_from_exactly_the_parent")
            own = c.f["_defns"]
            I.require((own == {}) if fn is None else (list(own.values()) == [fn] and len(own) == 1), "own_table_holds_exactly_the_new_method" if fn else "own_table_is_empty")
            want = dict(want_parent)
            if fn is not None:
                want[SigTok("s8")] = fn
            got = spec_defns(c)
            I.require(list(got.keys()) == list(want.keys()) and all(got[k] is want[k] for k in want), "effective_table_is_the_parent_s_methods_plus_the_new_one")
            I.require(dict(spec_defns(parent)) == want_parent, "parent_s_effective_table_unchanged")
            I.require(I.truth(c.f["_compiled"]) is False and I.truth(c.f["_locked"]) is False, "the_copy_is_neither_built_nor_locked")

        return w, thunk, {"graph": gname, "op": op, "linkback": linkback}

    return build


def t_unregister_frame(gname):
    """unregister(fn) on the last node: its OWN table loses exactly the entries that hold fn (also pushed-down ones),
    nothing is removed from a parent (C16), the node is rebuilt if in use (C05)."""

    def build():
        w = CoreWorld()
        install_common(w)

        def thunk(I):
            w.reset()
            objs = build_graph(I, w, gname, locked=False)
            target = objs[list(objs)[-1]]
            f1 = user_fn("gone", SigTok("s5"))
            keep = dict(target.f["_defns"])
            target.f["_defns"] = {**keep, SigTok("s5"): f1, SigTok("s5", -1): f1}
            before = snapshot_all(w)
            parents_before = {o.label: dict(spec_defns(o)) for o in objs.values() if o is not target}
            I.call_repo("core:Ovld.unregister", [target, f1], {})
            after = snapshot_all(w)

            def descendants(o):
                out = []
                for c in o.f["children"]:
                    out.append(c)
                    out += descendants(c)
                return out

            allow = {(target.label, "*")} | {(d.label, "*") for d in descendants(target)} | {(m_.label, "_locked") for n in [target] + descendants(target) for m_ in n.f["mixins"]}
            I.require(not changed(before, after, allow), "unregister_never_changes_a_parent_or_sibling")
            d = target.f["_defns"]
            I.require(isinstance(d, dict) and list(d.keys()) == list(keep.keys()) and all(d[k] is keep[k] for k in keep), "own_table_loses_exactly_the_entries_of_the_removed_method")
            for o in objs.values():
                if o is not target:
                    I.require(dict(spec_defns(o)) == parents_before[o.label], f"effective_table_of_[{o.label}]_unchanged")

        return w, thunk, {"graph": gname}

    return build


def t_next_resolve(which, nargs):
    """Ovld.resolve / Ovld.next: the table is consulted with the key (subtler_type(a) for each argument, in order), prefixed
    by the caller's code object for next; the function is built first if needed; next calls what it found with the same
    arguments (C07 / C14: class-valued arguments are keyed by type[...], never by their metaclass)."""

    def build():
        w = CoreWorld()
        install_common(w)
        looked = []

        class KeyedMap(MapObj):
            def py_getitem(self, I, key):
                looked.append(key)
                return Builtin("found_method", lambda I, *a, **k: ("called", a, k))

        w.set_global("core", "subtler_type", Builtin("subtler_type", lambda I, x: ("subtler_type", x)))
        caller_code = Tok("caller_code")
        w.set_global("core", "sys", ModuleV("sys", {"_getframe": Builtin("_getframe", lambda I, depth=0: Tok("frame", f_code=caller_code, depth=depth))}))
        w.set_global("core", "map", Builtin("map", lambda I, f, xs: [I.call(f, [x], {}) for x in xs]))
        w.type_of = lambda I, x: ("type", x)  # type(x): a different key entry from subtler_type(x)

        def thunk(I):
            w.reset()
            del looked[:]
            o = mk_ovld(w, "o", [], False, compiled=True, locked=False, defns={}, I=I)
            m_ = KeyedMap(w, "tbl", None)
            o.f["map"] = m_
            args = [Tok(f"arg{i}") for i in range(nargs)]
            r = I.call_repo(f"core:Ovld.{which}", [o] + args, {})
            want = tuple(("subtler_type", a) for a in args)
            I.require(len(looked) == 1, "the_table_is_consulted_exactly_once")
            if len(looked) != 1:
                return
            key = looked[0]
            if which == "next":
                I.require(isinstance(key, tuple) and len(key) == nargs + 1 and key[0] is caller_code, "key_starts_with_the_code_object_of_the_calling_method")
                I.require(isinstance(key, tuple) and tuple(key[1:]) == want, "key_holds_the_subtler_type_of_every_argument_in_order")
                I.require(isinstance(r, tuple) and r[0] == "called" and list(r[1]) == args and not r[2], "the_method_found_is_called_with_the_same_arguments")
            else:
                I.require(isinstance(key, tuple) and tuple(key) == want, "key_holds_the_subtler_type_of_every_argument_in_order")
                I.require(isinstance(r, Builtin), "resolve_returns_what_the_table_holds")

        return w, thunk, {"which": which, "nargs": nargs}

    return build



def t_built_flag(first_build):
    """C18, calls made through the Ovld OBJECT (Ovld.__call__ / __get__ build first when the flag is off): at every program
    point of the build - an interrupt may arrive anywhere - the built flag is off or the table is complete.  (The state seen
    through the user-facing function is t_build_interrupt / finding F-halfbuilt.)"""

    def build():
        w = CoreWorld()
        install_common(w)

        def thunk(I):
            w.reset()
            s1, s2 = SigTok("s1"), SigTok("s2")

            def fresh():
                w.ovlds.clear()
                w.maps_created.clear()
                w.events = 0
                w.log.clear()
                o = mk_ovld(w, "o", [], False, compiled=False, locked=False, defns={s1: user_fn("f1", s1), s2: user_fn("f2", s2)}, I=I)
                if first_build:
                    o.f["dispatch"] = DispatchFn(o)
                else:
                    old = MapObj(w, "old", None)
                    w.maps_created.clear()
                    old.registered = [(s, Tok("adapted", orig=f, ovld=o)) for s, f in list(spec_defns(o).items())[:-1]]
                    d = DispatchFn(o)
                    d.attrs.update(__code__=("GENERATED", 0), map=old)
                    o.f.update(map=old, dispatch=d)
                return o

            def flag_ok(o):
                m_ = o.f.get("map")
                complete = isinstance(m_, MapObj) and [(s_, f.attrs.get("orig")) for s_, f in m_.registered] == list(spec_defns(o).items())
                return I.truth(o.f["_compiled"]) is False or complete

            w.interrupt_at = None
            o = fresh()
            I.call_repo("core:Ovld.compile", [o], {})
            npoints, points = w.events, list(w.log)
            I.require(flag_ok(o), "flag_on_only_with_a_complete_table_after_a_successful_build")
            for p_ in range(1, npoints + 1):
                o = fresh()
                w.interrupt_at = p_
                try:
                    I.call_repo("core:Ovld.compile", [o], {})
                except PyRaise:
                    pass
                w.interrupt_at = None
                I.require(flag_ok(o), f"built_flag_off_or_table_complete_if_interrupted_after[{p_}:{points[p_ - 1]}]")

        return w, thunk, {"first_build": first_build}

    return build


class InstanceObj(SymObj):
    """the instance a method is looked up on: nothing about it may be consulted (truthiness, length, attributes)"""

    concrete_identity = True
    interp = None

    def py_truth(self, I):
        I.require(False, "nothing_about_the_instance_is_consulted[truth_value]")
        return I.fresh("instance_truth", z3.BoolSort())

    def py_len(self, I):
        I.require(False, "nothing_about_the_instance_is_consulted[length]")
        return ZV(I.fresh("instance_len", z3.IntSort()), "int")

    def py_is_none(self, I):
        return False  # `obj is None` distinguishes class access from instance access: allowed

    def py_getattr(self, I, name):
        raise OutOfSubset(f"attribute {name} of the instance is consulted")


def t_descriptor(which):
    """C17 / C20: the Ovld object used directly as a class attribute (`__get__`) or called (`__call__`): builds the function iff it
    has not been built, then binds / calls the user-facing function - with exactly the instance / the arguments given, consulting
    nothing about the instance."""

    def build():
        w = CoreWorld()
        install_common(w)

        def thunk(I):
            w.reset()
            s1 = SigTok("s1")
            o = mk_ovld(w, "o", [], False, compiled=None, locked=False, defns={s1: user_fn("f1", s1)}, I=I)
            d = DispatchFn(o)
            bound, called = [], []
            d.attrs["__get__"] = Builtin("__get__", lambda I, obj, cls=None: (bound.append((obj, cls)), ("BOUND", obj))[1])
            d.py_call = lambda I, args, kwargs: (called.append((list(args), dict(kwargs))), "RESULT")[1]
            o.f["dispatch"] = d
            compiles = []

            def compile_contract(I, args, kwargs):
                compiles.append(args[0])
                args[0].f["_compiled"] = True
                return None

            w.contract("core:Ovld.compile", compile_contract)
            was_built = I.truth(o.f["_compiled"])
            was_built = was_built if isinstance(was_built, bool) else I.branch(was_built)
            inst, cls = InstanceObj(), Tok("class:K")
            a1, a2 = Tok("arg1"), Tok("arg2")
            if which == "get":
                r = I.call_repo("core:Ovld.__get__", [o, inst, cls], {})
                I.require(len(bound) == 1 and bound[0][0] is inst and bound[0][1] is cls, "the_user_facing_function_is_bound_to_exactly_this_instance_and_class")
                I.require(isinstance(r, tuple) and r[0] == "BOUND" and r[1] is inst, "the_bound_method_is_returned")
            else:
                r = I.call_repo("core:Ovld.__call__", [o, a1, a2], {"k": inst})
                I.require(len(called) == 1 and len(called[0][0]) == 2 and called[0][0][0] is a1 and called[0][0][1] is a2 and set(called[0][1]) == {"k"} and called[0][1]["k"] is inst, "the_user_facing_function_is_called_with_exactly_the_arguments")
                I.require(r == "RESULT", "its_result_is_returned")
            I.require((len(compiles) == 0) if was_built else (len(compiles) == 1 and compiles[0] is o), "built_first_iff_not_built_yet")

        return w, thunk, {"which": which}

    return build
