"""Signature.extract in mode U: the record ovld keeps about a method is a faithful description of the function's parameter list,
for ANY number of parameters of any kinds (loop invariant over the parameter list).

Environment (trusted, section 3.3): `inspect.signature(fn).parameters.items()` is a finite sequence of (name, Parameter) pairs with
`param.name == name`; `param.kind` is one of the five kind singletons; `param.default is inspect._empty` iff the parameter has no
default; `normalize_type(ann, fn)` is the uninterpreted function NORM (its own contract: contracts/norm_c.py).

Ghost functions over the parameter list (k = number of parameters already visited):
  SELF0            the first parameter is called `self`
  cnt(i)           parameter i is described (everything except a leading `self`)
  NPOS(k), NREQ(k) number of described positional parameters among the first k / of those without a default
  TL(k)            number of entries of `types` produced by the first k (positional and keyword-only parameters)
  AL(k)            number of Arginfo records produced by the first k
All of them are primitive recursive; the step equations are instantiated at the iteration index only (a quantified step axiom
with pattern f(k + 1) is a matching loop).
"""
import z3

from pyvc.interp import Builtin, LoopSpec, OutOfSubset, PyRaise, Stream, SymObj, SymSeq, ZV
from pyvc.world import World

NameS = z3.DeclareSort("PName")
AnnS = z3.DeclareSort("PAnn")
NormS = z3.DeclareSort("PNorm")

PO, PK, VP, KO, VK = range(5)  # inspect's kinds, in inspect's own numbering

N = z3.Int("nparams")
pname = z3.Function("pname", z3.IntSort(), NameS)
pkind = z3.Function("pkind", z3.IntSort(), z3.IntSort())
pann = z3.Function("pann", z3.IntSort(), AnnS)
nodef = z3.Function("nodef", z3.IntSort(), z3.BoolSort())
NORM = z3.Function("NORM", AnnS, NormS)
SELF = z3.Const("name_self", NameS)
RET = z3.Const("return_annotation", AnnS)

NPOS = z3.Function("NPOS", z3.IntSort(), z3.IntSort())
NREQ = z3.Function("NREQ", z3.IntSort(), z3.IntSort())
TL = z3.Function("TL", z3.IntSort(), z3.IntSort())
AL = z3.Function("AL", z3.IntSort(), z3.IntSort())

# entries of `types`
Ent = z3.Datatype("TypesEntry")
Ent.declare("pos_e", ("pe_type", NormS))
Ent.declare("kw_e", ("ke_name", NameS), ("ke_type", NormS))
Ent = Ent.create()

# Arginfo records
AI = z3.Datatype("ArginfoRec")
AI.declare("mk_ai", ("ai_haspos", z3.BoolSort()), ("ai_pos", z3.IntSort()), ("ai_hasname", z3.BoolSort()), ("ai_name", NameS), ("ai_required", z3.BoolSort()), ("ai_ann", NormS))
AI = AI.create()


def is_self(i):
    return pname(i) == SELF


def cnt(i):
    return z3.Not(z3.And(i == 0, is_self(0)))


def positional(i):
    return z3.Or(pkind(i) == PO, pkind(i) == PK)


def b2i(b):
    return z3.If(b, 1, 0)


def step_axioms(k):
    """the defining equations of the ghost counters at index k"""
    return z3.And(
        NPOS(k + 1) == NPOS(k) + b2i(z3.And(cnt(k), positional(k))),
        NREQ(k + 1) == NREQ(k) + b2i(z3.And(cnt(k), positional(k), nodef(k))),
        TL(k + 1) == TL(k) + b2i(z3.And(cnt(k), z3.Or(positional(k), pkind(k) == KO))),
        AL(k + 1) == AL(k) + b2i(cnt(k)),
    )


def base_axioms():
    i = z3.Int("i")
    return z3.And(
        NPOS(0) == 0,
        NREQ(0) == 0,
        TL(0) == 0,
        AL(0) == 0,
        N >= 0,
        z3.ForAll([i], z3.And(pkind(i) >= 0, pkind(i) <= 4), patterns=[pkind(i)]),
        # monotonicity of the counters (consequences of the step equations by induction; proved as lemma.sig_counters below)
    )


class NameV(ZV):
    def __init__(self, t, k="pname"):
        super().__init__(t, "pname")

    def py_eq(self, I, other):
        if isinstance(other, str):
            if other == "self":
                return self.t == SELF
            raise OutOfSubset("parameter name compared with a string other than 'self'")
        if isinstance(other, NameV):
            return self.t == other.t
        return NotImplemented

    def py_hash(self, I):
        return self


class KindV(ZV):
    def __init__(self, t):
        super().__init__(t if not isinstance(t, int) else z3.IntVal(t), "pkind")

    def py_is(self, I, other):
        if isinstance(other, KindV):
            return self.t == other.t
        return False

    def py_eq(self, I, other):
        return self.py_is(I, other)


class EmptyTok(SymObj):
    """inspect._empty"""

    def __repr__(self):
        return "<inspect._empty>"


EMPTY = EmptyTok()


class DefaultV(SymObj):
    """param.default: only its identity with inspect._empty is observable"""

    def __init__(self, i):
        self.i = i

    def py_is(self, I, other):
        if other is EMPTY:
            return nodef(self.i)
        return False


class AnnV(ZV):
    def __init__(self, t, k="pann"):
        super().__init__(t, "pann")


class NormV(ZV):
    def __init__(self, t, k="pnorm"):
        super().__init__(t, "pnorm")


class ParamV(SymObj):
    def __init__(self, i):
        self.i = i

    def py_getattr(self, I, name):
        if name == "name":
            return NameV(pname(self.i))
        if name == "kind":
            return KindV(pkind(self.i))
        if name == "default":
            return DefaultV(self.i)
        if name == "annotation":
            return AnnV(pann(self.i))
        raise OutOfSubset(f"Parameter.{name}")


class ParamsV(SymObj):
    def py_getattr(self, I, name):
        if name == "items":
            return Builtin("items", lambda I: SymSeq(N, lambda q: (NameV(pname(q)), ParamV(q)), "params"))
        if name == "values":
            return Builtin("values", lambda I: SymSeq(N, lambda q: ParamV(q), "params"))
        raise OutOfSubset(f"parameters.{name}")

    def py_iter(self, I):
        return SymSeq(N, lambda q: NameV(pname(q)), "params").stream(I)

    def py_len(self, I):
        return ZV(N, "int")


class SigObjV(SymObj):
    def py_getattr(self, I, name):
        if name == "parameters":
            return ParamsV()
        if name == "return_annotation":
            return AnnV(RET)
        raise OutOfSubset(f"inspect.Signature.{name}")


class InspectMod(SymObj):
    KINDS = {"_POSITIONAL_ONLY": PO, "_POSITIONAL_OR_KEYWORD": PK, "_VAR_POSITIONAL": VP, "_KEYWORD_ONLY": KO, "_VAR_KEYWORD": VK}

    def py_getattr(self, I, name):
        if name in self.KINDS:
            return KindV(self.KINDS[name])
        if name == "Parameter":
            return ParamCls()
        if name == "_empty":
            return EMPTY
        if name == "signature":
            return Builtin("signature", lambda I, fn, **kw: SigObjV())
        raise OutOfSubset(f"inspect.{name}")


class ParamCls(SymObj):
    NAMES = {"POSITIONAL_ONLY": PO, "POSITIONAL_OR_KEYWORD": PK, "VAR_POSITIONAL": VP, "KEYWORD_ONLY": KO, "VAR_KEYWORD": VK}

    def py_getattr(self, I, name):
        if name in self.NAMES:
            return KindV(self.NAMES[name])
        if name == "empty":
            return EMPTY
        raise OutOfSubset(f"inspect.Parameter.{name}")


class GrowList(SymObj):
    """A list that is only appended to: length term + element function (z3 function of the index)."""

    def __init__(self, length, elemf, sort):
        self.length = length
        self.elemf = elemf  # python callable Int term -> term of `sort`
        self.sort = sort

    @classmethod
    def empty(cls, sort):
        dummy = z3.FreshConst(sort, "nil")
        return cls(z3.IntVal(0), lambda q: dummy, sort)

    def to_term(self, I, v):
        raise NotImplementedError

    def py_getattr(self, I, name):
        if name == "append":

            def append(I, v):
                t = self.to_term(I, v)
                old, n = self.elemf, self.length
                self.elemf = lambda q, old=old, n=n, t=t: z3.If(q == n, t, old(q))
                self.length = n + 1
                return None

            return Builtin("append", append)
        raise OutOfSubset(f"list.{name}")

    def fresh_like(self, I, hint="l"):
        f = I.fresh_fn(hint + "_el", [z3.IntSort()], self.sort)
        n = I.fresh(hint + "_len", z3.IntSort())
        I.assume(n >= 0)
        r = type(self)(n, lambda q: f(q), self.sort)
        return r

    def py_len(self, I):
        return ZV(self.length, "int")


class TypeList(GrowList):
    def to_term(self, I, v):
        if isinstance(v, NormV):
            return Ent.pos_e(v.t)
        if isinstance(v, tuple) and len(v) == 2 and isinstance(v[0], NameV) and isinstance(v[1], NormV):
            return Ent.kw_e(v[0].t, v[1].t)
        raise OutOfSubset(f"types entry {v!r}")


class AIList(GrowList):
    def to_term(self, I, v):
        if isinstance(v, ZV) and v.k == "arginfo":
            return v.t
        raise OutOfSubset(f"arginfo entry {v!r}")


class NameSetV(SymObj):
    def __init__(self, member):
        self.member = member

    def py_getattr(self, I, name):
        if name == "add":

            def add(I, v):
                if not isinstance(v, NameV):
                    raise OutOfSubset("req_names.add of a non-name")
                old, t = self.member, v.t
                self.member = lambda x, old=old, t=t: z3.Or(x == t, old(x))
                return None

            return Builtin("add", add)
        raise OutOfSubset(f"set.{name}")

    def fresh_like(self, I, hint="s"):
        f = I.fresh_fn(hint + "_mem", [NameS], z3.BoolSort())
        return NameSetV(lambda x: f(x))


class SigWorld(World):
    def __init__(self):
        super().__init__()
        self.captured = {}
        self.ghost = {}
        self.set_global("core", "inspect", InspectMod())
        self.inline("core:Signature.extract")
        self.asserts_raise = True

        def norm(I, args, kwargs):
            a = args[0]
            if not isinstance(a, AnnV):
                raise OutOfSubset("normalize_type of something that is not an annotation of the function")
            return NormV(NORM(a.t))

        self.contract("types:TypeNormalizer.__call__", norm)
        self.set_global("core", "normalize_type", Builtin("normalize_type", lambda I, a, fn=None: norm(I, [a], {})))

        def arginfo(I, position=None, name=None, required=None, ann=None, **kw):
            if kw:
                raise OutOfSubset("Arginfo with unexpected fields")
            haspos = position is not None
            hasname = name is not None
            p = I.int_term(position) if haspos else z3.IntVal(-1)
            nm = name.t if hasname else SELF
            rq = I.truth(required) if not isinstance(required, bool) else z3.BoolVal(required)
            if isinstance(rq, bool):
                rq = z3.BoolVal(rq)
            if not isinstance(ann, NormV):
                raise OutOfSubset("Arginfo.ann is not a normalised annotation")
            return ZV(AI.mk_ai(z3.BoolVal(haspos), p, z3.BoolVal(hasname), nm, rq, ann.t), "arginfo")

        self.set_global("core", "Arginfo", Builtin("Arginfo", arginfo))

        def _set(I, x=()):
            if isinstance(x, (list, tuple)) and not x:
                return NameSetV(lambda y: z3.BoolVal(False))
            raise OutOfSubset("set(...) of an unexpected value")

        def _frozenset(I, x=()):
            if isinstance(x, NameSetV):
                m = x.member
                return NameSetV(lambda y: m(y))
            raise OutOfSubset("frozenset(...) of an unexpected value")

        def _tuple(I, x=()):
            if isinstance(x, TypeList):
                f, n = x.elemf, x.length
                return TypeList(n, f, x.sort)
            raise OutOfSubset("tuple(...) of an unexpected value")

        self.set_global("core", "set", Builtin("set", _set))
        self.set_global("core", "frozenset", Builtin("frozenset", _frozenset))
        self.set_global("core", "tuple", Builtin("tuple", _tuple))

    def list_display(self, I, elts, env):
        return None


class SignatureCls(SymObj):
    """`cls` of the classmethod: calling it records the fields"""

    def __init__(self, w):
        self.w = w

    def py_call(self, I, args, kwargs):
        if args:
            raise OutOfSubset("Signature(...) called with positional arguments")
        self.w.captured["fields"] = dict(kwargs)
        return "SIGNATURE"


def t_extract():
    w = SigWorld()
    i, j = z3.Ints("i j")
    nm = z3.Const("nm", NameS)

    def inv(I, env, k, seq):
        K = k.t
        w.ghost["K"] = K
        if z3.is_const(K) and not z3.is_int_value(K):
            I.assume(z3.Implies(K >= 0, step_axioms(K)))
        tl, al, rn = env.get("typelist"), env.get("arginfo"), env.get("req_names")
        if isinstance(tl, list) and not tl:
            tl = TypeList.empty(Ent)
        if isinstance(al, list) and not al:
            al = AIList.empty(AI)
        ism = env.get("is_method")
        ism_t = z3.BoolVal(ism) if isinstance(ism, bool) else I.truth(ism)
        if isinstance(ism_t, bool):
            ism_t = z3.BoolVal(ism_t)
        shift = b2i(is_self(0))
        return z3.And(
            # no `self` after the first place among the visited ones (else the assert fired)
            z3.ForAll([i], z3.Implies(z3.And(0 < i, i < K), z3.Not(is_self(i)))),
            z3.ForAll([i], z3.Implies(z3.And(0 <= i, i < K, cnt(i)), z3.And(pkind(i) != VP, pkind(i) != VK))),
            ism_t == z3.And(K > 0, is_self(0)),
            I.int_term(env.get("max_pos")) == NPOS(K),
            I.int_term(env.get("req_pos")) == NREQ(K),
            tl.length == TL(K),
            al.length == AL(K),
            z3.ForAll([i], z3.Implies(z3.And(0 <= i, i < K, cnt(i), positional(i)), tl.elemf(TL(i)) == Ent.pos_e(NORM(pann(i))))),
            z3.ForAll([i], z3.Implies(z3.And(0 <= i, i < K, cnt(i), pkind(i) == KO), tl.elemf(TL(i)) == Ent.kw_e(pname(i), NORM(pann(i))))),
            z3.ForAll(
                [i],
                z3.Implies(
                    z3.And(0 <= i, i < K, cnt(i)),
                    al.elemf(AL(i)) == AI.mk_ai(positional(i), z3.If(positional(i), i - shift, -1), z3.Or(pkind(i) == PK, pkind(i) == KO), z3.If(z3.Or(pkind(i) == PK, pkind(i) == KO), pname(i), SELF), nodef(i), NORM(pann(i))),
                ),
            ),
            z3.ForAll([nm], rn.member(nm) == z3.Exists([i], z3.And(0 <= i, i < K, cnt(i), pkind(i) == KO, nodef(i), pname(i) == nm))),
            # the counters are monotone and bounded (lemma.sig_counters), stated for the indices the element clauses use
            TL(K) >= 0,
            AL(K) >= 0,
            z3.ForAll([i], z3.Implies(z3.And(0 <= i, i < K, cnt(i), z3.Or(positional(i), pkind(i) == KO)), z3.And(0 <= TL(i), TL(i) < TL(K)))),
            z3.ForAll([i], z3.Implies(z3.And(0 <= i, i < K, cnt(i)), z3.And(0 <= AL(i), AL(i) < AL(K)))),
        )

    w.loop(
        "core:Signature.extract",
        0,
        LoopSpec(
            inv,
            modifies=["typelist", "arginfo", "req_names", "is_method", "max_pos", "req_pos"],
            havoc={
                "typelist": lambda I, env: TypeList.empty(Ent).fresh_like(I, "typelist"),
                "arginfo": lambda I, env: AIList.empty(AI).fresh_like(I, "arginfo"),
                "req_names": lambda I, env: NameSetV(None).fresh_like(I, "req_names"),
                "is_method": lambda I, env: ZV(I.fresh("is_method", z3.BoolSort()), "bool"),
            },
            skip_names=("pos", "nm", "ann", "i", "name", "param"),
        ),
    )

    def thunk(I):
        w.ghost.clear()
        w.captured.clear()
        I.assume(base_axioms())
        cls = SignatureCls(w)
        try:
            I.call_repo("core:Signature.extract", [cls, "FN"], {})
        except PyRaise as e:
            K = w.ghost.get("K")
            name = e.exc.cls
            if K is None:
                I.require(False, f"extract_raises_only_inside_the_parameter_loop[{name}]")
                return
            if name == "TypeError":
                I.require(z3.Or(pkind(K) == VP, pkind(K) == VK), "TypeError_only_for_star_parameters")
            elif name == "AssertionError":
                I.require(z3.And(is_self(K), K != 0), "AssertionError_only_for_self_after_the_first_place")
            else:
                I.require(False, f"extract_raises_only_TypeError_or_AssertionError[{name}]")
            return
        f = w.captured.get("fields")
        I.require(f is not None, "extract_returns_a_Signature_built_by_cls")
        if f is None:
            return
        want = {"types", "return_type", "req_pos", "max_pos", "req_names", "vararg", "is_method", "priority", "arginfo"}
        I.require(set(f) == want, "exactly_the_documented_fields_are_filled")
        if set(f) != want:
            return
        # --- the statement: the record describes the parameter list
        shift = b2i(is_self(0))
        I.require(z3.ForAll([i], z3.Implies(z3.And(0 <= i, i < N, cnt(i)), z3.And(pkind(i) != VP, pkind(i) != VK))), "a_signature_is_produced_only_without_star_parameters")
        I.require(I.int_term(f["max_pos"]) == NPOS(N), "max_pos_is_the_number_of_positional_parameters")
        I.require(I.int_term(f["req_pos"]) == NREQ(N), "req_pos_is_the_number_of_positional_parameters_without_default")
        ism = f["is_method"]
        ism_t = z3.BoolVal(ism) if isinstance(ism, bool) else I.truth(ism)
        I.require(ism_t == z3.And(N > 0, is_self(0)), "is_method_iff_the_first_parameter_is_self")
        I.require(f["vararg"] is False, "vararg_is_off")
        I.require(f["priority"] is None, "priority_is_left_to_the_registration")
        rt = f["return_type"]
        I.require(isinstance(rt, NormV) and z3.eq(rt.t, NORM(RET)), "return_type_is_the_normalised_return_annotation")
        tl = f["types"]
        I.require(isinstance(tl, TypeList), "types_is_the_tuple_of_the_collected_entries")
        if isinstance(tl, TypeList):
            I.require(tl.length == TL(N), "types_has_one_entry_per_positional_and_keyword_only_parameter")
            I.require(z3.ForAll([i], z3.Implies(z3.And(0 <= i, i < N, cnt(i), positional(i)), tl.elemf(TL(i)) == Ent.pos_e(NORM(pann(i))))), "positional_entry_is_the_normalised_annotation_in_declaration_order")
            I.require(z3.ForAll([i], z3.Implies(z3.And(0 <= i, i < N, cnt(i), pkind(i) == KO), tl.elemf(TL(i)) == Ent.kw_e(pname(i), NORM(pann(i))))), "keyword_entry_is_name_and_normalised_annotation")
        rn = f["req_names"]
        I.require(isinstance(rn, NameSetV), "req_names_is_a_frozenset_of_the_collected_names")
        if isinstance(rn, NameSetV):
            I.require(z3.ForAll([nm], rn.member(nm) == z3.Exists([i], z3.And(0 <= i, i < N, cnt(i), pkind(i) == KO, nodef(i), pname(i) == nm))), "req_names_are_exactly_the_keyword_only_parameters_without_default")
        al = f["arginfo"]
        I.require(isinstance(al, AIList), "arginfo_is_the_collected_list")
        if isinstance(al, AIList):
            I.require(al.length == AL(N), "one_Arginfo_per_described_parameter")
            I.require(
                z3.ForAll(
                    [i],
                    z3.Implies(
                        z3.And(0 <= i, i < N, cnt(i)),
                        al.elemf(AL(i)) == AI.mk_ai(positional(i), z3.If(positional(i), i - shift, -1), z3.Or(pkind(i) == PK, pkind(i) == KO), z3.If(z3.Or(pkind(i) == PK, pkind(i) == KO), pname(i), SELF), nodef(i), NORM(pann(i))),
                    ),
                ),
                "Arginfo_records_position_name_requiredness_and_annotation_of_its_parameter",
            )

    return w, thunk, {"timeout_ms": 20000, "fail_fast": False}
