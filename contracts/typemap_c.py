"""Contracts for src/ovld/typemap.py (DESIGN A.2): Candidate, TypeMap, MultiTypeMap.__missing__/register.

Abstract state of a MultiTypeMap `m` (a dict subclass):
  dict part      d_has(k), d_val(k)          k: lookup key (tuple of entries, optionally prefixed by a code object)
  m.all          all_has(k), all_mem(k, c)   candidate code objects remembered per type tuple
  m.errors       err_has(k), err_val(k)      remembered ambiguity errors
  m.empty        empty_missing, empty_h
  registration tables: abstracted by the spec functions below (they are what a lookup on an empty-cache
  copy with the same registrations writes):  W(k) value stored under k,  E(k) error remembered under k,
  A(t, c) candidate codes of type tuple t,  Wd(t, k) / Ed(t, k) "resolving t writes an entry / an error under k",
  nocand(t) "no candidate for t".
CacheInv(m): every cached entry / remembered error / candidate set equals W / E / A.
"""
import ast

import z3

from pyvc import source
from pyvc.interp import Builtin, ExcV, LoopSpec, OutOfSubset, PyRaise, Rec, RepoFn, Stream, SymObj, SymSeq, ZV
from pyvc.world import BoundMethod, PyClassToken, World

KeyS = z3.DeclareSort("Key")
CodeS = z3.DeclareSort("Code")
FnS = z3.DeclareSort("Fn")  # callables stored in the table (handlers or generated wrappers)
ErrS = z3.DeclareSort("Err")  # exception objects

klen = z3.Function("klen", KeyS, z3.IntSort())
is_coded = z3.Function("is_coded", KeyS, z3.BoolSort())
kcode = z3.Function("kcode", KeyS, CodeS)
ktail = z3.Function("ktail", KeyS, KeyS)
mk_coded = z3.Function("mk_coded", CodeS, KeyS, KeyS)
EMPTY_KEY = z3.Const("EMPTY_KEY", KeyS)

W = z3.Function("W", KeyS, FnS)
E = z3.Function("E", KeyS, ErrS)
A = z3.Function("A", KeyS, CodeS, z3.BoolSort())
Wd = z3.Function("Wd", KeyS, KeyS, z3.BoolSort())
Ed = z3.Function("Ed", KeyS, KeyS, z3.BoolSort())
nocand = z3.Function("nocand", KeyS, z3.BoolSort())
NOMETHOD = z3.Function("NoMethodError", KeyS, ErrS)  # key_error(t, ())


def key_axioms():
    k, t = z3.Consts("k t", KeyS)
    c = z3.Const("c", CodeS)
    return [
        z3.ForAll([k], klen(k) >= 0),
        klen(EMPTY_KEY) == 0,
        z3.ForAll([k], z3.Implies(klen(k) == 0, k == EMPTY_KEY)),
        z3.ForAll([k], z3.Implies(is_coded(k), klen(k) > 0)),
        z3.ForAll([k], z3.Implies(klen(k) > 0, klen(ktail(k)) == klen(k) - 1), patterns=[ktail(k)]),
        z3.ForAll([c, t], z3.Implies(z3.Not(is_coded(t)), z3.And(is_coded(mk_coded(c, t)), kcode(mk_coded(c, t)) == c, ktail(mk_coded(c, t)) == t)), patterns=[mk_coded(c, t)]),
        z3.ForAll([k], z3.Implies(is_coded(k), mk_coded(kcode(k), ktail(k)) == k), patterns=[ktail(k)]),
        # entries of a type tuple are types / (name, type) pairs, never code objects: the tail of a coded key is plain
        z3.ForAll([k], z3.Implies(is_coded(k), z3.Not(is_coded(ktail(k)))), patterns=[ktail(k)]),
    ]


def resolve_facts():
    """Shape of what `resolve(t)` writes (proved for the real resolve in bounded mode, task resolve/writes):
    every written key embeds t (t itself, or a candidate code followed by t); the first rank is an entry or an error."""
    k, t = z3.Consts("k t", KeyS)
    return [
        z3.ForAll([t, k], z3.Implies(z3.Or(Wd(t, k), Ed(t, k)), z3.Or(k == t, z3.And(is_coded(k), ktail(k) == t, A(t, kcode(k))))), patterns=[Wd(t, k)]),
        z3.ForAll([t, k], z3.Implies(z3.Or(Wd(t, k), Ed(t, k)), z3.Or(k == t, z3.And(is_coded(k), ktail(k) == t, A(t, kcode(k))))), patterns=[Ed(t, k)]),
        z3.ForAll([t, k], z3.Not(z3.And(Wd(t, k), Ed(t, k))), patterns=[Wd(t, k)]),
        z3.ForAll([t], z3.Implies(z3.Not(nocand(t)), z3.Or(Wd(t, t), Ed(t, t))), patterns=[nocand(t)]),
    ]


class KeyV(ZV):
    def __init__(self, t, k="key"):
        super().__init__(t, "key")

    def py_getitem(self, I, key):
        if isinstance(key, slice):
            if key.start == 1 and key.stop is None and key.step is None:
                I.require(klen(self.t) > 0, "slice_of_nonempty_key") if False else None
                return KeyV(ktail(self.t))
            raise OutOfSubset("key slice")
        if key == 0:
            I.require(klen(self.t) > 0, "key_index_in_range", exc="IndexError")
            return KeyHeadV(self)
        raise OutOfSubset("key index")

    def py_truth(self, I):
        return klen(self.t) > 0


class KeyHeadV(SymObj):
    def __init__(self, key):
        self.key = key

    def py_isinstance(self, I, cls):
        if isinstance(cls, PyClassToken) and cls.name == "CodeType":
            return is_coded(self.key.t)
        return NotImplemented

    def as_code(self):
        return ZV(kcode(self.key.t), "code")


class FnV(ZV):
    def __init__(self, t, k="fn"):
        super().__init__(t, "fn")


class MTState:
    """Functional snapshot of the cache part of a MultiTypeMap."""

    def __init__(self, I, tag):
        self.d_has = I.fresh_fn(f"d_has_{tag}", [KeyS], z3.BoolSort())
        self.d_val = I.fresh_fn(f"d_val_{tag}", [KeyS], FnS)
        self.all_has = I.fresh_fn(f"all_has_{tag}", [KeyS], z3.BoolSort())
        self.all_mem = I.fresh_fn(f"all_mem_{tag}", [KeyS, CodeS], z3.BoolSort())
        self.err_has = I.fresh_fn(f"err_has_{tag}", [KeyS], z3.BoolSort())
        self.err_val = I.fresh_fn(f"err_val_{tag}", [KeyS], ErrS)

    def cache_inv(self):
        k = z3.Const("k", KeyS)
        c = z3.Const("c", CodeS)
        return [
            z3.ForAll([k], z3.Implies(self.d_has(k), self.d_val(k) == W(k)), patterns=[self.d_has(k)]),
            z3.ForAll([k], z3.Implies(self.err_has(k), self.err_val(k) == E(k)), patterns=[self.err_has(k)]),
            z3.ForAll([k, c], z3.Implies(self.all_has(k), self.all_mem(k, c) == A(k, c)), patterns=[self.all_mem(k, c)]),
            # the empty tuple is never cached (its lookup returns m.empty directly), nor are keys ending in it
            z3.Not(self.d_has(EMPTY_KEY)),
            z3.Not(self.err_has(EMPTY_KEY)),
            z3.Not(self.all_has(EMPTY_KEY)),
            # entries only exist for resolved tuples, and tell the truth about what resolving would write
            z3.ForAll([k], z3.Implies(z3.And(self.d_has(k), z3.Not(is_coded(k)), klen(k) > 0), z3.And(self.all_has(k), Wd(k, k), z3.Not(nocand(k)))), patterns=[self.d_has(k)]),
            z3.ForAll([k], z3.Implies(z3.And(self.err_has(k), z3.Not(is_coded(k))), z3.And(self.all_has(k), Ed(k, k), z3.Not(nocand(k)))), patterns=[self.err_has(k)]),
            z3.ForAll([k], z3.Implies(z3.And(self.d_has(k), is_coded(k)), Wd(ktail(k), k)), patterns=[self.d_has(k)]),
            z3.ForAll([k], z3.Implies(z3.And(self.err_has(k), is_coded(k)), Ed(ktail(k), k)), patterns=[self.err_has(k)]),
            # a resolved tuple has all its continuation entries (resolve writes them together)
            z3.ForAll([k], z3.Implies(z3.And(is_coded(k), z3.Or(self.d_has(ktail(k)), self.err_has(ktail(k)))), z3.And(self.d_has(k) == Wd(ktail(k), k), self.err_has(k) == Ed(ktail(k), k))), patterns=[self.d_has(k)]),
            z3.ForAll([k], z3.Implies(z3.And(is_coded(k), z3.Or(self.d_has(ktail(k)), self.err_has(ktail(k)))), z3.And(self.d_has(k) == Wd(ktail(k), k), self.err_has(k) == Ed(ktail(k), k))), patterns=[self.err_has(k)]),
        ]


class MTM(SymObj):
    """A MultiTypeMap whose cache part is symbolic (MTState) and whose registration tables are abstract."""

    def __init__(self, I, world):
        self.world = world
        self.st = MTState(I, "0")
        self.empty_missing = I.fresh("empty_missing", z3.BoolSort())
        self.empty_h = I.fresh("empty_h", FnS)
        self.consults = 0  # ghost: number of resolution computations performed (C20)
        self.resolved = []  # ghost: tuples resolved on this path
        self.gen = 0

    # dict protocol -----------------------------------------------------------------------------
    def py_getitem(self, I, key):
        k = key.t
        if I.branch(self.st.d_has(k)):
            return FnV(self.st.d_val(k))
        return self.world.missing_contract(I, self, key)  # dict.__getitem__ calls __missing__ only on a miss

    def py_contains(self, I, key):
        return self.st.d_has(key.t)

    def py_setitem(self, I, key, v):
        old = self.st
        new = MTState(I, f"w{self._bump()}")
        k0, v0 = key.t, I.term(v)
        k = z3.Const("k", KeyS)
        c = z3.Const("c", CodeS)
        I.assume(z3.ForAll([k], z3.And(new.d_has(k) == z3.Or(k == k0, old.d_has(k)), new.d_val(k) == z3.If(k == k0, v0, old.d_val(k))), patterns=[new.d_has(k)]))
        I.assume(z3.ForAll([k], z3.And(new.err_has(k) == old.err_has(k), new.err_val(k) == old.err_val(k), new.all_has(k) == old.all_has(k))))
        I.assume(z3.ForAll([k, c], new.all_mem(k, c) == old.all_mem(k, c)))
        self.st = new

    def _bump(self):
        self.gen += 1
        return self.gen

    def py_getattr(self, I, name):
        if name == "all":
            return AllMap(self)
        if name == "errors":
            return ErrMap(self)
        if name == "empty":
            return EmptySlot(self)
        if name == "key_error":
            return Builtin("key_error", lambda I, key, group=(): self.world.key_error(I, key, group))
        if name == "resolve":
            return Builtin("resolve", lambda I, key: self.world.resolve_contract(I, self, key))
        raise OutOfSubset(f"MultiTypeMap.{name}")


class AllMap(SymObj):
    def __init__(self, m):
        self.m = m

    def py_getitem(self, I, key):
        I.require(self.m.st.all_has(key.t), "all[tup].present", exc="KeyError")
        st = self.m.st
        return CodeSet(lambda c, st=st, k=key.t: st.all_mem(k, c))


    def py_contains(self, I, key):
        return self.m.st.all_has(key.t)

    def py_getattr(self, I, name):
        if name == "get":

            def get(I, key, default=None):
                if I.branch(self.m.st.all_has(key.t)):
                    st = self.m.st
                    return CodeSet(lambda c, st=st, k=key.t: st.all_mem(k, c))
                return default

            return Builtin("dict.get", get)
        raise OutOfSubset(f"all.{name}")


class CodeSet(SymObj):
    def __init__(self, mem):
        self.mem = mem

    def py_contains(self, I, x):
        if isinstance(x, KeyHeadV):
            return self.mem(kcode(x.key.t))
        return self.mem(I.term(x))

    def py_truth(self, I):
        c = I.fresh("c", CodeS)
        return z3.Exists([c], self.mem(c))


class ErrMap(SymObj):
    def __init__(self, m):
        self.m = m

    def py_contains(self, I, key):
        return self.m.st.err_has(key.t)

    def py_getitem(self, I, key):
        I.require(self.m.st.err_has(key.t), "errors[key].present", exc="KeyError")
        return ExcV("TypeError", tag=self.m.st.err_val(key.t))


class EmptySlot(SymObj):
    def __init__(self, m):
        self.m = m

    def py_is(self, I, other):
        if isinstance(other, MissingToken):
            return self.m.empty_missing
        return False

    def py_getitem(self, I, i):
        if i == 0:
            return FnV(self.m.empty_h)
        raise OutOfSubset("empty[i]")


class MissingToken(SymObj):
    def py_is(self, I, other):
        if isinstance(other, EmptySlot):
            return other.m.empty_missing
        return other is self


class TypemapWorld(World):
    def __init__(self):
        super().__init__()
        self.axiom(lambda I: key_axioms())
        self.axiom(lambda I: resolve_facts())
        self.set_global("typemap", "CodeType", PyClassToken("CodeType"))
        self.set_global("typemap", "MISSING", MissingToken())
        self.trusted += [
            "dict.__getitem__ calls __missing__ only when the key is absent (CPython dict protocol)",
            "contract of MultiTypeMap.resolve used at its call site: writes W/E/A entries for the resolved tuple only (shape proved separately in bounded mode)",
        ]

    def is_singleton(self, I, z, other):
        return False

    def key_error(self, I, key, group):
        if group == () or group == []:
            return ExcV("TypeError", tag=NOMETHOD(key.t))
        raise OutOfSubset("key_error with candidates")

    def term_of(self, I, v):
        if isinstance(v, KeyHeadV):
            return kcode(v.key.t)
        return None

    # -- contract of resolve at its call site in __missing__ ------------------------------------------
    def resolve_contract(self, I, m, key):
        t = key.t
        I.require(z3.And(z3.Not(is_coded(t)), klen(t) > 0), "resolve.requires_plain_nonempty_tuple")
        m.consults += 1
        m.resolved.append(t)
        old = m.st
        new = MTState(I, f"r{m._bump()}")
        k = z3.Const("k", KeyS)
        c = z3.Const("c", CodeS)
        # mro() records the candidate set before anything else
        I.assume(z3.ForAll([k], new.all_has(k) == z3.Or(k == t, old.all_has(k)), patterns=[new.all_has(k)]))
        I.assume(z3.ForAll([k, c], new.all_mem(k, c) == z3.If(k == t, A(t, c), old.all_mem(k, c)), patterns=[new.all_mem(k, c)]))
        if I.branch(nocand(t)):
            I.assume(z3.ForAll([k], z3.And(new.d_has(k) == old.d_has(k), new.d_val(k) == old.d_val(k), new.err_has(k) == old.err_has(k), new.err_val(k) == old.err_val(k))))
            m.st = new
            raise PyRaise(ExcV("TypeError", tag=NOMETHOD(t)))
        I.assume(z3.ForAll([k], z3.And(new.d_has(k) == z3.Or(Wd(t, k), old.d_has(k)), new.d_val(k) == z3.If(Wd(t, k), W(k), old.d_val(k))), patterns=[new.d_has(k)]))
        I.assume(z3.ForAll([k], z3.And(new.err_has(k) == z3.Or(Ed(t, k), old.err_has(k)), new.err_val(k) == z3.If(Ed(t, k), E(k), old.err_val(k))), patterns=[new.err_has(k)]))
        m.st = new
        return True

    # -- contract of a nested __missing__ (dict miss inside __missing__) --------------------------------
    def missing_contract(self, I, m, key):
        """self[real_tup] on a miss: the recursive activation for a plain tuple, by contract."""
        t = key.t
        I.require(z3.Not(is_coded(t)), "nested_lookup_is_plain")
        if I.branch(klen(t) == 0):
            if I.branch(m.empty_missing):
                raise PyRaise(ExcV("TypeError", tag=NOMETHOD(t)))
            return FnV(m.empty_h)
        self.resolve_contract(I, m, key)
        if I.branch(m.st.err_has(t)):
            raise PyRaise(ExcV("TypeError", tag=m.st.err_val(t)))
        I.require(m.st.d_has(t), "nested_lookup_returns_cached_entry")
        return FnV(m.st.d_val(t))


def outcome_spec(t):
    """Outcome of looking up the plain non-empty tuple t, as a function of the registration tables only."""
    return dict(raises_nomethod=nocand(t), raises_err=z3.And(z3.Not(nocand(t)), Ed(t, t)), returns=z3.And(z3.Not(nocand(t)), z3.Not(Ed(t, t))))


def t_mtm_missing(kind):
    """MultiTypeMap.__missing__ against DESIGN A.2, for plain / code-prefixed / empty keys."""

    def build():
        w = TypemapWorld()
        w.inline("typemap:MultiTypeMap.__missing__")

        def thunk(I):
            m = MTM(I, w)
            key = KeyV(z3.Const("key", KeyS))
            I.assume(m.st.cache_inv())
            st0 = m.st
            k = key.t
            I.assume(z3.Not(st0.d_has(k)))  # __missing__ is only entered on a miss
            if kind == "plain":
                I.assume(z3.And(z3.Not(is_coded(k)), klen(k) > 0))
            elif kind == "coded":
                I.assume(z3.And(is_coded(k), klen(ktail(k)) > 0))
            elif kind == "coded_nullary":  # (code,) : call_next() from a method without parameters
                I.assume(z3.And(is_coded(k), klen(ktail(k)) == 0))
            else:
                I.assume(klen(k) == 0)
            try:
                r = I.call_repo("typemap:MultiTypeMap.__missing__", [m, key], {})
                out = ("return", r)
            except PyRaise as e:
                out = ("raise", e.exc)
            # (P1) the cache invariant is preserved on every exit, normal or exceptional
            I.require(m.st.cache_inv(), "cache_inv_preserved")
            t = k if not kind.startswith("coded") else ktail(k)
            if kind == "plain":
                spec = outcome_spec(k)
                if out[0] == "return":
                    I.require(spec["returns"], "outcome.returns_only_when_spec_says")
                    I.require(z3.And(m.st.d_has(k), I.term(out[1]) == W(k)), "cache_fill_and_value")  # C20 / C04
                else:
                    I.require(z3.Or(z3.And(spec["raises_nomethod"], I.term(out[1].tag) == NOMETHOD(k)), z3.And(spec["raises_err"], I.term(out[1].tag) == E(k))), "outcome.raises_only_what_spec_says")
                I.require(m.consults == 1, "resolves_exactly_once_on_a_miss")
            elif kind == "coded_nullary":
                # below the only (parameterless) method there is nothing: the documented end of the chain is 'No method'
                I.require(out[0] == "raise" and out[1].cls == "TypeError", "nullary_call_next_ends_with_the_No_method_TypeError")
            elif kind == "coded":
                c = kcode(k)
                inner = outcome_spec(t)
                if out[0] == "return":
                    val = I.term(out[1])
                    I.require(inner["returns"], "continuation.inner_lookup_succeeded")
                    I.require(z3.If(z3.Not(A(t, c)), val == W(t), z3.And(Wd(t, k), val == W(k))), "continuation.value")  # C07
                else:
                    tag = I.term(out[1].tag)
                    I.require(
                        z3.Or(
                            z3.And(inner["raises_nomethod"], tag == NOMETHOD(t)),
                            z3.And(inner["raises_err"], tag == E(t)),
                            z3.And(inner["returns"], A(t, c), Ed(t, k), tag == E(k)),
                            z3.And(inner["returns"], A(t, c), z3.Not(Ed(t, k)), z3.Not(Wd(t, k)), tag == NOMETHOD(t)),
                        ),
                        "continuation.raises_only_what_spec_says",
                    )
                # C20: a cached combination is not resolved again
                I.require(z3.Implies(st0.d_has(t), m.consults == 0), "no_recomputation_when_tuple_cached")
                I.require(m.consults <= 1, "at_most_one_resolution")
            else:
                if out[0] == "return":
                    I.require(z3.And(z3.Not(m.empty_missing), I.term(out[1]) == m.empty_h), "empty_tuple.returns_registered_nullary")
                else:
                    I.require(z3.And(m.empty_missing, I.term(out[1].tag) == NOMETHOD(k)), "empty_tuple.nomethod_iff_none_registered")
                I.require(m.consults == 0, "empty_tuple.no_resolution")
            return None

        return w, thunk, {"clause": f"__missing__[{kind}]", "timeout_ms": 15000, "fail_fast": False}

    return build


# --------------------------------------------------------------------------------------------------
# MultiTypeMap.resolve in bounded mode B(<= 3 ranks, <= 2 handlers per rank): the real AST is executed on
# every shape; handler identities are concrete, everything about them (dependent flag, has __code__) symbolic.


class HandlerC(SymObj):
    concrete_identity = True

    def __init__(self, I, name):
        self.name = name
        self.has_code = I.fresh(f"has_code_{name}", z3.BoolSort())
        self.code = z3.Const(f"code_{name}", CodeS)
        self.dependent = I.fresh(f"dependent_{name}", z3.BoolSort())

    def py_hasattr(self, I, name):
        if name == "__code__":
            return self.has_code
        raise OutOfSubset(f"hasattr(handler, {name})")

    def py_getattr(self, I, name):
        if name == "__code__":
            I.require(self.has_code, "handler.__code__.defined", exc="AttributeError")
            return CodeC(self)
        raise OutOfSubset(f"handler.{name}")

    def __repr__(self):
        return f"<handler {self.name}>"


class CodeC(SymObj):
    concrete_identity = True

    def __init__(self, h):
        self.h = h

    def __eq__(self, other):
        return isinstance(other, CodeC) and other.h is self.h

    def __hash__(self):
        return hash(("code", id(self.h)))

    def __repr__(self):
        return f"<code of {self.h.name}>"


class WrapC(SymObj):
    """Result of wrap_dependent (by contract): a generated dispatcher over `group` falling through to `nxt`."""

    concrete_identity = True

    def __init__(self, group, nxt):
        self.group = group
        self.nxt = nxt

    def __repr__(self):
        return f"<wrap {[c.f['handler'].name for c in self.group]} -> {self.nxt!r}>"


class AmbErr:
    def __init__(self, group):
        self.group = tuple(c.f["handler"] for c in group)

    def __eq__(self, o):
        return isinstance(o, AmbErr) and o.group == self.group

    def __hash__(self):
        return hash(self.group)

    def __repr__(self):
        return f"<ambiguity {[h.name for h in self.group]}>"


class CodedKeyB:
    def __init__(self, code):
        self.code = code

    def __eq__(self, o):
        return isinstance(o, CodedKeyB) and o.code == self.code

    def __hash__(self):
        return hash(self.code)

    def __repr__(self):
        return f"({self.code!r}, *tup)"


PLAIN = "tup"


class TupB(SymObj):
    """The (opaque) type tuple being resolved."""

    concrete_identity = True

    def py_star(self):
        return True

    def __repr__(self):
        return "tup"


class MTMB(SymObj):
    """MultiTypeMap for the bounded resolve task: writes are logged."""

    def __init__(self, world, groups):
        self.world = world
        self.groups = groups
        self.d = {}
        self.err = {}
        self.log = []
        self.havocked = []

    def _key(self, key):
        if isinstance(key, TupB):
            return PLAIN
        if isinstance(key, CodedKeyB):
            return key
        raise OutOfSubset(f"unexpected key {key!r}")

    def py_setitem(self, I, key, v):
        k = self._key(key)
        self.d[k] = v
        self.log.append(("d", k, v))

    def py_getattr(self, I, name):
        if name == "mro":
            return Builtin("mro", lambda I, tup: [list(g) for g in self.groups])
        if name == "dependent":
            return {c.f["handler"]: ZV(c.f["handler"].dependent, "bool") for g in self.groups for c in g}
        if name == "errors":
            return ErrLog(self)
        if name == "key_error":
            return Builtin("key_error", lambda I, tup, group=(): ExcV("TypeError", tag=("nomethod" if not group else AmbErr(group))))
        if name == "wrap_dependent":

            def wrap(I, tup, handlers, group, next_call):
                hs = list(handlers)
                I.require(len(hs) >= 1, "wrap_dependent.requires_nonempty_rank")
                return WrapC(list(group), next_call)

            return Builtin("wrap_dependent", wrap)
        if f"MultiTypeMap.{name}" in source.module("typemap").functions:
            # a method of the table without a contract (added by a change): it may do anything to the table
            def uncontracted(I, *a, **k):
                self.havocked.append(name)
                return None

            return Builtin(name, uncontracted)
        raise OutOfSubset(f"MultiTypeMap.{name} in resolve")


class ErrLog(SymObj):
    def __init__(self, m):
        self.m = m

    def py_setitem(self, I, key, v):
        k = self.m._key(key)
        self.m.err[k] = v
        self.m.log.append(("err", k, v))


class ResolveWorld(World):
    def build_tuple(self, I, elts):
        from pyvc.interp import StarV

        if len(elts) == 2 and isinstance(elts[1], StarV) and isinstance(elts[1].value, TupB) and isinstance(elts[0], CodeC):
            return CodedKeyB(elts[0])
        raise OutOfSubset("tuple display shape in resolve")

    def is_singleton(self, I, z, other):
        return False


SHAPES = [[]] + [[a] for a in (1, 2)] + [[a, b] for a in (1, 2) for b in (1, 2)] + [[a, b, c] for a in (1, 2) for b in (1, 2) for c in (1, 2)]


def t_resolve_writes(shape):
    """resolve/writes: the entries and remembered errors written for a resolution with the given rank sizes are
    exactly those of DESIGN A.2 (first rank entry-or-error, continuation entries per code of each usable rank up
    to the first tied rank, nothing else), every written key embeds the resolved tuple, and a dependent rank's
    fall-through is the next rank's callable or the error that lookup would raise there (C07, C10, C04(b))."""

    def build():
        w = ResolveWorld()
        w.inline("typemap:MultiTypeMap.resolve")

        def thunk(I):
            groups = []
            n = 0
            for gi, size in enumerate(shape):
                g = []
                for j in range(size):
                    h = HandlerC(I, f"g{gi}h{j}")
                    n += 1
                    g.append(Rec("typemap:Candidate", dict(handler=h, priority=0, specificity=(), tiebreak=0)))
                groups.append(g)
            m = MTMB(w, groups)
            tup = TupB()
            try:
                r = I.call_repo("typemap:MultiTypeMap.resolve", [m, tup], {})
                out = ("return", r)
            except PyRaise as e:
                out = ("raise", e.exc)
            if not groups:
                I.require(out[0] == "raise" and out[1].tag == "nomethod" and not m.log, "no_candidates.raises_nomethod_and_writes_nothing")
                return
            I.require(not m.havocked, "resolve_calls_no_method_of_the_table_that_has_no_contract")
            I.require(out[0] == "return", "returns_normally_when_there_are_candidates")
            # ---- independent computation of the expected writes (spec of DESIGN A.2) on this path ------------
            dep = [I.branch(z3.Or(*[c.f["handler"].dependent for c in g])) for g in groups]
            usable = [dep[k] or len(groups[k]) == 1 for k in range(len(groups))]
            codes = [[CodeC(c.f["handler"]) for c in g if I.branch(c.f["handler"].has_code)] for g in groups]
            exp_d, exp_err = {}, {}

            def value(k):  # what a lookup landing on rank k yields: ('fn', rank) or ('err', group)
                return ("fn", k) if usable[k] else ("err", AmbErr(groups[k]))

            def put(key, k):
                v = value(k)
                (exp_d if v[0] == "fn" else exp_err)[key] = v

            put(PLAIN, 0)
            k = 0
            while usable[k] and codes[k] and k + 1 < len(groups):
                for c in codes[k]:
                    put(CodedKeyB(c), k + 1)
                k += 1
            # ---- compare ---------------------------------------------------------------------------------------
            I.require(set(m.d) == set(exp_d), "written_entry_keys_are_exactly_the_expected_ones")
            # a remembered 'No method' under a code of the last reachable rank is equivalent to remembering nothing
            extra = [k2 for k2 in m.err if k2 not in exp_err]
            benign = all(isinstance(m.err[k2], ExcV) and m.err[k2].tag == "nomethod" and isinstance(k2, CodedKeyB) and k + 1 >= len(groups) and k2.code in codes[k] for k2 in extra)
            I.require(set(exp_err) <= set(m.err) and benign, "remembered_error_keys_are_exactly_the_expected_ones")
            ok_vals = True
            for key, v in m.d.items():
                e = exp_d.get(key)
                if e is None:
                    continue
                rk = e[1]
                g = groups[rk]
                if dep[rk]:
                    ok_vals = ok_vals and isinstance(v, WrapC) and [c.f["handler"] for c in v.group] == [c.f["handler"] for c in g]
                else:
                    ok_vals = ok_vals and v is g[0].f["handler"]
            I.require(bool(ok_vals), "written_entries_are_the_rank_handler_or_its_dependent_wrapper")
            ok_err = all(isinstance(v, ExcV) and v.tag == exp_err[key][1] for key, v in m.err.items() if key in exp_err)
            I.require(bool(ok_err), "remembered_errors_name_the_tied_rank")
            # dependent ranks: fall-through = callable of the next rank, or the error a lookup there raises (C10)
            for key, v in m.d.items():
                if isinstance(v, WrapC):
                    rk = next(i for i, g in enumerate(groups) if [c.f["handler"] for c in g] == [c.f["handler"] for c in v.group])
                    nxt = v.nxt
                    if rk + 1 >= len(groups):
                        I.require(nxt is None, f"wrap.fallthrough_of_last_rank_is_nomethod")
                    elif usable[rk + 1]:
                        want = groups[rk + 1][0].f["handler"] if not dep[rk + 1] else None
                        good = nxt is not None and (nxt[0] is want if want is not None else isinstance(nxt[0], WrapC))
                        I.require(bool(good), "wrap.fallthrough_is_next_rank_callable")
                    else:
                        # next rank tied: "as if that method were absent" demands the ambiguity error of that rank
                        good = nxt is not None and isinstance(nxt[0], ExcV)
                        I.require(bool(good), "wrap.fallthrough_to_tied_rank_raises_its_ambiguity_error")
            # shape facts used by the __missing__ proof (resolve_facts): first rank entry xor error; keys embed tup
            I.require((PLAIN in m.d) != (PLAIN in m.err), "first_rank_is_entry_xor_error")
            allcodes = {CodeC(c.f["handler"]) for g in groups for c in g}
            I.require(all(k == PLAIN or (isinstance(k, CodedKeyB) and k.code in allcodes) for _, k, _ in m.log), "every_written_key_embeds_the_tuple_and_a_candidate_code")

        return w, thunk, {"shape": shape, "bound": "ranks<=3, handlers per rank<=2", "fail_fast": False}

    return build


# --------------------------------------------------------------------------------------------------
# End-to-end bounded-symbolic run of the real __missing__ -> resolve -> mro -> _pull -> dominates/sort_key
# on B(N handlers, P entries): handler identities and the shape of the call are concrete, everything else
# (which handler is applicable where, subclass relations between the registered types, levels, priorities,
# tiebreaks, arities, required keywords) is symbolic.  The per-position level tables satisfy exactly the
# *contract* of TypeMap.__missing__ / sort_types (levels = reversed layer index of the dependency relation;
# proved unboundedly in tasks TypeMap.__missing__/* and sort_types/*), not their bodies.

import itertools  # noqa: E402

from .universe import TyS, TyV  # noqa: E402

NameS = None


class HandlerE(SymObj):
    """A registered method: concrete identity, symbolic data."""

    concrete_identity = True

    def __init__(self, I, idx, P, kwnames):
        self.idx = idx
        self.name = f"h{idx}"
        self.prio = z3.Real(f"prio_{idx}")
        self.tb = z3.Int(f"tb_{idx}")
        self.req_pos = z3.Int(f"req_pos_{idx}")
        self.max_pos = z3.Int(f"max_pos_{idx}")
        self.app = [z3.Bool(f"app_{idx}_{p}") for p in range(P)]  # registered at entry p's table key and applicable to the class there
        self.layer = [z3.Int(f"layer_{idx}_{p}") for p in range(P)]
        self.reqkw = {n: z3.Bool(f"reqkw_{idx}_{n}") for n in kwnames}  # keyword-only without default
        self.reqkw_other = z3.Bool(f"reqkw_{idx}__other")  # requires a keyword that the call does not supply
        self.code = CodeC(self)

    def py_hasattr(self, I, name):
        if name == "__code__":
            return True
        raise OutOfSubset(f"hasattr(handler, {name})")

    def py_getattr(self, I, name):
        if name == "__code__":
            return self.code
        if name == "__name__":
            return self.name
        raise OutOfSubset(f"handler.{name}")

    def __repr__(self):
        return f"<h{self.idx}>"


class ReqNames(SymObj):
    """sig.req_names as a symbolic subset of the keyword names of the call plus 'some other name'."""

    def __init__(self, h):
        self.h = h

    def py_binop(self, I, op, other, inplace=False):
        if isinstance(op, ast.Sub) and isinstance(other, (set, frozenset, OrderedSet)):
            have = other.items if isinstance(other, OrderedSet) else other
            missing = [v for n, v in self.h.reqkw.items() if n not in have] + [self.h.reqkw_other]
            return BoolSet(z3.Or(*missing) if missing else z3.BoolVal(False))
        return NotImplemented


def _reqnames_compare(self, I, op, other):
    if isinstance(op, ast.LtE) and isinstance(other, (set, frozenset, OrderedSet)):
        have = other.items if isinstance(other, OrderedSet) else other
        missing = [v for n, v in self.h.reqkw.items() if n not in have] + [self.h.reqkw_other]
        return z3.Not(z3.Or(*missing)) if missing else z3.BoolVal(True)
    return NotImplemented


ReqNames.py_compare = _reqnames_compare


class BoolSet(SymObj):
    def __init__(self, nonempty):
        self.nonempty = nonempty

    def py_truth(self, I):
        return self.nonempty


class TypeMapE(SymObj):
    """maps[key]: lookup by contract of TypeMap.__getitem__/__missing__ (A.2): the level table of the applicable
    registered entries, KeyError iff there is none."""

    def __init__(self, world, pos):
        self.world, self.pos = world, pos

    def py_getitem(self, I, cls):
        E_ = self.world.E
        p = self.pos
        present = [h for h in E_.handlers if I.branch(h.app[p])]
        if not present:
            raise PyRaise(ExcV("KeyError"))
        G = E_.G[p]
        return {(h, E_.sigs[h]): ZV(G - 1 - h.layer[p], "int") for h in present}


class Setup:
    pass


class MTME(SymObj):
    def __init__(self, world):
        self.world = world
        self.d = {}
        self.err = {}
        self.allmap = {}
        self.consults = 0

    def py_getitem(self, I, key):
        if key in self.d:
            return self.d[key]
        return I.call_repo("typemap:MultiTypeMap.__missing__", [self, key], {})

    def py_setitem(self, I, key, v):
        self.d[key] = v

    def py_contains(self, I, key):
        return key in self.d

    def py_getattr(self, I, name):
        E_ = self.world.E
        if name == "maps":
            return E_.maps
        if name == "priorities":
            return {h: ZV(h.prio, "real") for h in E_.handlers}
        if name == "tiebreaks":
            return {h: ZV(h.tb, "int") for h in E_.handlers}
        if name == "dependent":
            return {h: False for h in E_.handlers}
        if name == "all":
            return self.allmap
        if name == "errors":
            return self.err
        if name == "empty":
            return MissingToken()
        if name == "key_error":
            return Builtin("key_error", lambda I, tup, group=(): ExcV("TypeError", tag=("nomethod" if not group else AmbErr(group))))
        if f"MultiTypeMap.{name}" in source.module("typemap").functions:  # any method, including helpers added by a refactoring
            return RepoFn(f"typemap:MultiTypeMap.{name}", bound=self)
        raise OutOfSubset(f"MultiTypeMap.{name}")


class E2EWorld(World):
    inline_prefixes = ("typemap:MultiTypeMap.", "typemap:Candidate.")

    def __init__(self, perm=None):
        super().__init__()
        self.inline(
            "typemap:MultiTypeMap.__missing__",
            "typemap:MultiTypeMap.resolve",
            "typemap:MultiTypeMap.mro",
            "typemap:MultiTypeMap.mro._pull",
            "typemap:Candidate.dominates",
            "typemap:Candidate.sort_key",
        )
        self.set_global("typemap", "CodeType", PyClassToken("CodeType"))
        self.set_global("typemap", "MISSING", MissingToken())
        self.ext_modules = {"math": __import__("pyvc.world", fromlist=["ModuleV"]).ModuleV("math", {"inf": float("inf")})}
        self.perm = perm
        self.trusted += [
            "contract of TypeMap.__getitem__/__missing__ at its call site in mro (levels = reversed layer index; proved unboundedly in TypeMap.__missing__/* and sort_types/*)",
            "list.sort is a stable sort by the given key (CPython)",
        ]

    def is_singleton(self, I, z, other):
        return False

    def describe_model(self, I, m):
        out = []
        for d in sorted(m.decls(), key=lambda d: d.name()):
            if d.arity() == 0 and "!" not in d.name():
                v = m[d]
                if z3.is_false(v):
                    continue
                out.append(f"{d.name()}={v}")
        return " ".join(out)[:3000]

    def isinstance_(self, I, x, cls):
        if isinstance(cls, PyClassToken) and cls.name == "CodeType":
            return isinstance(x, CodeC)
        if getattr(cls, "name", None) == "tuple":
            return isinstance(x, tuple)
        return super().isinstance_(I, x, cls)

    def make_set(self, I, elts):
        if isinstance(elts, list):
            out = []
            for x in elts:
                if not any(x is y or (isinstance(x, (str, CodeC)) and x == y) for y in out):
                    out.append(x)
            return OrderedSet(out, self)
        return super().make_set(I, elts)

    def list_sort(self, I, lst, key, reverse):
        """Stable sort by key (tuples of numbers), comparing symbolically: the exploration forks on each comparison."""
        keys = [I.call(key, [x]) if key is not None else x for x in lst]
        items = list(zip(keys, lst))
        out = []
        for kx, x in items:  # stable insertion
            pos = len(out)
            for j in range(len(out)):
                before = self._lex_lt(I, out[j][0], kx) if reverse else self._lex_lt(I, kx, out[j][0])
                if I.branch(before):
                    pos = j
                    break
            out.insert(pos, (kx, x))
        lst[:] = [x for _, x in out]

    def _lex_lt(self, I, a, b):
        """a < b for equal-length tuples of numeric values."""
        res = z3.BoolVal(False)
        for x, y in reversed(list(zip(a, b))):
            tx, ty = I.term(x), I.term(y)
            if tx.sort() != ty.sort():
                tx, ty = z3.ToReal(tx) if tx.sort() == z3.IntSort() else tx, z3.ToReal(ty) if ty.sort() == z3.IntSort() else ty
            res = z3.Or(tx < ty, z3.And(tx == ty, res))
        return res


class OrderedSet(SymObj):
    """A concrete-membership set whose iteration order is chosen by the exploration (all orders explored when the
    world asks for it): models 'iteration order of a set is arbitrary'."""

    def __init__(self, items, world):
        self.items = list(items)
        self.world = world

    def py_iter(self, I):
        n = len(self.items)
        if self.world.perm and n > 1:
            perms = list(itertools.permutations(range(n)))
            c = I.choose(len(perms))
            return [self.items[i] for i in perms[c]]
        return list(self.items)

    def py_contains(self, I, x):
        return any(x is y or (isinstance(x, (str, CodeC)) and x == y) for y in self.items)

    def py_truth(self, I):
        return bool(self.items)

    def py_len(self, I):
        return len(self.items)

    def py_binop(self, I, op, other, inplace=False):
        oth = other.items if isinstance(other, OrderedSet) else list(other)
        if isinstance(op, ast.BitAnd):
            return OrderedSet([x for x in self.items if any(x is y for y in oth)], self.world)
        if isinstance(op, ast.Sub):
            return OrderedSet([x for x in self.items if not any(x is y or x == y for y in oth)], self.world)
        return NotImplemented

    def py_getattr(self, I, name):
        if name == "add":
            return Builtin("add", lambda I, x: None if self.py_contains(I, x) else self.items.append(x))
        raise OutOfSubset(f"set.{name}")


def _setup(I, w, N, shape):
    """shape: tuple of 'p' (positional entry) / name (keyword entry)."""
    E_ = Setup()
    w.E = E_
    P = len(shape)
    kw = [s for s in shape if s != "p"]
    E_.handlers = [HandlerE(I, i, P, kw) for i in range(N)]
    E_.sigs = {}
    for h in E_.handlers:
        E_.sigs[h] = Rec("core:Signature", dict(req_pos=ZV(h.req_pos, "int"), max_pos=ZV(h.max_pos, "int"), vararg=False, req_names=ReqNames(h), priority=ZV(h.prio, "real"), tiebreak=ZV(h.tb, "int")))
    cls = [TyV(z3.Const(f"cls_{p}", TyS)) for p in range(P)]
    entries = []
    maps = {}
    npos = 0
    for p, s in enumerate(shape):
        if s == "p":
            entries.append(cls[p])
            maps[npos] = TypeMapE(w, p)
            npos += 1
        else:
            entries.append((s, cls[p]))
            maps[s] = TypeMapE(w, p)
    E_.maps = maps
    E_.tup = tuple(entries)
    E_.npos = npos
    E_.names = set(kw)
    # relations between the registered types, per entry: lt (strictly more specific), same (equal types)
    H = E_.handlers
    E_.lt = {(a.idx, b.idx, p): z3.Bool(f"lt_{a.idx}_{b.idx}_{p}") for a in H for b in H for p in range(P)}
    E_.same = {(a.idx, b.idx, p): z3.Bool(f"same_{a.idx}_{b.idx}_{p}") for a in H for b in H for p in range(P)}
    E_.G = [z3.Int(f"G_{p}") for p in range(P)]
    facts = []
    for p in range(P):
        lt = lambda a, b: E_.lt[(a.idx, b.idx, p)]
        same = lambda a, b: E_.same[(a.idx, b.idx, p)]
        for a in H:
            facts += [same(a, a), z3.Not(lt(a, a)), a.layer[p] >= 0, z3.Implies(a.app[p], a.layer[p] < E_.G[p])]
            for b in H:
                facts += [same(a, b) == same(b, a), z3.Implies(same(a, b), z3.And(a.app[p] == b.app[p], a.layer[p] == b.layer[p], z3.Not(lt(a, b)))), z3.Implies(lt(a, b), z3.Not(lt(b, a)))]
                for c in H:
                    facts += [z3.Implies(z3.And(lt(a, b), lt(b, c)), lt(a, c)), z3.Implies(z3.And(same(a, b), same(b, c)), same(a, c)), z3.Implies(z3.And(same(a, b), lt(b, c)), lt(a, c)), z3.Implies(z3.And(lt(a, b), same(b, c)), lt(a, c))]
        # contract of TypeMap.__missing__ + sort_types (A.1/A.2): layers of the dependency relation among the applicable types
        for a in H:
            for b in H:
                facts.append(z3.Implies(z3.And(a.app[p], b.app[p], lt(a, b)), a.layer[p] < b.layer[p]))
            preds = [z3.And(b.app[p], lt(b, a), b.layer[p] == a.layer[p] - 1) for b in H if b is not a]
            facts.append(z3.Implies(z3.And(a.app[p], a.layer[p] > 0), z3.Or(*preds) if preds else z3.BoolVal(False)))
        facts.append(E_.G[p] >= 1)
        tops = [z3.And(a.app[p], a.layer[p] == E_.G[p] - 1) for a in H]
        facts.append(z3.Implies(z3.Or(*[a.app[p] for a in H]), z3.Or(*tops)))
        # applicability respects the order (transitivity of the subtype test on the class fragment, C13)
        for a in H:
            for b in H:
                facts.append(z3.Implies(z3.And(lt(a, b), a.app[p]), b.app[p]))
    for a in H:
        facts += [a.req_pos >= 0, a.req_pos <= a.max_pos]
    E_.facts = facts
    # signatures: identical-up-to-tiebreak relation and the invariant that registration maintains on tiebreaks
    E_.samesig = {(a.idx, b.idx): z3.Bool(f"samesig_{a.idx}_{b.idx}") for a in H for b in H}
    for a in H:
        for b in H:
            ss = E_.samesig[(a.idx, b.idx)]
            facts += [ss == E_.samesig[(b.idx, a.idx)]]
            if a is b:
                facts.append(ss)
            else:
                facts.append(z3.Implies(ss, z3.And(*[E_.same[(a.idx, b.idx, p)] for p in range(P)], a.req_pos == b.req_pos, a.max_pos == b.max_pos, a.prio == b.prio, a.tb != b.tb, *[a.reqkw[n] == b.reqkw[n] for n in kw], a.reqkw_other == b.reqkw_other)))
    return E_


def _oracle(E_):
    """Outcome per the statement of C02 (independent of levels)."""
    H = E_.handlers
    P = len(E_.tup)
    accept = {h: z3.And(h.req_pos <= E_.npos, E_.npos <= h.max_pos, z3.Not(h.reqkw_other), *[z3.Not(v) for n, v in h.reqkw.items() if n not in E_.names]) for h in H}
    app = {h: z3.And(accept[h], *h.app) for h in H}

    def beats(a, b):
        pw = z3.And(*[z3.Or(E_.same[(a.idx, b.idx, p)], E_.lt[(a.idx, b.idx, p)]) for p in range(P)])
        ss = E_.samesig[(a.idx, b.idx)]
        return z3.Or(a.prio > b.prio, z3.And(a.prio == b.prio, pw, z3.Not(ss)), z3.And(ss, a.tb > b.tb))

    wins = {h: z3.And(app[h], *[z3.Implies(app[o], beats(h, o)) for o in H if o is not h]) for h in H}
    run = {h: z3.And(wins[h], *[z3.Not(wins[o]) for o in H if o is not h]) for h in H}
    nomethod = z3.Not(z3.Or(*app.values()))
    return app, beats, run, nomethod


def t_e2e(N, shape, clause, perm=False):
    """C02 end to end on the real ASTs (bounded: N handlers, the given call shape)."""

    def build():
        w = E2EWorld(perm=perm)

        def thunk(I):
            E_ = _setup(I, w, N, shape)
            I.assume(E_.facts)
            H = E_.handlers
            P = len(shape)
            app, beats, run, nomethod = _oracle(E_)
            # tiebreaks of *different* signatures are equal for tables built by registration alone (complement of F-tiebreak)
            if clause != "tiebreak_scope":
                for a in H:
                    for b in H:
                        if a is not b:
                            I.assume(z3.Implies(z3.Not(E_.samesig[(a.idx, b.idx)]), a.tb == b.tb))
            if clause == "sound_single_position":
                # one dispatched position, equal priorities, every registered method accepts the call shape:
                # the layering lemma applies (a type alone in the top layer is below every other applicable type)
                for a in H[1:]:
                    I.assume(a.prio == H[0].prio)
                for a in H:
                    I.assume(z3.Implies(z3.And(*a.app), app[a]))
            if clause == "sound_chain":
                # complement of the F-lvl pattern: at every position the applicable registered types form a chain
                for a in H:
                    for b in H:
                        if a is b:
                            continue
                        for p in range(P):
                            I.assume(z3.Implies(z3.And(a.app[p], b.app[p]), z3.Or(E_.same[(a.idx, b.idx, p)], E_.lt[(a.idx, b.idx, p)], E_.lt[(b.idx, a.idx, p)])))
            m = MTME(w)
            try:
                r = m.py_getitem(I, E_.tup)
                out = ("return", r)
            except PyRaise as e:
                out = ("raise", e.exc)
            if out[0] == "return":
                h = out[1]
                I.require(isinstance(h, HandlerE), "returns_a_registered_handler")
                if clause in ("sound_single_position", "sound_chain", "tiebreak_scope", "sound_unrestricted"):
                    I.require(run[h], "sound.stored_handler_is_the_oracle_winner")
                I.require(app[h], "stored_handler_is_applicable")  # C01: accepts the call shape and the classes
                I.require(m.d.get(E_.tup) is h, "cached_under_the_looked_up_key")
            else:
                tag = out[1].tag
                if tag == "nomethod":
                    I.require(nomethod, "nomethod_only_when_no_method_is_applicable")
                elif isinstance(tag, AmbErr):
                    I.require(z3.Not(z3.Or(*run.values())), "complete.ambiguity_only_when_no_unique_winner")
                    I.require(z3.And(*[app[x] for x in tag.group]), "ambiguity_error_lists_applicable_methods")
                else:
                    I.require(False, f"unexpected_exception[{out[1].cls}]")
                I.require(E_.tup not in m.d, "no_handler_cached_on_error")
            # MultiTypeMap.all[key]: the code objects of exactly the applicable methods (what __missing__ consults to decide
            # whether the caller of call_next is "applicable to args", C07)
            allset = m.allmap.get(E_.tup)
            I.require(allset is not None, "candidate_set_recorded_for_the_looked_up_key")
            if allset is not None:
                for h in H:
                    member = I.contains(allset, h.code)
                    member = z3.BoolVal(member) if isinstance(member, bool) else member
                    I.require(member == app[h], "recorded_candidate_set_is_exactly_the_applicable_methods")
            if clause == "complete":
                I.require(z3.Implies(nomethod, out[0] == "raise" and out[1].tag == "nomethod"), "complete.nomethod")
                for h in H:
                    I.require(z3.Implies(run[h], out[0] == "return" and out[1] is h), f"complete.oracle_winner_is_stored")

        return w, thunk, {"bound": f"handlers={N}, call shape={shape}", "clause": clause, "fail_fast": False, "timeout_ms": 15000}

    return build


# --------------------------------------------------------------------------------------------------
# MultiTypeMap.register (C05): bounded over the number of entries of the signature, everything else symbolic


class LogMap(SymObj):
    """A dict attribute of the table whose writes are logged (keys have concrete identity in this task)."""

    def __init__(self, name, log):
        self.name, self.log = name, log
        self.d = {}

    def py_setitem(self, I, key, v):
        self.d[key] = v
        self.log.append((self.name, "set", key, v))

    def py_getitem(self, I, key):
        if key in self.d:
            return self.d[key]
        raise PyRaise(ExcV("KeyError"))

    def py_contains(self, I, key):
        return key in self.d

    def py_getattr(self, I, name):
        if name == "clear":
            return Builtin("clear", lambda I: (self.d.clear(), self.log.append((self.name, "clear")))[1])
        if name == "get":
            return Builtin("get", lambda I, key, default=None: self.d.get(key, default))
        if name == "setdefault":

            def setdefault(I, key, default=None):
                if key not in self.d:
                    self.py_setitem(I, key, default)
                return self.d[key]

            return Builtin("setdefault", setdefault)
        raise OutOfSubset(f"{self.name}.{name}")


class TMLog(SymObj):
    def __init__(self, key, log):
        self.key, self.log = key, log

    def py_getattr(self, I, name):
        if name == "register":
            return Builtin("TypeMap.register", lambda I, cls, entry: self.log.append(("maps", "register", self.key, cls, entry, self)))
        raise OutOfSubset(f"TypeMap.{name}")


class MTMReg(SymObj):
    def __init__(self, world):
        self.log = []
        self.attrs = {n: LogMap(n, self.log) for n in ("priorities", "tiebreaks", "type_tuples", "dependent", "errors", "all", "maps")}
        self.empty = "<old empty>"

    def py_getattr(self, I, name):
        if name in self.attrs:
            return self.attrs[name]
        if name == "clear":
            return Builtin("dict.clear", lambda I: self.log.append(("dict", "clear")))
        if name == "empty":
            return self.empty
        raise OutOfSubset(f"MultiTypeMap.{name}")

    def py_setattr(self, I, name, v):
        if name == "empty":
            self.empty = v
            self.log.append(("empty", "set", v))
            return
        raise OutOfSubset(f"MultiTypeMap.{name} = ...")

    def py_iter(self, I):
        # the cached keys: an unknown, possibly non-empty collection (one symbolic representative)
        self.log.append(("dict", "iterated"))
        return [OpaqueCachedKey()]

    def py_delitem(self, I, key):
        self.log.append(("dict", "del", key))


class OpaqueCachedKey(SymObj):
    """some key of the resolution cache: a tuple of unknown length"""

    concrete_identity = True

    def py_len(self, I):
        n = I.fresh("cached_key_len", z3.IntSort())
        I.assume(n >= 0)
        return ZV(n, "int")


class HandleTok(SymObj):
    concrete_identity = True

    def __repr__(self):
        return "<handler>"


def t_mtm_register(shape):
    """shape: tuple of 'p' / keyword name for the entries of sig.types."""

    def build():
        w = World()
        w.inline("typemap:MultiTypeMap.register")
        isdep = {}

        def is_dependent(I, args, kwargs):
            (t,) = args
            return ZV(isdep.setdefault(id(t), I.fresh("isdep", z3.BoolSort())), "bool")

        w.contract("dependent:is_dependent", is_dependent)
        w._class_ctor["typemap:TypeMap"] = lambda I, args, kwargs: TMLog(None, w.reg_log)
        w.is_singleton = lambda I, z, other: False

        def thunk(I):
            m = MTMReg(w)
            w.reg_log = m.log
            types = []
            tys = []
            for i, s in enumerate(shape):
                t = TyV(z3.Const(f"T{i}", TyS))
                tys.append(t)
                types.append(t if s == "p" else (s, t))
            vararg = I.fresh("vararg", z3.BoolSort())
            sig = Rec("core:Signature", dict(types=tuple(types), priority=ZV(z3.Real("prio"), "real"), tiebreak=ZV(z3.Int("tb"), "int"), vararg=ZV(vararg, "bool")))
            h = HandleTok()
            # a TypeMap created by the call must be the one registered into: give each created map its key lazily
            w._class_ctor["typemap:TypeMap"] = lambda I, args, kwargs: TMLog("?", m.log)
            I.call_repo("typemap:MultiTypeMap.register", [m, sig, h], {})
            log = m.log
            I.require(("dict", "clear") in log, "dict_part_is_flushed")  # C05
            I.require(("errors", "clear") in log, "remembered_errors_are_flushed")  # C05 (F-stale)
            I.require(("all", "clear") in log, "remembered_candidate_sets_are_flushed")  # C05 (F-stale)
            regs = [ev for ev in log if ev[0] == "maps" and ev[1] == "register"]
            key_of = {id(v): k for k, v in m.attrs["maps"].d.items()}
            want, npos = [], 0
            for s_, t in zip(shape, tys):
                want.append((npos if s_ == "p" else s_, t))
                npos += s_ == "p"
            got = [(key_of.get(id(ev[5])), ev[3]) for ev in regs if ev[4][0] is h and ev[4][1] is sig]
            extra = [g for g in got if g[0] == -1]  # the (disabled) vararg table
            got = [g for g in got if g[0] != -1]
            ok = len(got) == len(want) and all(gk == wk and gt is wt for (gk, gt), (wk, wt) in zip(got, want)) and len(regs) == len(got) + len(extra)
            I.require(bool(ok), "each_entry_is_filed_once_in_the_table_of_its_position_under_its_type")
            I.require(m.attrs["priorities"].d.get(h) is sig.f["priority"] and m.attrs["tiebreaks"].d.get(h) is sig.f["tiebreak"], "priority_and_tiebreak_recorded")
            I.require(m.attrs["type_tuples"].d.get(h) is sig.f["types"], "type_tuple_recorded")
            I.require((m.empty != "<old empty>") == (len(shape) == 0), "empty_slot_set_iff_signature_has_no_entries")

        return w, thunk, {"bound": f"signature entries={shape}", "fail_fast": False}

    return build


# --------------------------------------------------------------------------------------------------
# wrap_dependent: the dispatcher returned for a rank is generated from exactly the arguments of this call
# (no state of earlier resolutions can leak into it: C04, C10, C01)


class OpaqueMap(SymObj):
    """An attribute of the table that the contracts do not know about (e.g. a memo added by a change): it may
    contain anything, so every query on it is answered by a fresh symbolic value."""

    def __init__(self, name):
        self.name = name

    def py_contains(self, I, key):
        return I.fresh(f"{self.name}_has", z3.BoolSort())

    def py_getitem(self, I, key):
        return OpaqueVal(f"{self.name}[...]")

    def py_setitem(self, I, key, v):
        pass

    def py_getattr(self, I, name):
        if name == "get":
            return Builtin("get", lambda I, k, d=None: OpaqueVal(f"{self.name}.get") if I.branch(I.fresh(f"{self.name}_has", z3.BoolSort())) else d)
        if name in ("clear", "setdefault", "pop", "update"):
            return Builtin(name, lambda I, *a, **k: OpaqueVal(f"{self.name}.{name}"))
        raise OutOfSubset(f"{self.name}.{name}")


class OpaqueVal(SymObj):
    concrete_identity = True

    def __init__(self, what):
        self.what = what

    def py_truth(self, I):
        return I.fresh("opaque_truth", z3.BoolSort())

    def py_hasattr(self, I, name):
        return I.fresh("opaque_hasattr", z3.BoolSort())

    def py_getattr(self, I, name):
        return OpaqueVal(f"{self.what}.{name}")

    def py_isinstance(self, I, cls):
        return I.fresh("opaque_isinstance", z3.BoolSort())

    def py_is(self, I, other):
        return I.fresh("opaque_is", z3.BoolSort())

    def py_eq(self, I, other):
        return I.fresh("opaque_eq", z3.BoolSort())

    def __repr__(self):
        return f"<opaque {self.what}>"


class GenV(SymObj):
    concrete_identity = True

    def __init__(self, args):
        self.args = args


def t_wrap_dependent():
    w = World()
    w.inline("typemap:MultiTypeMap.wrap_dependent")
    w.is_singleton = lambda I, z, other: False
    calls = []

    def gen(I, args, kwargs):
        g = GenV((args, kwargs))
        calls.append(g)
        return g

    w.contract("recode:generate_dependent_dispatch", gen)

    class ArgSpec(SymObj):
        def __init__(self, h):
            self.h = h

        def py_getattr(self, I, name):
            if name == "args":
                if not I.branch(self.h.has_positional):
                    return []  # a method with keyword-only parameters only
                return ["self" if I.branch(self.h.first_is_self) else "x"]
            raise OutOfSubset(name)

    class InspectV(SymObj):
        def py_getattr(self, I, name):
            if name == "getfullargspec":
                return Builtin("getfullargspec", lambda I, h: ArgSpec(h))
            raise OutOfSubset(f"inspect.{name}")

    w.ext_modules = {"inspect": InspectV()}

    class H(SymObj):
        concrete_identity = True

        def __init__(self, I, n):
            self.n = n
            self.first_is_self = I.fresh(f"first_is_self_{n}", z3.BoolSort())
            self.has_positional = I.fresh(f"has_positional_{n}", z3.BoolSort())

    class Self(SymObj):
        def __init__(self, tt):
            self.tt = tt
            self.unknown = {}

        def py_getattr(self, I, name):
            if name == "type_tuples":
                return self.tt
            if name == "name":
                return "f"
            if name == "dispatch_id":
                return CounterV()
            if name == "key_error":
                return Builtin("key_error", lambda I, tup, group=(): ExcV("TypeError", tag=("nomethod" if not group else "amb")))
            return self.unknown.setdefault(name, OpaqueMap(name))

    class CounterV(SymObj):
        def py_next(self, I):
            return 7

    def thunk(I):
        del calls[:]
        hs = [H(I, i) for i in range(2)]
        tt = {h: ("types", h.n) for h in hs}
        slf = Self(tt)
        tup = (TyV(z3.Const("cls_0", TyS)), ("k", TyV(z3.Const("cls_1", TyS))))
        group = ["cand0", "cand1"]
        nxt = ("next_callable", ["code"])
        try:
            r = I.call_repo("typemap:MultiTypeMap.wrap_dependent", [slf, tup, list(hs), group, nxt], {})
        except PyRaise as e:
            I.require(False, f"first_handler_without_positional_parameter.no_{e.exc.cls}")
            return
        I.require(len(calls) == 1 and r is calls[0], "returns_the_dispatcher_generated_by_this_call")
        if len(calls) == 1:
            a, kw = calls[0].args
            allargs = list(a) + list(kw.values())
            I.require(any(x is tup for x in allargs), "generated_for_this_type_tuple")
            I.require(any(x is nxt for x in allargs), "falls_through_to_the_next_rank_given_by_the_caller")
            ht = [x for x in allargs if isinstance(x, list) and x and isinstance(x[0], tuple)]
            I.require(bool(ht) and [p[0] for p in ht[0]] == hs and all(p[1] == tt[p[0]] for p in ht[0]), "over_exactly_the_handlers_of_the_rank_with_their_registered_types")
            I.require(("self, " in allargs) == bool(I.branch(hs[0].first_is_self)) or ("" in allargs), "self_threaded_iff_first_handler_takes_self")

    return w, thunk, {"fail_fast": False}


# --------------------------------------------------------------------------------------------------
# Candidate.dominates / sort_key as stand-alone unbounded contracts (C02) and the sum lemma that makes the
# reverse-sorted candidate list put every dominating candidate first


def t_candidate():
    w = World()
    w.inline("typemap:Candidate.dominates", "typemap:Candidate.sort_key")
    w.is_singleton = lambda I, z, other: False

    def thunk(I):
        n = z3.Int("n")
        I.assume(n >= 0)
        sa = z3.Function("spec_a", z3.IntSort(), z3.IntSort())
        sb = z3.Function("spec_b", z3.IntSort(), z3.IntSort())
        a = Rec("typemap:Candidate", dict(handler="ha", priority=ZV(z3.Real("prio_a"), "real"), specificity=SymSeq(n, lambda i: ZV(sa(i), "int"), "spec"), tiebreak=ZV(z3.Int("tb_a"), "int")))
        b = Rec("typemap:Candidate", dict(handler="hb", priority=ZV(z3.Real("prio_b"), "real"), specificity=SymSeq(n, lambda i: ZV(sb(i), "int"), "spec"), tiebreak=ZV(z3.Int("tb_b"), "int")))
        I.assume(z3.Real("prio_a") >= z3.Real("prio_b"))  # requires: established by the reverse sort at the call site in _pull
        r = I.truth(I.call_repo("typemap:Candidate.dominates", [a, b], {}))
        r = z3.BoolVal(r) if isinstance(r, bool) else r
        i = z3.Int("i")
        pw = z3.ForAll([i], z3.Implies(z3.And(0 <= i, i < n), sa(i) >= sb(i)))
        ne = z3.Exists([i], z3.And(0 <= i, i < n, sa(i) != sb(i)))
        spec = z3.Or(z3.Real("prio_a") > z3.Real("prio_b"), z3.And(z3.Real("prio_a") == z3.Real("prio_b"), z3.Or(z3.And(ne, pw), z3.And(z3.Not(ne), z3.Int("tb_a") > z3.Int("tb_b")))))
        I.require(r == spec, "dominates.is_priority_then_pointwise_levels_then_tiebreak")

    return w, thunk, {"timeout_ms": 10000}


def t_sum_lemma():
    """Lemma (induction on the length): pointwise >= and somewhere > implies a strictly greater sum, hence
    dominates(a, b) at equal priority implies sort_key(a) > sort_key(b) and the sorted list puts a first."""
    w = World()

    def thunk(I):
        sa = z3.Function("spec_a", z3.IntSort(), z3.IntSort())
        sb = z3.Function("spec_b", z3.IntSort(), z3.IntSort())
        Sa = z3.Function("sum_a", z3.IntSort(), z3.IntSort())  # prefix sums
        Sb = z3.Function("sum_b", z3.IntSort(), z3.IntSort())
        k = z3.Int("k")
        i = z3.Int("i")
        I.assume(z3.And(Sa(0) == 0, Sb(0) == 0))
        I.assume(z3.ForAll([i], z3.Implies(i >= 0, z3.And(Sa(i + 1) == Sa(i) + sa(i), Sb(i + 1) == Sb(i) + sb(i)))))
        P = lambda m: z3.Implies(z3.ForAll([i], z3.Implies(z3.And(0 <= i, i < m), sa(i) >= sb(i))), z3.And(Sa(m) >= Sb(m), z3.Implies(z3.Exists([i], z3.And(0 <= i, i < m, sa(i) > sb(i))), Sa(m) > Sb(m))))
        I.require(P(z3.IntVal(0)), "lemma.sum.base")
        I.assume(k >= 0)
        I.assume(P(k))
        I.require(P(k + 1), "lemma.sum.step")

    return w, thunk, {"timeout_ms": 10000}


def t_resolve_interrupt(shape):
    """C18 (cache-miss resolution, 'an interrupt arriving at any moment'): an asynchronous exception between two
    writes of resolve must leave the table either without any entry for the tuple or with all of them; a partial
    state makes a later call_next answer 'No method' permanently (the first-rank entry is a cache hit)."""

    def build():
        w = ResolveWorld()
        w.inline("typemap:MultiTypeMap.resolve")

        def thunk(I):
            def fresh():
                groups = []
                for gi, size in enumerate(shape):
                    groups.append([Rec("typemap:Candidate", dict(handler=HandlerC(I, f"g{gi}h{j}"), priority=0, specificity=(), tiebreak=0)) for j in range(size)])
                for g in groups:
                    for c in g:
                        I.assume(c.f["handler"].has_code)
                        I.assume(z3.Not(c.f["handler"].dependent))
                return MTMB(w, groups)

            m = fresh()
            I.call_repo("typemap:MultiTypeMap.resolve", [m, TupB()], {})
            total = len(m.log)
            full = [(k, kind) for kind, k, _ in m.log]
            for cut in range(0, total + 1):
                m = fresh()
                orig_set, orig_err = m.py_setitem, None

                class Stop(Exception):
                    pass

                count = {"n": 0}

                def guard():
                    if count["n"] == cut:
                        raise PyRaise(ExcV("KeyboardInterrupt", tag=f"before write {cut + 1} of {total}"))
                    count["n"] += 1

                real_set = MTMB.py_setitem
                real_err = ErrLog.py_setitem
                MTMB.py_setitem = lambda self, I2, key, v: (guard(), real_set(self, I2, key, v))[1]
                ErrLog.py_setitem = lambda self, I2, key, v: (guard(), real_err(self, I2, key, v))[1]
                try:
                    try:
                        I.call_repo("typemap:MultiTypeMap.resolve", [m, TupB()], {})
                    except PyRaise:
                        pass
                finally:
                    MTMB.py_setitem = real_set
                    ErrLog.py_setitem = real_err
                done = len(m.log)
                I.require(done == 0 or done == total, f"interrupted_before_write[{cut + 1}_of_{total}].entries_of_the_tuple_are_all_or_nothing")

        return w, thunk, {"shape": shape, "fail_fast": False}

    return build
