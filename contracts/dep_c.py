"""Per-instance verification of the dispatchers emitted by recode.generate_dependent_dispatch (DESIGN C10 / C11 /
C01, mode I): each emitted __DEPENDENT_DISPATCH__ is executed symbolically for ALL argument values.  Value tests
are uninterpreted atoms shared by the emitted code and by the reference meaning of the declared types:
    EQ(arg, v)   arg == v          ISINST(arg, C)   isinstance(arg, C) for a plain class C
    CHECK(p, arg) user predicate    SEARCH(rx, arg)  regexp search         LEN(arg)  len(arg)
The contract is computed from the declared types of the handlers of the rank (never from the emitted text).
"""
import ast
import json
import re
import time

import z3

from pyvc.interp import Builtin, Env, ExcV, Interp, OutOfSubset, PyRaise, SymObj, ZV
from pyvc.verify import TaskResult
from pyvc.world import World


def _nm(s):
    return re.sub(r"[^A-Za-z0-9_]", "_", s)


class Atoms:
    def __init__(self):
        self.used = {}

    def b(self, name):
        return z3.Bool(name)

    def eq(self, arg, vid):
        return z3.Bool(f"EQ[{arg}=={vid}]")

    def isinst(self, arg, cname):
        if cname == "object":
            return z3.BoolVal(True)
        return z3.Bool(f"ISINST[{arg}:{cname}]")

    def check(self, pred, arg):
        return z3.Bool(f"CHECK[{pred}({arg})]")

    def search(self, pat, arg):
        return z3.Bool(f"SEARCH[{pat!r} in {arg}]")

    def length(self, arg):
        return z3.Int(f"LEN[{arg}]")


AT = Atoms()
VALUES = []  # the dumper's value table: equal values (==, same hash) share an id


def lit_vid(v):
    for i, w in enumerate(VALUES):
        try:
            if w == v and hash(w) == hash(v):
                return i
        except Exception:
            pass
    VALUES.append(v)
    return len(VALUES) - 1


def inst(arg, d):
    """isinstance(arg, T) for a declared type description d (reference meaning, docs/dependent.md, docs/types.md)."""
    c = d["cls"]
    if c == "static":
        return AT.isinst(arg, d["name"])
    if c == "Union":
        return z3.Or(*[inst(arg, m) for m in d["members"]])
    if c == "Intersection":
        return z3.And(*[inst(arg, m) for m in d["members"]])
    b = inst(arg, d["bound"])
    if c == "Equals":
        return z3.And(b, z3.Or(*[AT.eq(arg, v["vid"]) for v in d["values"]]))
    if c == "FuncDep":
        return z3.And(b, AT.check(d["pred"], arg))
    if c == "Regexp":
        return z3.And(b, AT.search(d["pattern"], arg))
    if c == "Product":
        return z3.And(b, AT.length(arg) == len(d["members"]), *[inst(f"{arg}.{i}", m) for i, m in enumerate(d["members"])])
    raise KeyError(c)


def typelevel(arg, d):
    """What type-level dispatch already guarantees about arg for a handler declared with d (SC(type(arg), d))."""
    c = d["cls"]
    if c == "static":
        return AT.isinst(arg, d["name"])
    if c == "Union":
        return z3.Or(*[typelevel(arg, m) for m in d["members"]])
    if c == "Intersection":
        return z3.And(*[typelevel(arg, m) for m in d["members"]])
    return typelevel(arg, d["bound"])


def is_dep(d):
    if d["cls"] in ("Union", "Intersection"):
        return any(is_dep(m) for m in d["members"])
    return d["cls"] != "static"


def bound_of(d):
    return d.get("bound")


class ArgV(SymObj):
    concrete_identity = True

    def __init__(self, name):
        self.name = name

    def py_getitem(self, I, key):
        if isinstance(key, int):
            return ArgV(f"{self.name}.{key}")
        raise OutOfSubset("argument subscript")

    def py_len(self, I):
        return ZV(AT.length(self.name), "int")

    def py_eq(self, I, other):
        if isinstance(other, ValV):
            return AT.eq(self.name, other.vid)
        if isinstance(other, (int, str, float, bool, bytes)) or other is None:
            return AT.eq(self.name, lit_vid(other))  # a literal inlined in the emitted text
        return NotImplemented

    def __repr__(self):
        return f"<{self.name}>"


class ValV(SymObj):
    concrete_identity = True

    def __init__(self, vid, rep):
        self.vid, self.rep = vid, rep

    def py_eq(self, I, other):
        if isinstance(other, ArgV):
            return AT.eq(other.name, self.vid)
        if isinstance(other, ValV):
            return other.vid == self.vid
        return NotImplemented


class HandlerRef(SymObj):
    concrete_identity = True

    def __init__(self, index, log):
        self.index, self.log = index, log

    def py_call(self, I, args, kwargs):
        self.log.append(("call", self.index, list(args), dict(kwargs), list(I.path.pc)))
        return ("result", self.index)


class FallRef(SymObj):
    concrete_identity = True

    def __init__(self, log):
        self.log = log

    def py_call(self, I, args, kwargs):
        self.log.append(("fallthrough", None, list(args), dict(kwargs), list(I.path.pc)))
        return ("result", "fallthrough")


class KeyedV(SymObj):
    def __init__(self, items, w):
        self.items, self.w = items, w

    def py_getattr(self, I, name):
        if name == "get":

            def get(I, key, default=None):
                if not isinstance(key, ArgV):
                    raise OutOfSubset("keyed lookup on a non-argument")
                for it in self.items:
                    if I.branch(AT.eq(key.name, it["vid"])):
                        return self.w.handler(it["handler"])
                return default

            return Builtin("dict.get", get)
        raise OutOfSubset(f"keyed.{name}")


class MatchV(SymObj):
    """re.Match or None: has a truth value, is not a number (it cannot be summed with booleans)."""

    def __init__(self, found):
        self.found = found

    def py_truth(self, I):
        return self.found


class RegexV(SymObj):
    def __init__(self, pattern):
        self.pattern = pattern

    def py_getattr(self, I, name):
        if name == "search":
            return Builtin("search", lambda I, a: MatchV(AT.search(self.pattern, a.name)))
        raise OutOfSubset(f"regex.{name}")


class TypeRef(SymObj):
    def __init__(self, d, w):
        self.d, self.w = d, w

    def py_getattr(self, I, name):
        if name == "check":

            def check(I, a):
                d = self.d
                # C10: the user's condition is never evaluated on a value that is not an instance of the bound
                self.w.checks.append((d, a.name, list(I.path.pc)))
                I.require(inst(a.name, d["bound"]), f"user_check_only_under_bound[{_nm(d.get('pred') or d.get('pattern') or d['cls'])}]")
                if d["cls"] == "FuncDep":
                    return ZV(AT.check(d["pred"], a.name), "bool")
                if d["cls"] == "Regexp":
                    return ZV(AT.search(d["pattern"], a.name), "bool")
                if d["cls"] == "Equals":
                    return ZV(z3.Or(*[AT.eq(a.name, v["vid"]) for v in d["values"]]), "bool")
                if d["cls"] == "Product":
                    return ZV(z3.And(AT.length(a.name) == len(d["members"]), *[inst(f"{a.name}.{i}", m) for i, m in enumerate(d["members"])]), "bool")
                raise OutOfSubset(f"check of {d['cls']}")

            return Builtin("check", check)
        raise OutOfSubset(f"type.{name}")


class DepWorld(World):
    def __init__(self, gl):
        super().__init__()
        self.gl = gl
        self.log = []
        self.checks = []

    def handler(self, idx):
        return HandlerRef(idx, self.log)

    def global_value(self, I, mod, name):
        g = self.gl.get(name)
        if g is None:
            if name == "bool":
                return Builtin("bool", lambda I, x=False: I.boolval(I.truth(x)))
            if name == "isinstance":
                return Builtin("isinstance", self._isinstance)
            if name == "len":
                return Builtin("len", lambda I, x: x.py_len(I))
            raise OutOfSubset(f"emitted code uses the name {name}")
        k = g["kind"]
        if k == "handler":
            return self.handler(g["index"])
        if k == "fallthrough":
            return FallRef(self.log)
        if k == "exc":
            return ExcV("TypeError", tag=("ambiguity", name))
        if k == "keyed":
            return KeyedV(g["items"], self)
        if k == "regex":
            return RegexV(g["pattern"])
        if k == "type":
            return TypeRef(g["type"], self)
        if k == "values":
            return tuple(ValV(v["vid"], v["repr"]) for v in g["values"])
        if k == "value":
            return ValV(g["vid"], g["repr"])
        raise OutOfSubset(f"injected object of kind {k}")

    def _isinstance(self, I, a, t):
        if isinstance(a, ArgV) and isinstance(t, TypeRef):
            return ZV(inst(a.name, t.d), "bool") if t.d["cls"] == "static" else ZV(inst(a.name, t.d), "bool")
        raise OutOfSubset("isinstance in emitted code")

    def is_singleton(self, I, z, other):
        return False

    def describe_model(self, I, m):
        return " ".join(f"{d.name()}={m[d]}" for d in sorted(m.decls(), key=lambda d: d.name()) if d.arity() == 0 and "!" not in d.name() and not z3.is_false(m[d]))[:1500]


def verify_instance(inst_, idx):
    name = f"dependent[{idx}:{'|'.join(','.join(a) for a in inst_['annotations'])}@{','.join(inst_['probe'])}{',self' if inst_.get('is_method') else ''}]"
    name = name.replace("typing.", "").replace("<class '", "").replace("'>", "")
    obs = []
    tree = ast.parse(inst_["source"])
    fn = tree.body[0]
    w = DepWorld(inst_["globals"])
    off = 1 if inst_.get("is_method") else 0  # methods: the instance comes first and is passed on as it is
    nargs = len(fn.args.args) - off
    argnames = [a.arg for a in fn.args.args][off:]
    selfobj = ArgV("self")
    rank = sorted({g["index"] for g in inst_["globals"].values() if g["kind"] == "handler"} | {it["handler"] for g in inst_["globals"].values() if g["kind"] == "keyed" for it in g["items"]})
    decl = inst_["declared"]
    args = [ArgV(f"a{i}") for i in range(nargs)]
    kwn = list(inst_.get("kwnames") or [])
    npos_ = nargs - len(kwn)

    def passed_intact(ev):
        """positional parameters passed positionally in order, keyword parameters passed as keywords under their names"""
        got = list(ev[2])
        if off:
            if not got or got[0] is not selfobj:
                return False
            got = got[1:]
        pos_ok = len(got) == npos_ and all(a is b for a, b in zip(got, args[:npos_]))
        kw_ok = set(ev[3]) == set(kwn) and all(ev[3][n_] is args[npos_ + j] for j, n_ in enumerate(kwn))
        return pos_ok and kw_ok and argnames[npos_:] == kwn

    def match(i):
        return z3.And(*[inst(f"a{k}", decl[i][k]) for k in range(nargs) if is_dep(decl[i][k])]) if any(is_dep(decl[i][k]) for k in range(nargs)) else z3.BoolVal(True)

    def thunk(I):
        w.log.clear()
        # what the type-level dispatch that selected this rank guarantees
        for i in rank:
            for k in range(nargs):
                I.assume(typelevel(f"a{k}", decl[i][k]))
        # == between sane values: an argument equals at most one of several distinct literals
        vids = sorted({v["vid"] for d in decl for t in d for v in _values(t)})
        for k in range(nargs):
            for x in range(len(vids)):
                for y in range(x + 1, len(vids)):
                    I.assume(z3.Not(z3.And(AT.eq(f"a{k}", vids[x]), AT.eq(f"a{k}", vids[y]))))
        # ... and never a literal of another builtin family (an int is never == 'a'; 1 == True == 1.0 stay in one family)
        fam = lambda v: "num" if isinstance(v, (bool, int, float)) else type(v).__name__
        cfam = {"int": "num", "bool": "num", "float": "num", "str": "str", "bytes": "bytes", "tuple": "tuple", "list": "list", "NoneType": "NoneType"}
        cnames = sorted({n_ for d in decl for t in d for n_ in _static_names(t)} | set(inst_["probe"]))
        for k in range(nargs):
            for v in vids:
                if v < len(VALUES) and not (isinstance(VALUES[v], tuple) and VALUES[v][:1] == ("unparsed",)):
                    for cn in cnames:
                        if cn in cfam and cfam[cn] != fam(VALUES[v]):
                            I.assume(z3.Not(z3.And(AT.eq(f"a{k}", v), AT.isinst(f"a{k}", cn))))
        env = Env(None)
        try:
            r = I.exec_function(fn, "emitted", "emitted:__DEPENDENT_DISPATCH__", ([selfobj] if off else []) + list(args), {}, env)
            out = ("return", r)
        except PyRaise as e:
            out = ("raise", e.exc)
        ev = w.log[-1] if w.log else None
        if out[0] == "return" and ev is not None and ev[0] == "call":
            i = ev[1]
            I.require(match(i), "handler_runs_only_if_its_condition_holds")  # C01 / C10
            others = [match(j) for j in rank if j != i]
            I.require(z3.Not(z3.Or(*others)) if others else True, "no_other_unordered_condition_holds_when_a_handler_runs")  # C10 (F-overlap)
            I.require(passed_intact(ev), "arguments_passed_unchanged")
            I.require(len(w.log) == 1, "exactly_one_call")
        elif out[0] == "return" and ev is not None and ev[0] == "fallthrough":
            I.require(z3.Not(z3.Or(*[match(j) for j in rank])), "falls_through_only_if_no_condition_holds")  # C10 / C11 (F-keys)
            I.require(passed_intact(ev), "arguments_passed_unchanged")
            I.require(len(w.log) == 1, "exactly_one_call")
        elif out[0] == "raise":
            ms = [match(j) for j in rank]
            two = z3.Or(*[z3.And(ms[a], ms[b]) for a in range(len(ms)) for b in range(a + 1, len(ms))]) if len(ms) > 1 else z3.BoolVal(False)
            I.require(isinstance(out[1].tag, tuple) and out[1].tag[0] == "ambiguity", "only_the_ambiguity_error_is_raised")
            I.require(two, "ambiguity_error_only_if_two_conditions_hold")
            I.require(not w.log, "no_method_body_runs_on_ambiguity")
        else:
            I.require(False, "dispatcher_ends_in_a_call_or_the_ambiguity_error")

    I = Interp(w, timeout_ms=8000)
    res = dict(paths=0)
    try:
        paths = I.explore(thunk, name)
        res["paths"] = len(paths)
    except OutOfSubset as e:
        obs.append(dict(name=f"{name}/emitted_code_within_the_modelled_subset", status="refuted", time=0, model=str(e), note="", path="", goal=""))
        return name, obs, res
    for ob in I.obligations:
        obs.append(dict(name=ob.name, status=ob.status, time=round(ob.time, 4), model=ob.model, note=ob.note, path="".join(map(str, ob.path)), goal=str(ob.goal)[:200]))
    return name, obs, res


def _static_names(t):
    if t["cls"] == "static":
        return [t["name"]]
    out = []
    for m in t.get("members", []):
        out += _static_names(m)
    if t.get("bound"):
        out += _static_names(t["bound"])
    return out


def _values(t):
    if t["cls"] == "Equals":
        return t["values"]
    out = []
    for m in t.get("members", []):
        out += _values(m)
    if t.get("bound"):
        out += _values(t["bound"])
    return out


def dep_task(tier, native):
    def run():
        res = TaskResult("generate_dependent_dispatch.instances")
        res.mode = "I"
        t0 = time.time()
        r = native(["gen_dependent.py", tier], timeout=600)
        if r["rc"] != 0:
            res.status = "undecided"
            res.detail = f"the generator run failed: {(r['out'] + r['err'])[-600:]}"
            res.wall_s = round(time.time() - t0, 3)
            return res
        dump = json.loads(r["out"])
        insts = dump["instances"]
        del VALUES[:]
        for rep in dump.get("values", []):
            try:
                VALUES.append(ast.literal_eval(rep))
            except Exception:
                VALUES.append(("unparsed", rep))
        n = paths = 0
        for i, it in enumerate(insts):
            if it.get("error"):
                res.obligations.append(dict(name=f"dependent[family{it['family']}]/generator_accepts_the_method_set", status="refuted", time=0, model=it["error"], note="", path="", goal=""))
                continue
            n += 1
            _, obs, info = verify_instance(it, it["family"])
            paths += info["paths"]
            res.obligations.extend(obs)
        res.paths = paths
        res.meta = {"instances": n, "cover": ["n/a"], "bound": "method-set family of native/gen_dependent.py"}
        res.trusted = ["compile/exec of the emitted source text produce a function that behaves as the text says", "== between an argument and distinct literal values holds for at most one of them", "an argument of one builtin family (numbers / str / bytes / tuple / list) is never == a literal of another family", "user predicates are pure"]
        res.wall_s = round(time.time() - t0, 3)
        return res

    return run
