"""recode.recode (tail) and adapt_function: which names the rewritten method is bound to (DESIGN A.4, C08 / C07).

The front part of recode (reading the source, parsing, NameConverter, recompiling) is library plumbing and is
abstracted by logging contracts; its structural contract is checked in R mode (native/c09_rewrite.py).  What is
verified here, on the real AST: the three mangled names handed to NameConverter are exactly the names bound in the
function's globals afterwards, they are bound to ovld.dispatch, ovld.map and the code object of the RETURNED
function, the names are injective in ovld.id, and every recode call gets a fresh code name.
"""
import z3

from pyvc.interp import Builtin, ExcV, OutOfSubset, PyRaise, RepoFn, SymObj
from pyvc.world import ModuleV, World

from .core_c import Tok


class Counter(SymObj):
    def __init__(self):
        self.n = 0

    def py_next(self, I):
        self.n += 1
        return self.n


class RecodeWorld(World):
    inline_prefixes = ("recode:recode", "recode:rename_function", "recode:adapt_function")

    def __init__(self):
        super().__init__()
        self.converters = []
        self.counter = Counter()
        W = self

        def getsource(I, fn):
            return "SRC"

        self.ext_modules = {
            "inspect": ModuleV("inspect", {"getsource": Builtin("getsource", getsource)}),
            "ast": ModuleV("ast", {"parse": Builtin("parse", lambda I, s: Tok("tree", body=[Tok("fndef", decorator_list=["deco"])])), "fix_missing_locations": Builtin("fml", lambda I, t: t), "increment_lineno": Builtin("inc", lambda I, t, n: t)}),
            "textwrap": ModuleV("textwrap", {"dedent": Builtin("dedent", lambda I, s: s)}),
            "linecache": ModuleV("linecache", {}),
        }
        self.set_global("recode", "_current", self.counter)
        self.set_global("recode", "NameConverter", Builtin("NameConverter", self.name_converter))
        self.set_global("recode", "closure_wrap", Builtin("closure_wrap", lambda I, t, name, fv: Tok("wrapped", body=[t])))
        self.set_global("recode", "FunctionType", Builtin("FunctionType", self.function_type))
        self.set_global("recode", "CodeType", "CODETYPE")
        self.set_global("recode", "rename_code", Builtin("rename_code", lambda I, co, name: Tok("code", co_freevars=co.attrs.get("co_freevars", ()), renamed_from=co, name=name)))
        self.set_global("recode", "subtler_type", "SUBTLER_TYPE")
        self.set_global("recode", "recurse", Tok("recurse"))
        self.set_global("recode", "call_next", Tok("call_next"))
        self.set_global("recode", "_search_names", Builtin("_search_names", self.search_names))
        self.builtins["compile"] = Builtin("compile", lambda I, tree, mode=None, filename=None: Tok("module_code", co_consts=["const", Tok("code", co_freevars=(), inner=True)]))
        self.search_result = {}

    def is_singleton(self, I, z, other):
        return False

    def isinstance_(self, I, x, cls):
        if cls == "CODETYPE":
            return isinstance(x, Tok) and x.label == "code"
        return super().isinstance_(I, x, cls)

    def name_converter(self, I, **kw):
        conv = Tok("NameConverter", **kw)
        conv.attrs["visit"] = Builtin("visit", lambda I, tree: tree)
        self.converters.append(kw)
        return conv

    def function_type(self, I, code, glb, name, defaults=None, closure=None):
        return Tok("function", __code__=code, __globals__=glb, __name__=name, __defaults__=defaults, __closure__=closure, __kwdefaults__=None, __annotations__=None)

    def search_names(self, I, co, values, glb, closure=None):
        if not isinstance(values, (list, tuple)):
            raise OutOfSubset("_search_names called with something other than the list of values to look for")
        key = tuple(id(v) for v in values)
        return list(self.search_result.get(len(values), []))


def mk_fn(glb, closure=False, lineno=10):
    code = Tok("code", co_firstlineno=lineno, co_filename="file.py", co_freevars=("v",) if closure else ())
    return Tok("function", __name__="method", __qualname__="make.<locals>.method", __module__="m", __code__=code, __globals__=glb, __defaults__=("d",), __kwdefaults__={"k": 1}, __annotations__={"x": int}, __closure__=("cell",) if closure else None)


def mk_ovld(i):
    return Tok("ovld", id=i, dispatch=Tok(f"dispatch{i}"), map=Tok(f"map{i}"), argument_analysis=Tok("anal"))


def t_recode_tail():
    w = RecodeWorld()

    def thunk(I):
        w.converters.clear()
        w.counter.n = 0
        G = {}
        ov1, ov2 = mk_ovld(1), mk_ovld(2)
        results = []
        shared = mk_fn(G)  # one method rewritten for two functions (inherited by a copy / an extend_super subclass)
        for ov, fn in ((ov1, shared), (ov1, mk_fn(G)), (ov2, mk_fn(G)), (ov2, shared)):  # two methods of one function (same line: a factory), one of another
            results.append((ov, I.call_repo("recode:recode", [fn, ov, "recurse", "call_next", "newname"], {})))
        names = []
        for (ov, new_fn), kw in zip(results, w.converters):
            g = new_fn.attrs["__globals__"]
            om, mm, cm = kw["ovld_mangled"], kw["map_mangled"], kw["code_mangled"]
            names.append((ov, om, mm, cm, new_fn))
            I.require(g is G, "rewritten_function_shares_the_globals_of_the_original")
            I.require(kw["anal"] is ov.attrs["argument_analysis"], "rewriting_uses_the_argument_analysis_of_the_function_being_built")
            I.require(kw["recurse_sym"] == "recurse" and kw["call_next_sym"] == "call_next", "symbols_passed_through")
        # after the last recode of each function the globals bind its names to ITS entry point / table (re-bound on every build)
        last = {}
        for ov, om, mm, cm, new_fn in names:
            last[ov.attrs["id"]] = (ov, om, mm)
            I.require(G.get(cm) is new_fn.attrs["__code__"], "own_code_name_is_bound_to_the_code_of_the_returned_function")  # C07
        for ov, om, mm in last.values():
            I.require(G.get(om) is ov.attrs["dispatch"] and G.get(mm) is ov.attrs["map"], "mangled_names_are_bound_to_the_entry_point_and_table_of_that_function")  # C08
        I.require(len({om for _, om, _, _, _ in names}) == 2 and len({mm for _, _, mm, _, _ in names}) == 2, "entry_point_and_table_names_are_injective_in_the_function_id")
        I.require(names[0][1] == names[1][1] and names[0][2] == names[1][2], "entry_point_and_table_names_depend_only_on_the_function_id")
        I.require(len({cm for _, _, _, cm, _ in names}) == 4, "every_rewritten_method_gets_its_own_code_name")  # C07: also for methods made by one factory def
        I.require(G.get("__SUBTLER_TYPE") == "SUBTLER_TYPE", "subtler_type_bound")
        for (ov, new_fn) in results:
            I.require(new_fn.attrs.get("__kwdefaults__") == {"k": 1} and new_fn.attrs.get("__annotations__") == {"x": int} and new_fn.attrs.get("__defaults__") == ("d",), "defaults_kwdefaults_annotations_carried_over")  # C09 / C03

    return w, thunk, {}


def t_adapt_function():
    """adapt_function: EVERY name of the body bound to recurse, to the function or to its entry point is rewritten
    (F-twosyms: only the first one found is), likewise call_next; without such names the function is only renamed."""
    w = RecodeWorld()
    recoded = []
    w.contract("recode:recode", lambda I, args, kwargs: recoded.append(args) or Tok("recoded"))

    def thunk(I):
        del recoded[:]
        ov = mk_ovld(1)
        fn = mk_fn({})
        # 1: two different names refer to recurse / the function itself
        w.search_result = {3: ["own_name", "recurse"], 1: []}
        I.call_repo("recode:adapt_function", [fn, ov, "n"], {})
        I.require(len(recoded) == 1 and recoded[0][2] in (["own_name", "recurse"], ("own_name", "recurse")), "all_names_bound_to_recurse_or_the_function_are_rewritten")
        # 2: nothing to rewrite
        del recoded[:]
        w.search_result = {3: [], 1: []}
        r = I.call_repo("recode:adapt_function", [fn, ov, "n"], {})
        I.require(not recoded and isinstance(r, Tok) and r.label == "function", "functions_without_such_names_are_only_renamed")
        # 3: the search is for exactly recurse, the function object and its entry point
        seen = []
        orig = w.search_names

        def spy(I2, co, values, glb, closure=None):
            if not isinstance(values, (list, tuple)):
                raise OutOfSubset("_search_names called with something other than the list of values to look for")
            seen.append(list(values))
            return []

        w.set_global("recode", "_search_names", Builtin("_search_names", spy))
        I.call_repo("recode:adapt_function", [fn, ov, "n"], {})
        w.set_global("recode", "_search_names", Builtin("_search_names", orig))
        rec = I.world.global_value(I, "recode", "recurse")
        I.require(any(len(v) == 3 and v[1] is ov and v[2] is ov.attrs["dispatch"] for v in seen), "searches_for_recurse_the_function_and_its_entry_point")

    return w, thunk, {}
