"""Contracts and lemma tasks for src/ovld/mro.py (Order, typeorder, subclasscheck) and the hooks in
types.py / dependent.py they route to.  Properties: C12, C13, C14 (and the mirror premise of C06)."""
import z3

from pyvc import source
from pyvc.interp import LoopSpec, OutOfSubset, Stream, SymSeq, ZV
from pyvc.verify import ensure_return, harness

from .universe import (
    ANY,
    CONTAINER,
    DEP,
    HOOKY,
    K,
    KIND_NAMES,
    LESS,
    METAMC,
    MORE,
    NONE,
    OBJECT,
    ORDER,
    SAME,
    SC,
    TO,
    TROUBLE,
    TYPE,
    EnumSet,
    ObjV,
    OrderS,
    OrderV,
    TyS,
    TyV,
    TypesWorld,
    arg,
    base,
    is_kind,
    kind,
    nargs,
    opp,
    rank,
    sub,
)

HOOK_BODIES = [
    "types:MetaMC.__type_order__",
    "types:MetaMC.__is_supertype__",
    "types:MetaMC.__is_subtype__",
    "types:MetaMC.__subclasscheck__",
    "types:MetaMC.__instancecheck__",
    "types:SingleFunctionHandler.__type_order__",
    "types:SingleFunctionHandler.__is_supertype__",
    "types:SingleFunctionHandler.__is_subtype__",
    "types:SingleFunctionHandler.__subclasscheck__",
    "types:Union.__type_order__",
    "types:Union.__is_supertype__",
    "types:Union.__is_subtype__",
    "types:Union.__subclasscheck__",
    "types:Intersection.__type_order__",
    "types:Intersection.__is_supertype__",
    "types:Intersection.__is_subtype__",
    "types:Intersection.__subclasscheck__",
    "types:Exactly",
    "types:StrictSubclass",
    "types:HasMethod",
    "dependent:DependentType.__type_order__",
    "dependent:DependentType.__is_supertype__",
    "dependent:DependentType.__lt__",
    "dependent:FuncDependentType.__lt__",
    "dependent:ProductType.__type_order__",
    "types:MetaMC.__eq__",
    "types:Union.__eq__",
    "types:Intersection.__eq__",
    "types:SingleFunctionHandler.__eq__",
    "dependent:ParametrizedDependentType.__eq__",
]


def merge_spec(flags):
    """Order.merge as a function of which values occur (A.1 of DESIGN)."""
    l, m, s, n = flags["LESS"], flags["MORE"], flags["SAME"], flags["NONE"]
    return z3.If(
        z3.And(s, z3.Not(l), z3.Not(m), z3.Not(n)),
        SAME,
        z3.If(z3.And(z3.Not(m), z3.Not(n)), LESS, z3.If(z3.And(z3.Not(l), z3.Not(n)), MORE, NONE)),
    )


def measure(a, b):
    flag = z3.If(z3.And(kind(b) == K["Alias"], kind(a) != K["Alias"]), 1, 0)
    return rank(a) + rank(b), flag


class MroWorld(TypesWorld):
    """TypesWorld + callee contracts of mro.py: typeorder/subclasscheck are unfolded `unfold` levels deep,
    below that they are the spec functions TO / SC (with a decreases obligation at every such call)."""

    def __init__(self, unfold=1, sc_unfold=1, use_ext=True):
        super().__init__(use_ext=use_ext)
        self.unfold = unfold
        self.sc_unfold = sc_unfold
        self.inline(*HOOK_BODIES)
        self.contract("mro:typeorder", self.typeorder_model)
        self.contract("mro:subclasscheck", self.subclasscheck_model)
        self.contract("mro:Order.opposite", self.opposite_model)
        self.contract("mro:Order.merge", self.merge_model)
        self.set_global("types", "hasattr", None)
        del self._globals[("types", "hasattr")]
        self.trusted += [
            "routing table of contracts/universe.py (hasattr / attribute / issubclass / get_origin per kind), checked natively by native/conformance.py",
            "user-supplied class predicates (class_check) and hasattr(cls, name) are pure and total",
        ]

    # -- contracts --------------------------------------------------------------------------
    def opposite_model(self, I, args, kwargs):
        (x,) = args
        if not isinstance(x, OrderV):
            raise OutOfSubset("opposite() of a non-Order value")
        return OrderV(opp(x.t))

    def merge_model(self, I, args, kwargs):
        (orders,) = args
        it = I.iterable(orders)
        s = self.make_set(I, it.consume() if isinstance(it, Stream) else it)
        return OrderV(merge_spec(s.flags))

    def _caller_measure(self, I):
        for fr in reversed(I.frames):
            if fr.qual in ("mro:typeorder", "mro:subclasscheck"):
                a, b = fr.env.get("t1"), fr.env.get("t2")
                m = getattr(fr, "entry_args", None)
                if m is not None:
                    a, b = m
                if isinstance(a, TyV) and isinstance(b, TyV):
                    return measure(a.t, b.t)
        return None

    def _decreases(self, I, a, b, what):
        cm = self._caller_measure(I)
        if cm is None:
            return
        (r0, f0), (r1, f1) = cm, measure(a.t, b.t)
        I.require(z3.Or(r1 < r0, z3.And(r1 == r0, f1 < f0)), f"{what}.decreases")

    def typeorder_model(self, I, args, kwargs):
        a, b = args
        if not (isinstance(a, TyV) and isinstance(b, TyV)):
            a, b = self.as_ty(I, a), self.as_ty(I, b)
        active = sum(1 for fr in I.frames if fr.qual == "mro:typeorder")
        if active < self.unfold and not I.pure and not I.path.binders:
            r = self._exec(I, "mro:typeorder", a, b)
            if not isinstance(r, OrderV):
                I.require(False, "typeorder.returns_an_Order", fn="mro:typeorder")
                raise OutOfSubset("typeorder returned a non-Order value")
            I.assume(TO(a.t, b.t) == r.t)  # definitional unfolding of the spec function
            return r
        self._decreases(I, a, b, "typeorder")
        return OrderV(TO(a.t, b.t))

    def subclasscheck_model(self, I, args, kwargs):
        a, b = args
        a, b = self.as_ty(I, a), self.as_ty(I, b)
        active = sum(1 for fr in I.frames if fr.qual == "mro:subclasscheck")
        if active < self.sc_unfold and not I.pure and not I.path.binders:
            r = self._exec(I, "mro:subclasscheck", a, b)
            t = I.truth(r)
            t = z3.BoolVal(t) if isinstance(t, bool) else t
            I.assume(SC(a.t, b.t) == t)
            return ZV(t, "bool")
        self._decreases(I, a, b, "subclasscheck")
        return ZV(SC(a.t, b.t), "bool")

    def _exec(self, I, qual, a, b):
        node = source.function(qual)
        orig_push = I.frames.append
        r = I.exec_function(node, "mro", qual, [a, b], {}, preset=None)
        return r

    def as_ty(self, I, v):
        if isinstance(v, TyV):
            return v
        t = self.term_of(I, v)
        if t is not None:
            return TyV(t)
        if hasattr(v, "as_type"):
            return v.as_type()
        raise OutOfSubset(f"not a type: {v!r}")

    def describe_model(self, I, m):
        out = []
        try:
            for nm in ("t1", "t2", "t3", "c", "T"):
                c = z3.Const(nm, TyS)
                out.append(f"{nm}: kind={m.eval(kind(c), model_completion=True)} rank={m.eval(rank(c), model_completion=True)} nargs={m.eval(nargs(c), model_completion=True)}")
        except Exception:
            pass
        return "; ".join(out) + " || " + super().describe_model(I, m)[:1500]


# --------------------------------------------------------------------------------------------------
# tasks


def t_opposite():
    w = TypesWorld()
    w.inline("mro:Order.opposite")

    def thunk(I):
        x = OrderV(I.fresh("x", OrderS))
        ensure_return(I, lambda: I.call_repo("mro:Order.opposite", [x], {}), lambda I, r: isinstance(r, OrderV) and r.t == opp(x.t), "ensures.result_is_opp")
        return None

    return w, thunk, {"property_clause": "Order.opposite: LESS<->MORE, SAME/NONE fixed (involution)"}


def t_merge():
    w = TypesWorld()
    w.inline("mro:Order.merge")

    def thunk(I):
        n = I.fresh("n", z3.IntSort())
        f = I.fresh_fn("ord", [z3.IntSort()], OrderS)
        I.assume(n >= 0)
        orders = SymSeq(n, lambda i: OrderV(f(i)), "orders").stream(I)
        i = z3.Int("i")
        flags = {nm: z3.Exists([i], z3.And(0 <= i, i < n, f(i) == ORDER[nm])) for nm in ORDER}
        ensure_return(I, lambda: I.call_repo("mro:Order.merge", [orders], {}), lambda I, r: isinstance(r, OrderV) and r.t == merge_spec(flags), "ensures.result_is_merge_spec")

    return w, thunk, {"property_clause": "Order.merge over any collection (any length) equals the case table on the set of occurring values"}


def t_merge_mirror():
    """Lemma: merge(opp[S]) = opp(merge(S)) (used for aliases and products). Pure z3."""
    w = TypesWorld()

    def thunk(I):
        fl = {nm: z3.Bool(f"b_{nm}") for nm in ORDER}
        sw = {"LESS": fl["MORE"], "MORE": fl["LESS"], "SAME": fl["SAME"], "NONE": fl["NONE"]}
        I.assume(z3.Or(*fl.values()))  # non-empty collection (merge of nothing is LESS both ways)
        I.require(merge_spec(sw) == opp(merge_spec(fl)), "lemma.merge_mirror")

    return w, thunk, {}


MIRROR_H = """
def mirror(t1, t2):
    r12 = typeorder(t1, t2)
    r21 = typeorder(t2, t1)
    assert r12 is r21.opposite()
"""

REFLEXIVE_H = """
def reflexive(t1):
    assert typeorder(t1, t1) is Order.SAME
"""

CLASSFRAG_H = """
def class_fragment(t1, t2):
    r = typeorder(t1, t2)
    if t1 == t2:
        assert r is Order.SAME
    elif issubclass(t1, t2) and issubclass(t2, t1):
        assert r is Order.SAME
    elif issubclass(t1, t2):
        assert r is Order.LESS
    elif issubclass(t2, t1):
        assert r is Order.MORE
    else:
        assert r is Order.NONE
"""


def _pair_consts():
    return TyV(z3.Const("t1", TyS)), TyV(z3.Const("t2", TyS))


def ih_mirror(t1, t2, restrict_outside):
    a, b = z3.Consts("a b", TyS)
    cond = rank(a) + rank(b) < rank(t1.t) + rank(t2.t)
    if restrict_outside:
        cond = z3.And(cond, z3.Not(z3.And(HOOKY(a), HOOKY(b))))
    return z3.ForAll([a, b], z3.Implies(cond, TO(a, b) == opp(TO(b, a))), patterns=[TO(a, b)])


TIMEOUT_MS = 8000
PLAIN = ["Class", "Alias", "Strict", "HasMethod", "ClassCheck"]
C12_KINDS = ["Class", "Alias", "Union", "Inter", "Exactly", "Strict", "HasMethod", "ClassCheck", "Equals", "FuncDep", "Product"]


def t_mirror(k1, k2, regime, unfold=1, variant=None):
    """typeorder/mirror[K1,K2]: TO(t1,t2) = opp(TO(t2,t1)) by induction on rank(t1)+rank(t2).

    regime 'outside': premise not(H(t1) and H(t2)) and the induction hypothesis restricted likewise
    (the complement of the F-mirror pattern);  regime 'relative': induction hypothesis for all smaller pairs."""

    def build():
        w = MroWorld(unfold=unfold, sc_unfold=0)
        t1, t2 = _pair_consts()

        def thunk(I):
            I.assume(kind(t1.t) == K[k1])
            I.assume(kind(t2.t) == K[k2])
            if regime == "outside":
                I.assume(z3.Not(z3.And(HOOKY(t1.t), HOOKY(t2.t))))
            I.assume(ih_mirror(t1, t2, regime == "outside"))
            if variant == "some_args":  # complement of the pattern of finding F-emptyalias
                I.assume(z3.Not(z3.And(nargs(t1.t) == 0, nargs(t2.t) == 0)))
            elif variant == "both_empty_args":
                I.assume(z3.And(nargs(t1.t) == 0, nargs(t2.t) == 0))
            elif variant == "plain_bases":
                I.assume(z3.And(is_kind(base(t1.t), PLAIN), is_kind(base(t2.t), PLAIN), base(t1.t) != base(t2.t)))
            elif variant == "same_base":
                I.assume(z3.And(is_kind(base(t1.t), PLAIN), base(t1.t) == base(t2.t), t1.t != t2.t))
            elif variant == "hooked_base":
                I.assume(z3.Not(z3.And(is_kind(base(t1.t), PLAIN), is_kind(base(t2.t), PLAIN))))
            harness(MIRROR_H, "mro")(I, t1, t2)

        return w, thunk, {"kinds": [k1, k2], "regime": regime, "unfold": unfold, "timeout_ms": TIMEOUT_MS, "fail_fast": True, "retry_factor": 1}

    return build


def t_reflexive(k1):
    def build():
        w = MroWorld()
        t1, _ = _pair_consts()

        def thunk(I):
            I.assume(kind(t1.t) == K[k1])
            harness(REFLEXIVE_H, "mro")(I, t1)

        return w, thunk, {"kinds": [k1]}

    return build


def t_class_fragment():
    w = MroWorld()
    t1, t2 = _pair_consts()

    def thunk(I):
        I.assume(kind(t1.t) == K["Class"])
        I.assume(kind(t2.t) == K["Class"])
        harness(CLASSFRAG_H, "mro")(I, t1, t2)

    return w, thunk, {"kinds": ["Class", "Class"]}


# --------------------------------------------------------------------------------------------------
# further clauses of C12 (each taken from the property statement)

ABOVE_H = """
def union_above_members(u, m):
    assert typeorder(u, m) is Order.MORE
    assert typeorder(m, u) is Order.LESS
"""

BELOW_H = """
def intersection_below_members(x, m):
    assert typeorder(x, m) is Order.LESS
    assert typeorder(m, x) is Order.MORE
"""

DEPBOUND_H = """
def dependent_below_bound(d, b):
    assert typeorder(d, b) is Order.LESS
    assert typeorder(b, d) is Order.MORE
"""

DEPREL_H = """
def dependent_below_relatives_of_its_bound(d, c):
    if subclasscheck(c, d.bound) or subclasscheck(d.bound, c):
        assert typeorder(d, c) is Order.LESS
        assert typeorder(c, d) is Order.MORE
"""

ALIAS_ORIGIN_H = """
def alias_origin(a, o):
    assert typeorder(a, o) is Order.LESS
    assert typeorder(o, a) is Order.MORE
"""

ALIAS_ARGWISE_H = """
def alias_argwise(a1, a2, expected):
    assert typeorder(a1, a2) is expected
"""


def reflexive_axiom():
    x = z3.Const("x", TyS)
    return z3.ForAll([x], TO(x, x) == SAME, patterns=[TO(x, x)])


def sc_reflexive_axiom():
    x = z3.Const("x", TyS)
    return z3.ForAll([x], SC(x, x), patterns=[SC(x, x)])


def t_member_clause(which, member_kinds, label):
    """union_above_members / intersection_below_members for members of the given kinds."""

    def build():
        w = MroWorld(unfold=1, sc_unfold=0)
        u = TyV(z3.Const("t1", TyS))
        j = z3.Int("j")

        def thunk(I):
            I.assume(kind(u.t) == K["Union" if which == "union" else "Inter"])
            I.assume(z3.And(0 <= j, j < nargs(u.t)))
            m = TyV(arg(u.t, j))
            I.assume(z3.Const("t2", TyS) == m.t)
            I.assume(is_kind(m.t, member_kinds))
            I.assume(reflexive_axiom())  # lemma typeorder/reflexive[*] (proved in the same run)
            harness(ABOVE_H if which == "union" else BELOW_H, "mro")(I, u, m)

        return w, thunk, {"clause": label, "member_kinds": member_kinds, "timeout_ms": TIMEOUT_MS, "retry_factor": 1, "fail_fast": True, "uses_lemmas": ["typeorder/reflexive"]}

    return build


def t_dependent_below_bound(k, bound_kinds):
    def build():
        w = MroWorld(unfold=1, sc_unfold=0)
        d = TyV(z3.Const("t1", TyS))

        def thunk(I):
            I.assume(kind(d.t) == K[k])
            b = TyV(base(d.t))
            I.assume(z3.Const("t2", TyS) == b.t)
            I.assume(is_kind(b.t, bound_kinds))
            I.assume(sc_reflexive_axiom())  # lemma subclasscheck/reflexive (first line of subclasscheck)
            harness(DEPBOUND_H, "mro")(I, d, b)

        return w, thunk, {"clause": "dependent_below_bound", "kinds": [k], "timeout_ms": TIMEOUT_MS, "retry_factor": 1, "fail_fast": True, "uses_lemmas": ["subclasscheck/reflexive"]}

    return build


def t_dependent_below_relatives(k, other_kinds=("Class",)):
    """C10: a value-dependent method is preferred over methods declared on the bound, on its SUBCLASSES and on its supertypes:
    typeorder(D, c) is LESS (and MORE the other way round) for every plain class c related to D's bound."""

    def build():
        w = MroWorld(unfold=1, sc_unfold=0)
        d, c = _pair_consts()

        def thunk(I):
            I.assume(kind(d.t) == K[k])
            I.assume(is_kind(c.t, list(other_kinds)))
            I.assume(is_kind(base(d.t), ["Class"]))
            I.assume(sc_reflexive_axiom())
            harness(DEPREL_H, "mro")(I, d, c)

        return w, thunk, {"clause": "dependent_below_relatives", "kinds": [k], "timeout_ms": TIMEOUT_MS, "retry_factor": 1, "fail_fast": False, "uses_lemmas": ["subclasscheck/reflexive"]}

    return build


def t_alias_origin():
    w = MroWorld(unfold=1, sc_unfold=0)
    a = TyV(z3.Const("t1", TyS))

    def thunk(I):
        I.assume(kind(a.t) == K["Alias"])
        o = TyV(base(a.t))
        I.assume(z3.Const("t2", TyS) == o.t)
        I.assume(reflexive_axiom())
        harness(ALIAS_ORIGIN_H, "mro")(I, a, o)

    return w, thunk, {"clause": "alias_origin", "timeout_ms": TIMEOUT_MS, "retry_factor": 1, "fail_fast": True, "uses_lemmas": ["typeorder/reflexive"]}


def t_alias_argwise():
    """Same origin, both parametrised with the same number (>0) of arguments: the order is the merge of the
    argument orders; different numbers of arguments: unrelated."""
    w = MroWorld(unfold=1, sc_unfold=0)
    a1, a2 = _pair_consts()

    def thunk(I):
        I.assume(kind(a1.t) == K["Alias"])
        I.assume(kind(a2.t) == K["Alias"])
        I.assume(base(a1.t) == base(a2.t))
        I.assume(a1.t != a2.t)
        I.assume(z3.And(nargs(a1.t) > 0, nargs(a2.t) > 0))
        I.assume(reflexive_axiom())
        i = z3.Int("i")
        n = nargs(a1.t)
        flags = {nm: z3.Exists([i], z3.And(0 <= i, i < n, TO(arg(a1.t, i), arg(a2.t, i)) == ORDER[nm])) for nm in ORDER}
        expected = z3.If(nargs(a1.t) != nargs(a2.t), NONE, merge_spec(flags))
        harness(ALIAS_ARGWISE_H, "mro")(I, a1, a2, OrderV(expected))

    return w, thunk, {"clause": "alias_argwise", "timeout_ms": TIMEOUT_MS, "retry_factor": 1, "fail_fast": True, "uses_lemmas": ["typeorder/reflexive", "Order.merge/ensures"]}


# --------------------------------------------------------------------------------------------------
# C13: subclasscheck against the documented meaning of each (non value-dependent) kind of type

from .universe import ISSUB, ccheck, hasmeth, metacls, pval  # noqa: E402

SC_MEANING_H = """
def meaning(c, T, expected):
    assert subclasscheck(c, T) == expected
"""

SC_REFL_H = """
def reflexive(t1):
    assert subclasscheck(t1, t1) == True
"""


def sc_meaning(c, T, k):
    i = z3.Int("i")
    n = nargs(T)
    if k == "Class":
        return sub(c, T)
    if k == "Union":
        return z3.Exists([i], z3.And(0 <= i, i < n, SC(c, arg(T, i))))
    if k == "Inter":
        return z3.ForAll([i], z3.Implies(z3.And(0 <= i, i < n), SC(c, arg(T, i))))
    if k == "Exactly":
        return c == base(T)
    if k == "Strict":
        return z3.And(ISSUB(c, base(T)), c != base(T))
    if k == "HasMethod":
        return hasmeth(c, pval(T, 0))
    if k == "ClassCheck":
        return ccheck(T, c)
    raise KeyError(k)


C13_KINDS = ["Class", "Union", "Inter", "Exactly", "Strict", "HasMethod", "ClassCheck"]


def t_sc_meaning(k):
    """subclasscheck/meaning[K]: for a plain class c and a type T of kind K, subclasscheck(c, T) is the
    documented meaning of T applied to c (members through the spec function SC, i.e. the induction
    hypothesis for the strictly smaller component types)."""

    def build():
        w = MroWorld(unfold=0, sc_unfold=1)
        c, T = _pair_consts()

        def thunk(I):
            I.assume(kind(c.t) == K["Class"])
            I.assume(kind(T.t) == K[k])
            I.assume(c.t != T.t)
            harness(SC_MEANING_H, "mro")(I, c, T, ZV(sc_meaning(c.t, T.t, k), "bool"))

        return w, thunk, {"kinds": ["Class", k], "clause": "meaning", "timeout_ms": TIMEOUT_MS, "retry_factor": 1, "fail_fast": True}

    return build


def t_sc_reflexive(k):
    def build():
        w = MroWorld(unfold=0, sc_unfold=1)
        t1, _ = _pair_consts()

        def thunk(I):
            I.assume(kind(t1.t) == K[k])
            harness(SC_REFL_H, "mro")(I, t1)

        return w, thunk, {"kinds": [k], "timeout_ms": TIMEOUT_MS, "retry_factor": 1, "fail_fast": True}

    return build


def t_sc_alias_covariant():
    """subclasscheck(o1[a...], o2[b...])  <=>  issubclass(o1, o2) and len(a) == len(b) and all subclasscheck(a_i, b_i)."""
    w = MroWorld(unfold=0, sc_unfold=1)
    a1, a2 = _pair_consts()

    def thunk(I):
        I.assume(kind(a1.t) == K["Alias"])
        I.assume(kind(a2.t) == K["Alias"])
        I.assume(a1.t != a2.t)
        i = z3.Int("i")
        n = nargs(a1.t)
        exp = z3.And(sub(base(a1.t), base(a2.t)), nargs(a1.t) == nargs(a2.t), z3.ForAll([i], z3.Implies(z3.And(0 <= i, i < n), SC(arg(a1.t, i), arg(a2.t, i)))))
        harness(SC_MEANING_H, "mro")(I, a1, a2, ZV(exp, "bool"))

    return w, thunk, {"kinds": ["Alias", "Alias"], "clause": "alias_covariant", "timeout_ms": TIMEOUT_MS, "retry_factor": 1, "fail_fast": True}


def t_sc_class_vs_alias():
    """a plain class is never a subtype of a parametrised generic with arguments; a parametrised generic is a
    subtype of a plain class exactly when its origin is a subclass of it."""
    w = MroWorld(unfold=0, sc_unfold=1)
    c, T = _pair_consts()

    SRC = """
def class_vs_alias(c, T, e1, e2):
    assert subclasscheck(c, T) == e1
    assert subclasscheck(T, c) == e2
"""

    def thunk(I):
        I.assume(kind(c.t) == K["Class"])
        I.assume(kind(T.t) == K["Alias"])
        I.assume(nargs(T.t) > 0)
        harness(SRC, "mro")(I, c, T, False, ZV(sub(base(T.t), c.t), "bool"))

    return w, thunk, {"kinds": ["Class", "Alias"], "clause": "class_vs_alias", "timeout_ms": TIMEOUT_MS, "retry_factor": 1, "fail_fast": True}


def t_sc_transitive_fragment():
    """Lemma over the contracts above (pure z3, induction on total rank): on the class / generic fragment
    subclasscheck is transitive."""
    w = TypesWorld()

    def thunk(I):
        a, b, c = z3.Consts("t1 t2 t3", TyS)
        x, y = z3.Consts("x y", TyS)
        i = z3.Int("i")
        frag = lambda t: is_kind(t, ["Class", "Alias"])
        # characterisation of SC on the fragment = the proved obligations class_fragment / alias_covariant / class_vs_alias / reflexive
        char = z3.ForAll(
            [x, y],
            z3.Implies(
                z3.And(frag(x), frag(y)),
                SC(x, y)
                == z3.If(
                    x == y,
                    True,
                    z3.If(
                        z3.And(kind(x) == K["Class"], kind(y) == K["Class"]),
                        sub(x, y),
                        z3.If(
                            z3.And(kind(x) == K["Alias"], kind(y) == K["Alias"]),
                            z3.And(sub(base(x), base(y)), nargs(x) == nargs(y), z3.ForAll([i], z3.Implies(z3.And(0 <= i, i < nargs(x)), SC(arg(x, i), arg(y, i))))),
                            z3.If(kind(x) == K["Alias"], sub(base(x), y), z3.And(nargs(y) == 0, sub(x, base(y)))),
                        ),
                    ),
                ),
            ),
            patterns=[SC(x, y)],
        )
        I.assume(char)
        for t in (a, b, c):
            I.assume(frag(t))
        # arguments of aliases in the fragment are in the fragment (hereditarily class/generic types)
        I.assume(z3.ForAll([x, i], z3.Implies(z3.And(kind(x) == K["Alias"], 0 <= i, i < nargs(x)), frag(arg(x, i))), patterns=[arg(x, i)]))
        # induction hypothesis: transitivity for triples of strictly smaller total rank
        p, q, r = z3.Consts("p q r", TyS)
        I.assume(z3.ForAll([p, q, r], z3.Implies(z3.And(frag(p), frag(q), frag(r), rank(p) + rank(q) + rank(r) < rank(a) + rank(b) + rank(c), SC(p, q), SC(q, r)), SC(p, r)), patterns=[z3.MultiPattern(SC(p, q), SC(q, r))]))
        I.assume(z3.And(SC(a, b), SC(b, c)))
        # zero-argument aliases (tuple[()]) are the F-emptyalias corner; excluded here as there
        for t in (a, b, c):
            I.assume(z3.Implies(kind(t) == K["Alias"], nargs(t) > 0))
        I.require(SC(a, c), "lemma.transitive_on_class_generic_fragment")

    return w, thunk, {"clause": "transitive", "timeout_ms": 20000, "uses_lemmas": ["subclasscheck/class_fragment", "subclasscheck/alias_covariant", "subclasscheck/class_vs_alias", "subclasscheck/reflexive"]}


# --------------------------------------------------------------------------------------------------
# == on type objects: the real __eq__ bodies agree with identity of type terms (justifies the
# extensionality axioms of the universe; C15 "equivalent spellings" and the dict/set keys of the tables)


def _components_equal(a, b):
    i = z3.Int("i")
    return z3.And(
        kind(a) == kind(b),
        metacls(a) == metacls(b),
        z3.Implies(is_kind(a, ["Union", "Inter", "Product"]), z3.And(nargs(a) == nargs(b), z3.ForAll([i], z3.Implies(z3.And(0 <= i, i < nargs(a)), arg(a, i) == arg(b, i))))),
        z3.Implies(is_kind(a, ["Equals", "FuncDep", "HasMethod"]), z3.And(nargs(a) == nargs(b), z3.ForAll([i], z3.Implies(z3.And(0 <= i, i < nargs(a)), pval(a, i) == pval(b, i))))),
        z3.Implies(is_kind(a, ["Exactly", "Strict", "Equals", "FuncDep", "Product"]), base(a) == base(b)),
        z3.Implies(kind(a) == K["ClassCheck"], a == b),  # a class_check type is identified by its predicate object
    )


def t_eq_sound(k1, k2):
    """t1 == t2 (through the real __eq__ bodies, dispatched as CPython does) implies that the two types are of
    the same kind with equal components - so equal types are interchangeable as table keys - and == is symmetric."""

    def build():
        w = MroWorld(unfold=0, sc_unfold=0)
        t1, t2 = _pair_consts()

        def thunk(I):
            I.assume(kind(t1.t) == K[k1])
            I.assume(kind(t2.t) == K[k2])
            r = w.python_eq(I, t1, t2)
            r = z3.BoolVal(r) if isinstance(r, bool) else r
            I.require(z3.Implies(r, z3.Or(t1.t == t2.t, _components_equal(t1.t, t2.t))), "eq_implies_same_kind_and_components")
            r2 = w.python_eq(I, t2, t1)
            r2 = z3.BoolVal(r2) if isinstance(r2, bool) else r2
            I.require(r == r2, "eq_symmetric")
            if k1 == k2:
                I.require(z3.Implies(t1.t == t2.t, r), "eq_reflexive")
                if k1 in ("Union", "Inter", "Product", "Equals", "FuncDep"):
                    I.require(z3.Implies(_components_equal(t1.t, t2.t), r), "eq_complete_on_equal_components")

        return w, thunk, {"kinds": [k1, k2], "clause": "eq", "timeout_ms": TIMEOUT_MS, "retry_factor": 1, "fail_fast": True}

    return build


# --------------------------------------------------------------------------------------------------
# C10: value-dependent types at the type level


def t_sc_dependent(k):
    """A value-dependent type is applicable at the type level exactly when its bound is: for a non-dependent
    type c, subclasscheck(c, T) == SC(c, bound(T)); no dependent type is a subtype of another."""

    def build():
        w = MroWorld(unfold=0, sc_unfold=1)
        c, T = _pair_consts()

        def thunk(I):
            I.assume(kind(T.t) == K[k])
            I.assume(c.t != T.t)
            I.assume(z3.Not(is_kind(c.t, ["Union", "Inter", "Exactly", "Strict", "HasMethod", "ClassCheck", "PyUnion"])))  # c: a class, a generic or another dependent type
            exp = z3.If(is_kind(c.t, DEP), z3.BoolVal(False), SC(c.t, base(T.t)))
            harness(SC_MEANING_H, "mro")(I, c, T, ZV(exp, "bool"))

        return w, thunk, {"kinds": ["*", k], "clause": "dependent_applicable_iff_bound", "timeout_ms": TIMEOUT_MS, "retry_factor": 1, "fail_fast": True}

    return build


def t_dep_instancecheck():
    """DependentType.__instancecheck__: isinstance(v, T) == isinstance(v, bound) and check(v), and the user's
    check is evaluated only on a path where isinstance(v, bound) holds (short-circuit)."""
    from pyvc.interp import Builtin, SymObj
    from pyvc.world import World

    w = World()
    w.inline("dependent:DependentType.__instancecheck__")
    w.is_singleton = lambda I, z, other: False
    inb = z3.Bool("isinstance_v_bound")
    chk = z3.Bool("check_v")
    st = {}

    class DT(SymObj):
        def py_getattr(self, I, name):
            if name == "bound":
                return "BOUND"
            if name == "check":

                def check(I, v):
                    st["check_pc"] = list(I.path.pc)
                    I.require(inb, "user_check_evaluated_only_under_isinstance_of_bound")
                    return ZV(chk, "bool")

                return Builtin("check", check)
            raise OutOfSubset(name)

    w.isinstance_ = lambda I, x, cls: inb if cls == "BOUND" else (_ for _ in ()).throw(OutOfSubset("isinstance"))

    def thunk(I):
        r = I.call_repo("dependent:DependentType.__instancecheck__", [DT(), "VALUE"], {})
        t = I.truth(r)
        t = z3.BoolVal(t) if isinstance(t, bool) else t
        I.require(t == z3.And(inb, chk), "instancecheck_is_bound_and_condition")

    return w, thunk, {"clause": "instancecheck"}


# --------------------------------------------------------------------------------------------------
# C14: types passed as arguments

from .universe import TUPLE, TYPING_ALIAS  # noqa: E402

MKTYPE = z3.Function("type_alias_of", TyS, TyS)  # type[X]
ANYT = z3.Const("typing_Any", TyS)
typeof = z3.Function("typeof", z3.DeclareSort("Val"), TyS)
ValS = typeof.domain(0)
val_has_origin = z3.Function("val_has_origin_attr", ValS, z3.BoolSort())


def mktype_axioms():
    x = z3.Const("x", TyS)
    return [
        z3.ForAll([x], z3.And(kind(MKTYPE(x)) == K["Alias"], base(MKTYPE(x)) == TYPE, nargs(MKTYPE(x)) == 1, arg(MKTYPE(x), 0) == x, z3.Not(TYPING_ALIAS(MKTYPE(x)))), patterns=[MKTYPE(x)]),
        kind(ANYT) == K["Class"],
        z3.Distinct(ANYT, OBJECT, TYPE, TUPLE),
    ]


def t_subtler_type():
    """utils.subtler_type: type[obj] for a generic alias, a typing union or a class; type[object] for typing.Any;
    type(obj) for every other value (so ordinary arguments keep dispatching on their class)."""
    from pyvc.interp import Builtin, SymObj
    from pyvc.world import ModuleV, PyClassToken

    class ValV(ZV):
        def __init__(self, t, k="val"):
            super().__init__(t, "val")

        def py_hasattr(self, I, name):
            if name == "__origin__":
                return val_has_origin(self.t)
            raise OutOfSubset(f"hasattr(value, {name})")

        def py_isinstance(self, I, cls):
            if isinstance(cls, PyClassToken) and cls.name == "type":
                return False
            return NotImplemented

    MC_TYPE = z3.Const("MC_TYPE", metacls.range())  # the metaclass `type` itself; a class may have any metaclass (ABCMeta, EnumMeta, ...)

    class MetaV(SymObj):
        """type(obj) of a type object: its metaclass (`type` for ordinary classes, ABCMeta / EnumMeta / ... or an ovld
        metaclass otherwise; types.UnionType / typing's alias classes for unions and aliases)."""

        def __init__(self, t):
            self.t = t

        def py_is(self, I, other):
            if isinstance(other, PyClassToken) and other.name == "type":
                return z3.And(metacls(self.t) == MC_TYPE, kind(self.t) == K["Class"])
            if isinstance(other, MetaV):
                return metacls(self.t) == metacls(other.t)
            return False

        py_eq = py_is

    class ValTypeV(TyV):
        """type(v) of an ordinary (non-class) value: never `type` itself (an instance of `type` is a class)."""

        def py_is(self, I, other):
            if isinstance(other, PyClassToken) and other.name == "type":
                return False
            return NotImplemented

    class UnionTypesTok(SymObj):
        def py_contains(self, I, x):
            if isinstance(x, MetaV):
                return kind(x.t) == K["PyUnion"]
            if isinstance(x, TyV):
                return False  # the members of UnionTypes are not types of the universe (typing.Union itself is handled by the normaliser)
            raise OutOfSubset("membership in UnionTypes")

        def py_iter(self, I):
            # `(GenericAlias, *UnionTypes)`: the members of the tuple are only ever used as the class argument of isinstance,
            # where the token stands for "one of the union type classes"
            return [self]

    UNIONTYPES = UnionTypesTok()

    class W(MroWorld):
        def __init__(self):
            super().__init__(unfold=0, sc_unfold=0)
            self.axiom(lambda I: mktype_axioms())
            self.axiom(lambda I: [metacls(ANYT) != MC_TYPE])  # typing.Any: class with metaclass _AnyMeta (3.11+) / a _SpecialForm instance
            self.inline("utils:subtler_type", "utils:GenericAliasMC.__instancecheck__")
            self.set_global("utils", "typing", ModuleV("typing", {"Any": TyV(ANYT)}))
            self.set_global("utils", "UnionTypes", UNIONTYPES)

        def isinstance_(self, I, x, cls):
            from pyvc.interp import RepoClass

            if isinstance(cls, RepoClass) and cls.qual == "utils:GenericAlias":
                return I.truth(I.call_repo("utils:GenericAliasMC.__instancecheck__", [cls, x], {}))
            if cls is UNIONTYPES:
                return kind(x.t) == K["PyUnion"] if isinstance(x, TyV) else False
            return super().isinstance_(I, x, cls)

        def class_getitem(self, I, cls, key):
            if isinstance(cls, PyClassToken) and cls.name == "type":
                t = self.as_ty(I, key)
                return TyV(MKTYPE(t.t))
            raise OutOfSubset("class_getitem")

        def type_of(self, I, x):
            if isinstance(x, ValV):
                return ValTypeV(typeof(x.t))
            if isinstance(x, TyV):
                return MetaV(x.t)
            return super().type_of(I, x)

    def build_for(which):
        def build():
            w = W()

            def thunk(I):
                if which == "type_object":
                    obj = TyV(z3.Const("t1", TyS))
                    I.assume(obj.t != ANYT)
                    want = MKTYPE(obj.t)
                elif which == "any":
                    obj = TyV(ANYT)
                    want = MKTYPE(OBJECT)
                else:
                    obj = ValV(z3.Const("v", ValS))
                    I.assume(z3.Not(val_has_origin(obj.t)))  # ordinary values carry no __origin__ attribute
                    want = typeof(obj.t)
                ensure_return(I, lambda: I.call_repo("utils:subtler_type", [obj], {}), lambda I, r: isinstance(r, TyV) and r.t == want, f"ensures.{which}")

            return w, thunk, {"clause": f"subtler_type[{which}]", "timeout_ms": TIMEOUT_MS, "fail_fast": True}

        return build

    return {k: build_for(k) for k in ("type_object", "any", "value")}


def t_type_alias_rows():
    """Lemma over the contracts alias_covariant (C13), alias_argwise / alias_origin / class_fragment (C12) and
    Order.merge: type[X] <= type[T] iff X <= T; the order of type[A] and type[B] is the order of A and B; type[A] is
    LESS than object and than bare type's normal form type[object] when A is a proper subtype of object."""
    w = TypesWorld()

    def thunk(I):
        I.assume(mktype_axioms())
        X, T_ = z3.Consts("t1 t2", TyS)
        a, b = MKTYPE(X), MKTYPE(T_)
        i = z3.Int("i")
        x, y = z3.Consts("x y", TyS)
        # alias_covariant
        I.assume(z3.ForAll([x, y], z3.Implies(z3.And(kind(x) == K["Alias"], kind(y) == K["Alias"], x != y), SC(x, y) == z3.And(sub(base(x), base(y)), nargs(x) == nargs(y), z3.ForAll([i], z3.Implies(z3.And(0 <= i, i < nargs(x)), SC(arg(x, i), arg(y, i)))))), patterns=[SC(x, y)]))
        I.assume(z3.ForAll([x], SC(x, x), patterns=[SC(x, x)]))
        I.assume(X != T_)
        I.require(a != b, "lemma.type_alias_injective")
        I.require(SC(a, b) == SC(X, T_), "lemma.type_of_X_is_subtype_of_type_of_T_iff_X_subtype_of_T")
        # alias_argwise with one argument: merge of a singleton is the element
        flags = {nm: TO(X, T_) == ORDER[nm] for nm in ORDER}
        I.assume(z3.ForAll([x, y], z3.Implies(z3.And(kind(x) == K["Alias"], kind(y) == K["Alias"], x != y, base(x) == base(y), nargs(x) == 1, nargs(y) == 1), TO(x, y) == merge_spec({nm: TO(arg(x, 0), arg(y, 0)) == ORDER[nm] for nm in ORDER})), patterns=[TO(x, y)]))
        I.require(TO(a, b) == TO(X, T_), "lemma.order_of_type_aliases_follows_the_order_of_their_arguments")
        # alias vs plain class: the order of the origin `type` against the class, SAME turned into LESS
        I.assume(z3.ForAll([x, y], z3.Implies(z3.And(kind(x) == K["Alias"], kind(y) == K["Class"]), TO(x, y) == z3.If(TO(base(x), y) == SAME, LESS, TO(base(x), y))), patterns=[TO(x, y)]))
        I.assume(z3.And(TO(TYPE, OBJECT) == LESS))  # class fragment: type is a proper subclass of object
        I.require(TO(a, OBJECT) == LESS, "lemma.type_alias_is_more_specific_than_object")

    return w, thunk, {"uses_lemmas": ["subclasscheck/alias_covariant", "typeorder/alias_argwise", "typeorder/alias_origin", "typeorder/class_fragment", "Order.merge"], "timeout_ms": 10000}


# --------------------------------------------------------------------------------------------------
# C15: the observers of a Union / Intersection do not depend on the order of its members

PERM_H = """
def perm_invariant(u1, u2, other):
    assert typeorder(u1, other) is typeorder(u2, other)
    assert typeorder(other, u1) is typeorder(other, u2)
    assert subclasscheck(other, u1) == subclasscheck(other, u2)
"""


def t_perm_invariant(k):
    def build():
        w = MroWorld(unfold=1, sc_unfold=1)
        u1, u2 = _pair_consts()
        other = TyV(z3.Const("t3", TyS))

        def thunk(I):
            I.assume(kind(u1.t) == K[k])
            I.assume(kind(u2.t) == K[k])
            I.assume(is_kind(other.t, ["Class", "Alias"]))  # a type without an order hook of its own
            x = z3.Const("x", TyS)
            i, j = z3.Ints("i j")
            # same members, any order / multiplicity (skolemised: every member of one occurs somewhere in the other)
            p12 = z3.Function("p12", z3.IntSort(), z3.IntSort())
            p21 = z3.Function("p21", z3.IntSort(), z3.IntSort())
            I.assume(z3.ForAll([i], z3.Implies(z3.And(0 <= i, i < nargs(u1.t)), z3.And(0 <= p12(i), p12(i) < nargs(u2.t), arg(u2.t, p12(i)) == arg(u1.t, i))), patterns=[arg(u1.t, i)]))
            I.assume(z3.ForAll([j], z3.Implies(z3.And(0 <= j, j < nargs(u2.t)), z3.And(0 <= p21(j), p21(j) < nargs(u1.t), arg(u1.t, p21(j)) == arg(u2.t, j))), patterns=[arg(u2.t, j)]))
            I.assume(z3.And(u1.t != other.t, u2.t != other.t))
            harness(PERM_H, "mro")(I, u1, u2, other)

        return w, thunk, {"kinds": [k, k], "clause": "members_order_irrelevant", "timeout_ms": TIMEOUT_MS, "retry_factor": 1, "fail_fast": True}

    return build


def t_funcdep_lt():
    """FuncDependentType.__lt__ (the order of two value-dependent types of one family with wildcard parameters):
    a < b  iff  they have the same number of parameters, b has a wildcard (typing.Any) somewhere a has a value, and a has
    no wildcard where b has a value.  Crossing wildcards therefore leave the two UNORDERED (C10: both methods apply ->
    ambiguity error, never a silent choice)."""
    from .universe import ANY, pval

    w = MroWorld(unfold=0, sc_unfold=0)
    w.inline("dependent:FuncDependentType.__lt__")

    def thunk(I):
        a, b = z3.Consts("t1 t2", TyS)
        I.assume(z3.And(kind(a) == K["FuncDep"], kind(b) == K["FuncDep"], nargs(a) >= 0, nargs(b) >= 0))
        r = I.truth(I.call_repo("dependent:FuncDependentType.__lt__", [TyV(a), TyV(b)], {}))
        r = z3.BoolVal(r) if isinstance(r, bool) else r
        i = z3.Int("wi")
        wild = lambda t, j: pval(t, j) == ANY
        b_more_general = z3.Exists([i], z3.And(0 <= i, i < nargs(a), wild(b, i), z3.Not(wild(a, i))))
        a_more_general = z3.Exists([i], z3.And(0 <= i, i < nargs(a), wild(a, i), z3.Not(wild(b, i))))
        I.require(r == z3.And(nargs(a) == nargs(b), b_more_general, z3.Not(a_more_general)), "less_iff_the_other_has_strictly_more_wildcards_positionwise")

    return w, thunk, {"timeout_ms": TIMEOUT_MS, "fail_fast": True}
