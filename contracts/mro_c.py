"""Contracts and lemma tasks for src/ovld/mro.py (Order, typeorder, subclasscheck) and the hooks in
types.py / dependent.py they route to.  Properties: C12, C13, C14 (and the mirror premise of C06)."""
import z3

from pyvc import source
from pyvc.interp import LoopSpec, OutOfSubset, Stream, SymSeq, ZV
from pyvc.verify import ensure_return, harness

from .universe import (
    ANY,
    CONTAINER,
    DEP,
    HOOKY,
    K,
    KIND_NAMES,
    LESS,
    METAMC,
    MORE,
    NONE,
    OBJECT,
    ORDER,
    SAME,
    SC,
    TO,
    TROUBLE,
    TYPE,
    EnumSet,
    ObjV,
    OrderS,
    OrderV,
    TyS,
    TyV,
    TypesWorld,
    arg,
    base,
    is_kind,
    kind,
    nargs,
    opp,
    rank,
    sub,
)

HOOK_BODIES = [
    "types:MetaMC.__type_order__",
    "types:MetaMC.__is_supertype__",
    "types:MetaMC.__is_subtype__",
    "types:MetaMC.__subclasscheck__",
    "types:MetaMC.__instancecheck__",
    "types:SingleFunctionHandler.__type_order__",
    "types:SingleFunctionHandler.__is_supertype__",
    "types:SingleFunctionHandler.__is_subtype__",
    "types:SingleFunctionHandler.__subclasscheck__",
    "types:Union.__type_order__",
    "types:Union.__is_supertype__",
    "types:Union.__is_subtype__",
    "types:Union.__subclasscheck__",
    "types:Intersection.__type_order__",
    "types:Intersection.__is_supertype__",
    "types:Intersection.__is_subtype__",
    "types:Intersection.__subclasscheck__",
    "types:Exactly",
    "types:StrictSubclass",
    "types:HasMethod",
    "dependent:DependentType.__type_order__",
    "dependent:DependentType.__is_supertype__",
    "dependent:DependentType.__lt__",
    "dependent:FuncDependentType.__lt__",
    "dependent:ProductType.__type_order__",
]


def merge_spec(flags):
    """Order.merge as a function of which values occur (A.1 of DESIGN)."""
    l, m, s, n = flags["LESS"], flags["MORE"], flags["SAME"], flags["NONE"]
    return z3.If(
        z3.And(s, z3.Not(l), z3.Not(m), z3.Not(n)),
        SAME,
        z3.If(z3.And(z3.Not(m), z3.Not(n)), LESS, z3.If(z3.And(z3.Not(l), z3.Not(n)), MORE, NONE)),
    )


def measure(a, b):
    flag = z3.If(z3.And(kind(b) == K["Alias"], kind(a) != K["Alias"]), 1, 0)
    return rank(a) + rank(b), flag


class MroWorld(TypesWorld):
    """TypesWorld + callee contracts of mro.py: typeorder/subclasscheck are unfolded `unfold` levels deep,
    below that they are the spec functions TO / SC (with a decreases obligation at every such call)."""

    def __init__(self, unfold=1, sc_unfold=1, use_ext=True):
        super().__init__(use_ext=use_ext)
        self.unfold = unfold
        self.sc_unfold = sc_unfold
        self.inline(*HOOK_BODIES)
        self.contract("mro:typeorder", self.typeorder_model)
        self.contract("mro:subclasscheck", self.subclasscheck_model)
        self.contract("mro:Order.opposite", self.opposite_model)
        self.contract("mro:Order.merge", self.merge_model)
        self.set_global("types", "hasattr", None)
        del self._globals[("types", "hasattr")]
        self.trusted += [
            "routing table of contracts/universe.py (hasattr / attribute / issubclass / get_origin per kind), checked natively by native/conformance.py",
            "user-supplied class predicates (class_check) and hasattr(cls, name) are pure and total",
        ]

    # -- contracts --------------------------------------------------------------------------
    def opposite_model(self, I, args, kwargs):
        (x,) = args
        if not isinstance(x, OrderV):
            raise OutOfSubset("opposite() of a non-Order value")
        return OrderV(opp(x.t))

    def merge_model(self, I, args, kwargs):
        (orders,) = args
        s = self.make_set(I, I.iterable(orders))
        return OrderV(merge_spec(s.flags))

    def _caller_measure(self, I):
        for fr in reversed(I.frames):
            if fr.qual in ("mro:typeorder", "mro:subclasscheck"):
                a, b = fr.env.get("t1"), fr.env.get("t2")
                m = getattr(fr, "entry_args", None)
                if m is not None:
                    a, b = m
                if isinstance(a, TyV) and isinstance(b, TyV):
                    return measure(a.t, b.t)
        return None

    def _decreases(self, I, a, b, what):
        cm = self._caller_measure(I)
        if cm is None:
            return
        (r0, f0), (r1, f1) = cm, measure(a.t, b.t)
        I.require(z3.Or(r1 < r0, z3.And(r1 == r0, f1 < f0)), f"{what}.decreases")

    def typeorder_model(self, I, args, kwargs):
        a, b = args
        if not (isinstance(a, TyV) and isinstance(b, TyV)):
            a, b = self.as_ty(I, a), self.as_ty(I, b)
        active = sum(1 for fr in I.frames if fr.qual == "mro:typeorder")
        if active < self.unfold and not I.pure and not I.path.binders:
            r = self._exec(I, "mro:typeorder", a, b)
            if not isinstance(r, OrderV):
                I.require(False, "typeorder.returns_an_Order", fn="mro:typeorder")
                raise OutOfSubset("typeorder returned a non-Order value")
            I.assume(TO(a.t, b.t) == r.t)  # definitional unfolding of the spec function
            return r
        self._decreases(I, a, b, "typeorder")
        return OrderV(TO(a.t, b.t))

    def subclasscheck_model(self, I, args, kwargs):
        a, b = args
        a, b = self.as_ty(I, a), self.as_ty(I, b)
        active = sum(1 for fr in I.frames if fr.qual == "mro:subclasscheck")
        if active < self.sc_unfold and not I.pure and not I.path.binders:
            r = self._exec(I, "mro:subclasscheck", a, b)
            t = I.truth(r)
            t = z3.BoolVal(t) if isinstance(t, bool) else t
            I.assume(SC(a.t, b.t) == t)
            return ZV(t, "bool")
        self._decreases(I, a, b, "subclasscheck")
        return ZV(SC(a.t, b.t), "bool")

    def _exec(self, I, qual, a, b):
        node = source.function(qual)
        orig_push = I.frames.append
        r = I.exec_function(node, "mro", qual, [a, b], {}, preset=None)
        return r

    def as_ty(self, I, v):
        if isinstance(v, TyV):
            return v
        t = self.term_of(I, v)
        if t is not None:
            return TyV(t)
        if hasattr(v, "as_type"):
            return v.as_type()
        raise OutOfSubset(f"not a type: {v!r}")

    def describe_model(self, I, m):
        out = []
        try:
            for nm in ("t1", "t2", "t3", "c", "T"):
                c = z3.Const(nm, TyS)
                out.append(f"{nm}: kind={m.eval(kind(c), model_completion=True)} rank={m.eval(rank(c), model_completion=True)} nargs={m.eval(nargs(c), model_completion=True)}")
        except Exception:
            pass
        return "; ".join(out) + " || " + super().describe_model(I, m)[:1500]


# --------------------------------------------------------------------------------------------------
# tasks


def t_opposite():
    w = TypesWorld()
    w.inline("mro:Order.opposite")

    def thunk(I):
        x = OrderV(I.fresh("x", OrderS))
        ensure_return(I, lambda: I.call_repo("mro:Order.opposite", [x], {}), lambda I, r: isinstance(r, OrderV) and r.t == opp(x.t), "ensures.result_is_opp")
        return None

    return w, thunk, {"property_clause": "Order.opposite: LESS<->MORE, SAME/NONE fixed (involution)"}


def t_merge():
    w = TypesWorld()
    w.inline("mro:Order.merge")

    def thunk(I):
        n = I.fresh("n", z3.IntSort())
        f = I.fresh_fn("ord", [z3.IntSort()], OrderS)
        I.assume(n >= 0)
        orders = SymSeq(n, lambda i: OrderV(f(i)), "orders").stream(I)
        i = z3.Int("i")
        flags = {nm: z3.Exists([i], z3.And(0 <= i, i < n, f(i) == ORDER[nm])) for nm in ORDER}
        ensure_return(I, lambda: I.call_repo("mro:Order.merge", [orders], {}), lambda I, r: isinstance(r, OrderV) and r.t == merge_spec(flags), "ensures.result_is_merge_spec")

    return w, thunk, {"property_clause": "Order.merge over any collection (any length) equals the case table on the set of occurring values"}


def t_merge_mirror():
    """Lemma: merge(opp[S]) = opp(merge(S)) (used for aliases and products). Pure z3."""
    w = TypesWorld()

    def thunk(I):
        fl = {nm: z3.Bool(f"b_{nm}") for nm in ORDER}
        sw = {"LESS": fl["MORE"], "MORE": fl["LESS"], "SAME": fl["SAME"], "NONE": fl["NONE"]}
        I.assume(z3.Or(*fl.values()))  # non-empty collection (merge of nothing is LESS both ways)
        I.require(merge_spec(sw) == opp(merge_spec(fl)), "lemma.merge_mirror")

    return w, thunk, {}


MIRROR_H = """
def mirror(t1, t2):
    r12 = typeorder(t1, t2)
    r21 = typeorder(t2, t1)
    assert r12 is r21.opposite()
"""

REFLEXIVE_H = """
def reflexive(t1):
    assert typeorder(t1, t1) is Order.SAME
"""

CLASSFRAG_H = """
def class_fragment(t1, t2):
    r = typeorder(t1, t2)
    if t1 == t2:
        assert r is Order.SAME
    elif issubclass(t1, t2) and issubclass(t2, t1):
        assert r is Order.SAME
    elif issubclass(t1, t2):
        assert r is Order.LESS
    elif issubclass(t2, t1):
        assert r is Order.MORE
    else:
        assert r is Order.NONE
"""


def _pair_consts():
    return TyV(z3.Const("t1", TyS)), TyV(z3.Const("t2", TyS))


def ih_mirror(t1, t2, restrict_outside):
    a, b = z3.Consts("a b", TyS)
    cond = rank(a) + rank(b) < rank(t1.t) + rank(t2.t)
    if restrict_outside:
        cond = z3.And(cond, z3.Not(z3.And(HOOKY(a), HOOKY(b))))
    return z3.ForAll([a, b], z3.Implies(cond, TO(a, b) == opp(TO(b, a))), patterns=[TO(a, b)])


TIMEOUT_MS = 8000
PLAIN = ["Class", "Alias", "Strict", "HasMethod", "ClassCheck"]
C12_KINDS = ["Class", "Alias", "Union", "Inter", "Exactly", "Strict", "HasMethod", "ClassCheck", "Equals", "FuncDep", "Product"]


def t_mirror(k1, k2, regime, unfold=1, variant=None):
    """typeorder/mirror[K1,K2]: TO(t1,t2) = opp(TO(t2,t1)) by induction on rank(t1)+rank(t2).

    regime 'outside': premise not(H(t1) and H(t2)) and the induction hypothesis restricted likewise
    (the complement of the F-mirror pattern);  regime 'relative': induction hypothesis for all smaller pairs."""

    def build():
        w = MroWorld(unfold=unfold, sc_unfold=0)
        t1, t2 = _pair_consts()

        def thunk(I):
            I.assume(kind(t1.t) == K[k1])
            I.assume(kind(t2.t) == K[k2])
            if regime == "outside":
                I.assume(z3.Not(z3.And(HOOKY(t1.t), HOOKY(t2.t))))
            I.assume(ih_mirror(t1, t2, regime == "outside"))
            if variant == "some_args":  # complement of the pattern of finding F-emptyalias
                I.assume(z3.Not(z3.And(nargs(t1.t) == 0, nargs(t2.t) == 0)))
            elif variant == "both_empty_args":
                I.assume(z3.And(nargs(t1.t) == 0, nargs(t2.t) == 0))
            elif variant == "plain_bases":
                I.assume(z3.And(is_kind(base(t1.t), PLAIN), is_kind(base(t2.t), PLAIN)))
            elif variant == "hooked_base":
                I.assume(z3.Not(z3.And(is_kind(base(t1.t), PLAIN), is_kind(base(t2.t), PLAIN))))
            harness(MIRROR_H, "mro")(I, t1, t2)

        return w, thunk, {"kinds": [k1, k2], "regime": regime, "unfold": unfold, "timeout_ms": TIMEOUT_MS, "fail_fast": True, "retry_factor": 1}

    return build


def t_reflexive(k1):
    def build():
        w = MroWorld()
        t1, _ = _pair_consts()

        def thunk(I):
            I.assume(kind(t1.t) == K[k1])
            harness(REFLEXIVE_H, "mro")(I, t1)

        return w, thunk, {"kinds": [k1]}

    return build


def t_class_fragment():
    w = MroWorld()
    t1, t2 = _pair_consts()

    def thunk(I):
        I.assume(kind(t1.t) == K["Class"])
        I.assume(kind(t2.t) == K["Class"])
        harness(CLASSFRAG_H, "mro")(I, t1, t2)

    return w, thunk, {"kinds": ["Class", "Class"]}


# --------------------------------------------------------------------------------------------------
# further clauses of C12 (each taken from the property statement)

ABOVE_H = """
def union_above_members(u, m):
    assert typeorder(u, m) is Order.MORE
    assert typeorder(m, u) is Order.LESS
"""

BELOW_H = """
def intersection_below_members(x, m):
    assert typeorder(x, m) is Order.LESS
    assert typeorder(m, x) is Order.MORE
"""

DEPBOUND_H = """
def dependent_below_bound(d, b):
    assert typeorder(d, b) is Order.LESS
    assert typeorder(b, d) is Order.MORE
"""

ALIAS_ORIGIN_H = """
def alias_origin(a, o):
    assert typeorder(a, o) is Order.LESS
    assert typeorder(o, a) is Order.MORE
"""

ALIAS_ARGWISE_H = """
def alias_argwise(a1, a2, expected):
    assert typeorder(a1, a2) is expected
"""


def reflexive_axiom():
    x = z3.Const("x", TyS)
    return z3.ForAll([x], TO(x, x) == SAME, patterns=[TO(x, x)])


def sc_reflexive_axiom():
    x = z3.Const("x", TyS)
    return z3.ForAll([x], SC(x, x), patterns=[SC(x, x)])


def t_member_clause(which, member_kinds, label):
    """union_above_members / intersection_below_members for members of the given kinds."""

    def build():
        w = MroWorld(unfold=1, sc_unfold=0)
        u = TyV(z3.Const("t1", TyS))
        j = z3.Int("j")

        def thunk(I):
            I.assume(kind(u.t) == K["Union" if which == "union" else "Inter"])
            I.assume(z3.And(0 <= j, j < nargs(u.t)))
            m = TyV(arg(u.t, j))
            I.assume(z3.Const("t2", TyS) == m.t)
            I.assume(is_kind(m.t, member_kinds))
            I.assume(reflexive_axiom())  # lemma typeorder/reflexive[*] (proved in the same run)
            harness(ABOVE_H if which == "union" else BELOW_H, "mro")(I, u, m)

        return w, thunk, {"clause": label, "member_kinds": member_kinds, "timeout_ms": TIMEOUT_MS, "retry_factor": 1, "fail_fast": True, "uses_lemmas": ["typeorder/reflexive"]}

    return build


def t_dependent_below_bound(k, bound_kinds):
    def build():
        w = MroWorld(unfold=1, sc_unfold=0)
        d = TyV(z3.Const("t1", TyS))

        def thunk(I):
            I.assume(kind(d.t) == K[k])
            b = TyV(base(d.t))
            I.assume(z3.Const("t2", TyS) == b.t)
            I.assume(is_kind(b.t, bound_kinds))
            I.assume(sc_reflexive_axiom())  # lemma subclasscheck/reflexive (first line of subclasscheck)
            harness(DEPBOUND_H, "mro")(I, d, b)

        return w, thunk, {"clause": "dependent_below_bound", "kinds": [k], "timeout_ms": TIMEOUT_MS, "retry_factor": 1, "fail_fast": True, "uses_lemmas": ["subclasscheck/reflexive"]}

    return build


def t_alias_origin():
    w = MroWorld(unfold=1, sc_unfold=0)
    a = TyV(z3.Const("t1", TyS))

    def thunk(I):
        I.assume(kind(a.t) == K["Alias"])
        o = TyV(base(a.t))
        I.assume(z3.Const("t2", TyS) == o.t)
        I.assume(reflexive_axiom())
        harness(ALIAS_ORIGIN_H, "mro")(I, a, o)

    return w, thunk, {"clause": "alias_origin", "timeout_ms": TIMEOUT_MS, "retry_factor": 1, "fail_fast": True, "uses_lemmas": ["typeorder/reflexive"]}


def t_alias_argwise():
    """Same origin, both parametrised with the same number (>0) of arguments: the order is the merge of the
    argument orders; different numbers of arguments: unrelated."""
    w = MroWorld(unfold=1, sc_unfold=0)
    a1, a2 = _pair_consts()

    def thunk(I):
        I.assume(kind(a1.t) == K["Alias"])
        I.assume(kind(a2.t) == K["Alias"])
        I.assume(base(a1.t) == base(a2.t))
        I.assume(a1.t != a2.t)
        I.assume(z3.And(nargs(a1.t) > 0, nargs(a2.t) > 0))
        I.assume(reflexive_axiom())
        i = z3.Int("i")
        n = nargs(a1.t)
        flags = {nm: z3.Exists([i], z3.And(0 <= i, i < n, TO(arg(a1.t, i), arg(a2.t, i)) == ORDER[nm])) for nm in ORDER}
        expected = z3.If(nargs(a1.t) != nargs(a2.t), NONE, merge_spec(flags))
        harness(ALIAS_ARGWISE_H, "mro")(I, a1, a2, OrderV(expected))

    return w, thunk, {"clause": "alias_argwise", "timeout_ms": TIMEOUT_MS, "retry_factor": 1, "fail_fast": True, "uses_lemmas": ["typeorder/reflexive", "Order.merge/ensures"]}
