"""MultiTypeMap.mro (typemap.py) in mode U: any number of registered methods, any number of entries in the key.

The bounded end-to-end tasks (typemap_c.t_e2e) run the real mro / resolve / __missing__ for <= 3 methods and <= 2
entries.  Here the same function is verified WITHOUT those bounds, in two pieces plus a lemma:

  mro.positions   the per-entry loop (with its inner loop over the candidate set), the construction and sort of the
                  Candidate list, and the write of `self.all[key]`, from the real AST with loop invariants:
                    candidates = { h | for every entry j of the key: h is in the per-entry table of j and accepts the
                                       call shape }                                  (= AllR(n, h))
                    the Candidate of h carries priority(h), tiebreak(h) and the vector of its levels, entry by entry
                    the list handed to _pull is a permutation of those candidates sorted by sort_key, descending
                    self.all[key] = the code objects of exactly those candidates
  mro._pull       the first group yielded by the real _pull on a duplicate-free list:  [L[0]] followed by the
                  elements of L[1:] that L[0] does not dominate, which are marked processed; the recursive call is made
                  on L[1:] (by contract)
  lemma           over those contracts + Candidate.dominates / sort_key (typemap_c.t_candidate, t_sum_lemma): the first
                  group is the single candidate w  iff  w dominates every other candidate; in particular the oracle's
                  winner under faithful levels is what a plain call gets, for ANY number of methods and entries.

State of the table: uninterpreted functions over handler / key / type sorts (so the proof holds for every table
content).  Assumptions (listed in the evidence): one entry (handler, signature) per handler in a per-entry table
(MultiTypeMap.register stores each handler under one type per entry), signatures have vararg=False (Signature.extract
rejects *args; register creates the -1 table only for vararg signatures), the key is non-empty (__missing__ handles ()
before calling resolve), list.sort is a stable sort (trusted library model).
"""
import ast

import z3

from pyvc import source
from pyvc.interp import Builtin, ExcV, LoopSpec, OutOfSubset, PyRaise, Rec, Stream, SymObj, SymSeq, SymSet, ZV
from pyvc.world import ModuleV, PyClassToken, World

from .universe import TyS, TyV

HS = z3.DeclareSort("Hdl")
NameS = z3.DeclareSort("KwName")
KeyS = z3.DeclareSort("MapKey")
CodeS = z3.DeclareSort("CodeObj")

posk = z3.Function("posk", z3.IntSort(), KeyS)
namek = z3.Function("namek", NameS, KeyS)
key_is_pos = z3.Function("key_is_pos", KeyS, z3.BoolSort())
key_idx = z3.Function("key_idx", KeyS, z3.IntSort())
key_name = z3.Function("key_name", KeyS, NameS)

# the looked-up key
N = z3.Int("n_entries")
is_kw = z3.Function("is_kw", z3.IntSort(), z3.BoolSort())
kwname = z3.Function("kwname", z3.IntSort(), NameS)
ecls = z3.Function("ecls", z3.IntSort(), TyS)

# the table
avail = z3.Function("avail", KeyS, TyS, z3.BoolSort())  # self.maps[key][cls] does not raise KeyError
inres = z3.Function("inres", KeyS, TyS, HS, z3.BoolSort())  # (h, sig_h) is a key of that dict
lvl = z3.Function("lvl", KeyS, TyS, HS, z3.IntSort())  # ... with this level
req_pos = z3.Function("req_pos", HS, z3.IntSort())
max_pos = z3.Function("max_pos", HS, z3.IntSort())
reqn = z3.Function("reqn", HS, NameS, z3.BoolSort())
prio = z3.Function("prio", HS, z3.RealSort())
tbk = z3.Function("tiebreak", HS, z3.IntSort())
codeof = z3.Function("codeof", HS, CodeS)

# ghost: the recursive spec function "h survives entries 0..k-1"
AllR = z3.Function("AllR", z3.IntSort(), HS, z3.BoolSort())


def keyof(j):
    return z3.If(is_kw(j), namek(kwname(j)), posk(j))


def key_axioms():
    i, j = z3.Ints("ki kj")
    a, b = z3.Consts("ka kb", NameS)
    return [
        z3.ForAll([i], z3.And(key_is_pos(posk(i)), key_idx(posk(i)) == i), patterns=[posk(i)]),
        z3.ForAll([a], z3.And(z3.Not(key_is_pos(namek(a))), key_name(namek(a)) == a), patterns=[namek(a)]),
    ]


class HandlerV(ZV):
    def __init__(self, t, k="hdl"):
        super().__init__(t, "hdl")

    def py_hasattr(self, I, name):
        if name == "__code__":
            return True
        raise OutOfSubset(f"hasattr(handler, {name})")

    def py_getattr(self, I, name):
        if name == "__code__":
            return CodeV(codeof(self.t))
        raise OutOfSubset(f"handler.{name}")


class CodeV(ZV):
    def __init__(self, t, k="code"):
        super().__init__(t, "code")


class NameV(ZV):
    def __init__(self, t, k="kwname"):
        super().__init__(t, "kwname")


class NameSet(SymObj):
    """A set of keyword names given by its membership predicate."""

    def __init__(self, member):
        self.member = member

    def py_binop(self, I, op, other, inplace=False):
        if isinstance(op, ast.Sub) and isinstance(other, NameSet):
            a, b = self.member, other.member
            return NameSet(lambda x: z3.And(a(x), z3.Not(b(x))))
        return NotImplemented

    def py_truth(self, I):
        x = I.fresh("nm", NameS)
        return z3.Exists([x], self.member(x))

    def py_compare(self, I, op, other):
        # subset / superset tests between two sets of names (req_names <= names is `not (req_names - names)`)
        if isinstance(other, NameSet) and isinstance(op, (ast.LtE, ast.GtE)):
            x = I.fresh("nm", NameS)
            a, b = (self.member, other.member) if isinstance(op, ast.LtE) else (other.member, self.member)
            return z3.ForAll([x], z3.Implies(a(x), b(x)))
        return NotImplemented

    def py_contains(self, I, x):
        return self.member(I.term(x))


class SigV(SymObj):
    def __init__(self, h):
        self.h = h

    def py_getattr(self, I, name):
        h = self.h
        if name == "req_pos":
            return ZV(req_pos(h), "int")
        if name == "max_pos":
            return ZV(max_pos(h), "int")
        if name == "vararg":
            return False  # Signature.extract: vararg=False (it rejects *args); see module docstring
        if name == "req_names":
            return NameSet(lambda x: reqn(h, x))
        raise OutOfSubset(f"Signature.{name}")


class EntryV(SymObj):
    """Entry j of the looked-up key: a class, or a pair (keyword name, class)."""

    def __init__(self, j):
        self.j = j

    def py_isinstance(self, I, cls):
        if isinstance(cls, PyClassToken) and cls.name == "tuple":
            return is_kw(self.j)
        return NotImplemented

    def py_getitem(self, I, key):
        if key == 0:
            return NameV(kwname(self.j))
        if key == 1:
            return TyV(ecls(self.j))
        raise OutOfSubset("entry[...]")

    def py_unpack(self, I, n):
        if n != 2:
            raise PyRaise(ExcV("ValueError"))
        return [NameV(kwname(self.j)), TyV(ecls(self.j))]


def _hset_iter(I, member):
    n = I.fresh("n", z3.IntSort())
    A = I.fresh_fn("A", [z3.IntSort()], HS)
    pos = I.fresh_fn("pos", [HS], z3.IntSort())
    p = I.fresh("p", z3.IntSort())
    x = I.fresh("x", HS)
    I.assume(n >= 0)
    I.assume(z3.ForAll([p], z3.Implies(z3.And(0 <= p, p < n), z3.And(member(A(p)), pos(A(p)) == p)), patterns=[A(p)]))
    I.assume(z3.ForAll([x], z3.Implies(member(x), z3.And(0 <= pos(x), pos(x) < n, A(pos(x)) == x)), patterns=[pos(x)]))
    return n, A, pos


class HMap(SymObj):
    """dict: handler -> level (a per-entry result table after filtering)."""

    def __init__(self, has, val):
        self.has, self.val = has, val

    def py_getitem(self, I, key):
        h = I.term(key)
        I.require(self.has(h), "dict_key_present", exc="KeyError")
        return ZV(self.val(h), "int")

    def py_getattr(self, I, name):
        if name == "keys":
            return Builtin("keys", lambda I: HSet(self.has))
        if name == "update":

            def update(I, other):
                if isinstance(other, dict) and not other:
                    return None
                if not isinstance(other, HMap):
                    raise OutOfSubset("dict.update with a non-table")
                h0, v0, h1, v1 = self.has, self.val, other.has, other.val
                self.has = lambda x: z3.Or(h0(x), h1(x))
                self.val = lambda x: z3.If(h1(x), v1(x), v0(x))

            return Builtin("update", update)
        raise OutOfSubset(f"dict.{name}")


class ResMap(SymObj):
    """self.maps[key][cls]: dict (handler, signature) -> level."""

    def __init__(self, key, c):
        self.key, self.c = key, c

    def py_getattr(self, I, name):
        if name == "items":

            def items(I):
                key, c = self.key, self.c
                member = lambda h: inres(key, c, h)
                n, A, pos = _hset_iter(I, member)
                seq = SymSeq(n, lambda i: ((HandlerV(A(i)), SigV(A(i))), ZV(lvl(key, c, A(i)), "int")), "items", dupfree_pos=None)
                seq.A, seq.posf, seq.member = A, pos, member
                return seq.stream(I)

            return Builtin("items", items)
        raise OutOfSubset(f"results.{name}")


class PerKey(SymObj):
    def __init__(self, key):
        self.key = key

    def py_getitem(self, I, cls):
        c = ecls(cls.j) if isinstance(cls, EntryV) else I.term(cls)
        if I.branch(avail(self.key, c)):
            return ResMap(self.key, c)
        raise PyRaise(ExcV("KeyError"))


class MapsObj(SymObj):
    def py_getitem(self, I, key):
        if isinstance(key, NameV):
            return PerKey(namek(key.t))
        if isinstance(key, int) and key == -1:
            raise PyRaise(ExcV("KeyError"))  # no vararg table (module docstring)
        return PerKey(posk(I.int_term(key)))


class HSet(SymObj):
    """A set of handlers; `none` (z3 Bool) makes it the value of a variable that may still be None."""

    def __init__(self, member, none=None):
        self.member = member
        self.none = none if none is not None else z3.BoolVal(False)

    def py_is_none(self, I):
        return self.none

    def py_contains(self, I, x):
        return self.member(I.term(x))

    def py_binop(self, I, op, other, inplace=False):
        if isinstance(op, ast.BitAnd) and isinstance(other, HSet):
            a, b = self.member, other.member
            return HSet(lambda x: z3.And(a(x), b(x)))
        return NotImplemented

    def py_getattr(self, I, name):
        if name == "add":

            def add(I, x):
                old, t = self.member, I.term(x)
                self.member = lambda y: z3.Or(y == t, old(y))

            return Builtin("set.add", add)
        raise OutOfSubset(f"set.{name}")

    def py_iter(self, I):
        I.require(z3.Not(self.none), "iterated_value_is_not_None", exc="TypeError")
        n, A, pos = _hset_iter(I, self.member)
        seq = SymSeq(n, lambda i: HandlerV(A(i)), "setiter", dupfree_pos=lambda v: pos(I.term(v)))
        seq.A, seq.posf = A, pos
        return seq.stream(I)

    def fresh_like(self, I, hint="S"):
        f = I.fresh_fn(hint, [HS], z3.BoolSort())
        nn = I.fresh(hint + "_none", z3.BoolSort())
        return HSet(lambda x: f(x), nn)


class SpecMap(SymObj):
    """specificities: dict handler -> list of levels (has / length / element functions)."""

    def __init__(self, has, length, elem):
        self.has, self.length, self.elem = has, length, elem

    def fresh_like(self, I, hint="spec"):
        h = I.fresh_fn(hint + "_has", [HS], z3.BoolSort())
        ln = I.fresh_fn(hint + "_len", [HS], z3.IntSort())
        el = I.fresh_fn(hint + "_el", [HS, z3.IntSort()], z3.IntSort())
        return SpecMap(lambda x: h(x), lambda x: ln(x), lambda x, j: el(x, j))

    def py_getattr(self, I, name):
        if name == "setdefault":

            def setdefault(I, key, default):
                if default != []:
                    raise OutOfSubset("setdefault with a non-empty default")
                h = I.term(key)
                has0, len0 = self.has, self.length
                self.has = lambda x: z3.Or(x == h, has0(x))
                self.length = lambda x: z3.If(z3.And(x == h, z3.Not(has0(h))), 0, len0(x))
                return SpecList(self, h)

            return Builtin("setdefault", setdefault)
        raise OutOfSubset(f"dict.{name}")

    def py_getitem(self, I, key):
        h = I.term(key)
        I.require(self.has(h), "dict_key_present", exc="KeyError")
        return SpecList(self, h)

    def py_iter(self, I):
        has = self.has
        n, A, pos = _hset_iter(I, lambda x: has(x))
        seq = SymSeq(n, lambda i: HandlerV(A(i)), "keys", dupfree_pos=lambda v: pos(I.term(v)))
        seq.A, seq.posf = A, pos
        return seq.stream(I)


class SpecList(SymObj):
    def __init__(self, m, h):
        self.m, self.h = m, h

    def py_getattr(self, I, name):
        if name == "append":

            def append(I, v):
                m, h, t = self.m, self.h, I.int_term(v)
                len0, el0 = m.length, m.elem
                n0 = len0(h)
                m.length = lambda x: z3.If(x == h, n0 + 1, len0(x))
                m.elem = lambda x, j: z3.If(z3.And(x == h, j == n0), t, el0(x, j))

            return Builtin("append", append)
        raise OutOfSubset(f"list.{name}")

    def snapshot(self):
        m, h = self.m, self.h
        ln, el = m.length, m.elem
        return LevelVec(ln(h), lambda j: el(h, j))


class LevelVec(SymObj):
    """tuple of levels: length + element function."""

    def __init__(self, length, elem):
        self.length, self.elem = length, elem

    def py_eq(self, I, other):
        if isinstance(other, LevelVec):
            j = I.fresh("vj", z3.IntSort())
            return z3.And(self.length == other.length, z3.ForAll([j], z3.Implies(z3.And(0 <= j, j < self.length), self.elem(j) == other.elem(j))))
        return NotImplemented


class AllMap(SymObj):
    def __init__(self):
        self.written = []

    def py_setitem(self, I, key, v):
        self.written.append((key, v))


class CodeSet(SymObj):
    def __init__(self, member):
        self.member = member


class MTMU(SymObj):
    def __init__(self):
        self.allmap = AllMap()

    def py_getattr(self, I, name):
        if name == "maps":
            return MapsObj()
        if name == "priorities":
            return FnMap(lambda h: ZV(prio(h), "real"))
        if name == "tiebreaks":
            return FnMap(lambda h: ZV(tbk(h), "int"))
        if name == "all":
            return self.allmap
        raise OutOfSubset(f"MultiTypeMap.{name}")


class FnMap(SymObj):
    """priorities / tiebreaks: every registered handler has an entry (MultiTypeMap.register writes both)."""

    def __init__(self, f):
        self.f = f

    def py_getattr(self, I, name):
        if name == "get":
            return Builtin("get", lambda I, k, d=None: self.f(I.term(k)))
        raise OutOfSubset(f"dict.{name}")


class CandSeq(SymSeq):
    """The list of Candidate records (symbolic length)."""


def R_(j, h, nargs, names):
    nm = z3.Const("rn", NameS)
    k = keyof(j)
    return z3.And(avail(k, ecls(j)), inres(k, ecls(j), h), req_pos(h) <= nargs, nargs <= max_pos(h), z3.Not(z3.Exists([nm], z3.And(reqn(h, nm), z3.Not(names(nm))))))


class MroWorldU(World):
    inline_prefixes = ()

    def __init__(self):
        super().__init__()
        self.inline("typemap:MultiTypeMap.mro")
        self.ext_modules = {"math": ModuleV("math", {"inf": float("inf")})}
        self.trusted += ["list.sort: the result is a permutation of the list, ordered by the key (descending with reverse=True)"]
        self.ghost = {}
        self.inline("typemap:Candidate.sort_key")

    # -- values --------------------------------------------------------------------------------
    def mk_candidate(self, I, handler=None, priority=None, specificity=None, tiebreak=None):
        return Rec("typemap:Candidate", dict(handler=handler, priority=priority, specificity=specificity, tiebreak=tiebreak))

    def isinstance_(self, I, x, cls):
        if isinstance(x, EntryV):
            r = x.py_isinstance(I, cls)
            if r is not NotImplemented:
                return r
        if isinstance(x, (TyV, NameV)) and isinstance(cls, PyClassToken) and cls.name == "tuple":
            return False
        return super().isinstance_(I, x, cls)

    def is_singleton(self, I, z, other):
        return False

    def term_of(self, I, v):
        return None

    def materialize(self, I, stream):
        """len([t for t in key if not isinstance(t, tuple)]): the number of positional entries (list-comprehension semantics)."""
        if getattr(stream, "_mat", None) is not None:
            return stream._mat
        m = I.fresh("m", z3.IntSort())
        I.assume(m >= 0)
        seq = SymSeq(m, lambda j: (_ for _ in ()).throw(OutOfSubset("element of a materialised filter")), "list")
        stream._mat = seq
        self.ghost["count_of"] = (stream, m)
        return seq

    def make_set(self, I, elts):
        if isinstance(elts, Stream):
            e = elts.probe(I)
            if isinstance(e, NameV):
                # the set of keyword names of the key, named by a function symbol (definitional axiom) so that the filter
                # and the specification mention the same atom
                f = I.fresh_fn("names", [NameS], z3.BoolSort())
                x = I.fresh("nx", NameS)
                I.assume(z3.ForAll([x], f(x) == elts.exists(I, lambda el, j: el.t == x), patterns=[f(x)]))
                return NameSet(lambda y: f(y))
            if isinstance(e, (CodeV,)) or e is None:
                return CodeSet(lambda c: elts.exists(I, lambda el, j: el.t == c))
            if isinstance(e, HandlerV):
                return HSet(lambda x: elts.exists(I, lambda el, j: el.t == x))
        if isinstance(elts, list) and not elts:
            return HSet(lambda x: z3.BoolVal(False))
        return super().make_set(I, elts)

    def make_dict(self, I, pairs):
        if isinstance(pairs, Stream) and getattr(pairs, "src", None) is not None and hasattr(pairs.src, "posf"):
            src = pairs.src
            pos, A, member = src.posf, src.A, src.member

            def has(h):
                I.quiet += 1
                try:
                    g = z3.And(*[gd(pos(h)) for gd in pairs.guards]) if pairs.guards else z3.BoolVal(True)
                finally:
                    I.quiet -= 1
                return z3.And(member(h), g)

            if pairs.guards:  # the filter is evaluated once per item (obligations quantified over the index)
                pairs.guard_at(I, I.fresh("di", z3.IntSort()))
            pairs.elem_at(I, I.fresh("di", z3.IntSort()))

            def val(h):
                I.quiet += 1
                try:
                    return I.term(pairs.elem(pos(h))[1])
                finally:
                    I.quiet -= 1

            return HMap(has, val)
        if isinstance(pairs, list) and not pairs:
            return HMap(lambda h: z3.BoolVal(False), lambda h: z3.IntVal(0))
        return super().make_dict(I, pairs)

    def empty_dict(self, I):
        return EmptyDict()

    def compare(self, I, op, a, b):
        return None

    def stream_attr(self, I, stream, name):
        if name == "sort":
            return Builtin("sort", lambda I, key=None, reverse=False: self.sort_stream(I, stream, key, reverse))
        return super().stream_attr(I, stream, name)

    def sort_stream(self, I, stream, key, reverse):
        """list.sort(key=..., reverse=...) on the list built by a comprehension over a duplicate-free enumeration:
        afterwards the list is a permutation of itself ordered by the key (trusted library model)."""
        src = getattr(stream, "src", None)
        if src is None or not hasattr(src, "posf") or stream.guards:
            raise OutOfSubset("sort of an unstructured symbolic list")
        n, A, pos = src.length, src.A, src.posf
        # the list is built eagerly: every element expression is evaluated once (obligations quantified over the index) ...
        idx = I.fresh("li", z3.IntSort())
        stream.elem_at(I, idx)
        orig_elem = stream.elem

        # ... afterwards the record of handler h is a pure term
        def rec_of(h):
            I.quiet += 1
            try:
                return orig_elem(pos(h))
            finally:
                I.quiet -= 1

        P = I.fresh_fn("sorted", [z3.IntSort()], HS)
        posP = I.fresh_fn("sorted_pos", [HS], z3.IntSort())
        i, j = I.fresh("si", z3.IntSort()), I.fresh("sj", z3.IntSort())
        h = I.fresh("sh", HS)
        member = lambda x: z3.And(0 <= pos(x), pos(x) < n, A(pos(x)) == x)
        I.assume(z3.ForAll([i], z3.Implies(z3.And(0 <= i, i < n), z3.And(member(P(i)), posP(P(i)) == i)), patterns=[P(i)]))
        I.assume(z3.ForAll([h], z3.Implies(member(h), z3.And(0 <= posP(h), posP(h) < n, P(posP(h)) == h)), patterns=[posP(h)]))

        def keyterms(x):
            I.pure += 1
            try:
                k = I.call(key, [rec_of(x)], {})
            finally:
                I.pure -= 1
            if not isinstance(k, tuple):
                k = (k,)
            return [I.term(t) for t in k]

        def lex_ge(a, b):
            out = z3.BoolVal(True)
            for x, y in reversed(list(zip(a, b))):
                out = z3.Or(x > y, z3.And(x == y, out))
            return out

        ka, kb = keyterms(P(i)), keyterms(P(j))
        order = lex_ge(ka, kb) if reverse else lex_ge(kb, ka)
        I.assume(z3.ForAll([i, j], z3.Implies(z3.And(0 <= i, i < j, j < n), order), patterns=[z3.MultiPattern(P(i), P(j))]))
        seq = SymSeq(n, lambda q: rec_of(P(q)), "sorted")
        seq.A, seq.posf, seq.keyterms, seq.rec_of, seq.member = P, posP, keyterms, rec_of, member
        stream.length, stream.guards, stream.elem, stream.src = n, [], seq.elem, seq
        self.ghost["sorted"] = seq
        return None

    def vec_sum(self, I, vec):
        return ZV(vec.sumterm, "int")


class EmptyDict(SymObj):
    """`{}`: the empty result table (except-branch) or the initial specificities map."""

    def py_getattr(self, I, name):
        if name == "items":
            return Builtin("items", lambda I: [])
        raise OutOfSubset(f"{{}}.{name}")

    def fresh_like(self, I, hint="d"):
        return SpecMap(None, None, None).fresh_like(I, hint)


def as_spec(S):
    if isinstance(S, EmptyDict):
        return SpecMap(lambda x: z3.BoolVal(False), lambda x: z3.IntVal(0), lambda x, j: z3.IntVal(0))
    return S


def LV(j, h):
    return lvl(keyof(j), ecls(j), h)


def t_positions():
    w = MroWorldU()
    h, g = z3.Consts("h g", HS)
    j, k2 = z3.Ints("j k2")

    def defs(I, env):
        """definitional axioms of the ghost function AllR (primitive recursion over the entries of the key)."""
        key = ("defs", id(I.path))
        if w.ghost.get("defs_for") is I.path:
            return
        w.ghost["defs_for"] = I.path
        nargs, names = env.get("nargs").t, env.get("names").member
        I.assume(z3.ForAll([h], AllR(0, h), patterns=[AllR(0, h)]))
        # AllR(k + 1, h) = AllR(k, h) and R(k, h): instantiated at the index of the iteration at hand (see unfold below); the
        # general recursion axiom would be a matching loop
        w.ghost["unfold"] = lambda kk: z3.ForAll([h], AllR(kk + 1, h) == z3.And(AllR(kk, h), R_(kk, h, nargs, names)), patterns=[AllR(kk + 1, h)])

    def cand(env):
        C = env.get("candidates")
        if C is None:
            return z3.BoolVal(True), (lambda x: z3.BoolVal(False))
        return C.none, C.member

    def outer(I, env, k, seq):
        defs(I, env)
        K = k.t
        w.ghost["K"] = K
        if z3.is_const(K) and not z3.is_int_value(K):
            I.assume(z3.Implies(K >= 0, w.ghost["unfold"](K)))
        none, member = cand(env)
        S = as_spec(env.get("specificities"))
        parts = [
            none == (K == 0),
            z3.ForAll([h], z3.Implies(K > 0, member(h) == AllR(K, h))),
            z3.ForAll([h], z3.Implies(K == 0, z3.Not(S.has(h)))),
            z3.ForAll([h], z3.Implies(z3.And(K > 0, member(h)), z3.And(S.has(h), S.length(h) == K, z3.ForAll([j], z3.Implies(z3.And(0 <= j, j < K), S.elem(h, j) == LV(j, h)))))),
        ]
        import os

        dbg = os.environ.get("MRODBG")
        if dbg is not None and not z3.is_const(K) and not z3.is_int_value(K):
            return parts[int(dbg)]
        return z3.And(*parts)

    def inner(I, env, k, seq):
        K = w.ghost["K"]
        none, member = cand(env)
        S = as_spec(env.get("specificities"))
        res = env.get("results")
        pos = seq.src.posf
        done = lambda x: z3.And(member(x), pos(x) < k.t)
        old_ok = lambda x: z3.And(z3.Implies(K == 0, z3.Not(S.has(x))), z3.Implies(K > 0, z3.And(S.has(x), S.length(x) == K)), z3.ForAll([j], z3.Implies(z3.And(0 <= j, j < K), S.elem(x, j) == LV(j, x))))
        new_ok = lambda x: z3.And(S.has(x), S.length(x) == K + 1, S.elem(x, K) == res.val(x), z3.ForAll([j], z3.Implies(z3.And(0 <= j, j < K), S.elem(x, j) == LV(j, x))))
        return z3.And(
            z3.Not(none),
            z3.ForAll([h], z3.Implies(done(h), new_ok(h))),
            z3.ForAll([h], z3.Implies(z3.And(member(h), z3.Not(done(h))), old_ok(h))),
        )

    w.loop("typemap:MultiTypeMap.mro", 0, LoopSpec(outer, modifies=["candidates", "specificities"], havoc={"candidates": lambda I, env: HSet(None).fresh_like(I, "cands"), "specificities": lambda I, env: SpecMap(None, None, None).fresh_like(I, "spec")}, skip_names=("i", "cls", "results", "vararg_results", "c")))
    w.loop("typemap:MultiTypeMap.mro", 1, LoopSpec(inner, modifies=["specificities"], havoc={"specificities": lambda I, env: SpecMap(None, None, None).fresh_like(I, "spec")}))

    # builtins over the table values
    def _len(I, x):
        if isinstance(x, Stream):
            return w.materialize(I, x).py_len(I)
        if isinstance(x, SymObj) and hasattr(x, "py_len"):
            return x.py_len(I)
        return len(x)

    def _set(I, x=()):
        if isinstance(x, HSet):
            m = x.member
            return HSet(lambda y: m(y))
        if isinstance(x, (list, tuple)) and not x:
            return HSet(lambda y: z3.BoolVal(False))
        raise OutOfSubset("set(...) of an unexpected value")

    def _tuple(I, x=()):
        if isinstance(x, SpecList):
            m, hh = x.m, x.h
            ln, el = m.length, m.elem
            keyf = (id(ln), id(el))
            if w.ghost.get("vs_key") != keyf:
                vs2 = I.fresh_fn("vsum", [HS, z3.IntSort()], z3.IntSort())
                w.ghost["vs_key"], w.ghost["vs2"], w.ghost["vs_len"], w.ghost["vs_el"] = keyf, vs2, ln, el
                I.assume(z3.ForAll([h], vs2(h, 0) == 0, patterns=[vs2(h, 0)]))
                I.assume(z3.ForAll([h, k2], z3.Implies(k2 >= 0, vs2(h, k2 + 1) == vs2(h, k2) + el(h, k2)), patterns=[vs2(h, k2 + 1)]))
            vs2 = w.ghost["vs2"]
            v = LevelVec(ln(hh), lambda q: el(hh, q))
            v.sumterm = vs2(hh, ln(hh))
            v.owner = hh
            return v
        raise OutOfSubset("tuple(...) of an unexpected value")

    def _sum(I, x):
        if isinstance(x, LevelVec):
            return ZV(x.sumterm, "int")
        raise OutOfSubset("sum(...) of an unexpected value")

    for nm, f in (("len", _len), ("set", _set), ("tuple", _tuple), ("sum", _sum)):
        w.set_global("typemap", nm, Builtin(nm, f))

    captured = {}

    def pull_contract(I, args, kwargs):
        captured["L"] = args[0]
        return Builtin("generator", lambda I: None)

    w.contract("typemap:MultiTypeMap.mro._pull", pull_contract)
    w.set_global("typemap", "list", Builtin("list", lambda I, x=(): ("RANKS", x)))

    def thunk(I):
        w.ghost.clear()
        captured.clear()
        I.assume(key_axioms())
        I.assume(N >= 1)
        tup = SymSeq(N, lambda q: EntryV(q), "key")
        m = MTMU()
        try:
            I.call_repo("typemap:MultiTypeMap.mro", [m, tup], {})
        except PyRaise as e:
            I.require(False, f"mro_raises_nothing[{e.exc.cls}]")
            return
        L = captured.get("L")
        I.require(L is not None and isinstance(L, Stream) and getattr(L, "src", None) is w.ghost.get("sorted"), "the_sorted_candidate_list_is_what_is_ranked")
        if L is None or w.ghost.get("sorted") is None:
            return
        sq = w.ghost["sorted"]
        n, P, posP = sq.length, sq.A, sq.posf
        i1, i2 = z3.Ints("i1 i2")
        inlist = lambda x: z3.And(0 <= posP(x), posP(x) < n, P(posP(x)) == x)
        I.require(z3.ForAll([h], inlist(h) == AllR(N, h)), "candidates_are_the_methods_that_survive_every_entry")
        I.require(z3.ForAll([i1, i2], z3.Implies(z3.And(0 <= i1, i1 < n, 0 <= i2, i2 < n, i1 != i2), P(i1) != P(i2))), "no_method_is_listed_twice")
        # the record of each candidate
        x = I.fresh("cx", HS)
        rec = sq.rec_of(x)
        f = rec.fields if hasattr(rec, "fields") else rec.f
        vec = f["specificity"]
        I.require(z3.ForAll([x], z3.Implies(inlist(x), z3.And(I.term(f["handler"]) == x, I.term(f["priority"]) == prio(x), I.term(f["tiebreak"]) == tbk(x)))), "candidate_carries_the_priority_and_tiebreak_of_its_method")
        I.require(z3.ForAll([x], z3.Implies(inlist(x), z3.And(vec.length == N, z3.ForAll([j], z3.Implies(z3.And(0 <= j, j < N), vec.elem(j) == LV(j, x)))))), "specificity_is_the_vector_of_levels_entry_by_entry")
        vs2 = w.ghost["vs2"]
        kt = sq.keyterms
        I.require(z3.ForAll([x], z3.Implies(inlist(x), z3.And(kt(x)[0] == prio(x), kt(x)[1] == vs2(x, N), kt(x)[2] == tbk(x)))), "sort_key_is_priority_then_sum_of_levels_then_tiebreak")
        # self.all[key]
        wr = m.allmap.written
        I.require(len(wr) == 1 and wr[0][0] is tup and isinstance(wr[0][1], CodeSet), "candidate_code_set_recorded_under_the_looked_up_key")
        if len(wr) == 1 and isinstance(wr[0][1], CodeSet):
            c = z3.Const("co", CodeS)
            I.require(z3.ForAll([c], wr[0][1].member(c) == z3.Exists([h], z3.And(AllR(N, h), codeof(h) == c))), "recorded_code_set_is_exactly_the_candidates_code_objects")

    return w, thunk, {"timeout_ms": 20000, "fail_fast": False}


# --------------------------------------------------------------------------------------------------
# _pull: the first group (any number of candidates)

DOM = z3.Function("DOM", HS, HS, z3.BoolSort())  # Candidate.dominates on the records of two handlers (contract: typemap_c.t_candidate)


class GroupV(SymObj):
    """A list of candidates seen through what resolve uses of it: its first element, the handlers in it, whether it has
    exactly one element."""

    def __init__(self, first, member, single, length):
        self.first, self.member, self.single, self.length = first, member, single, length

    @staticmethod
    def of(v):
        if isinstance(v, GroupV):
            return v
        if isinstance(v, list) and len(v) == 1:
            h0 = v[0].f["handler"].t
            return GroupV(v[0], lambda x: x == h0, z3.BoolVal(True), z3.IntVal(1))
        raise OutOfSubset("group value")

    def fresh_like(self, I, hint="grp"):
        m = I.fresh_fn(hint + "_mem", [HS], z3.BoolSort())
        s = I.fresh(hint + "_single", z3.BoolSort())
        n = I.fresh(hint + "_len", z3.IntSort())
        return GroupV(self.first, lambda x: m(x), s, n)

    def py_getattr(self, I, name):
        if name == "append":

            def append(I, c):
                h, old, n0 = c.f["handler"].t, self.member, self.length
                self.member = lambda x: z3.Or(x == h, old(x))
                self.single = z3.BoolVal(False)
                self.length = n0 + 1

            return Builtin("append", append)
        raise OutOfSubset(f"list.{name}")

    def py_len(self, I):
        return ZV(self.length, "int")


def t_pull_first_group():
    w = World()
    w.is_singleton = lambda I, z, other: False
    h, g = z3.Consts("h g", HS)
    q, q2 = z3.Ints("q q2")
    n = z3.Int("n_cands")
    Lh = z3.Function("L_handler", z3.IntSort(), HS)  # the handlers of the argument list, in order
    proc0 = z3.Function("processed0", HS, z3.BoolSort())

    def rec(hterm):
        return Rec("typemap:Candidate", dict(handler=HandlerV(hterm), priority=ZV(prio(hterm), "real"), specificity=None, tiebreak=ZV(tbk(hterm), "int")))

    w.contract("typemap:Candidate.dominates", lambda I, args, kwargs: ZV(DOM(args[0].f["handler"].t, args[1].f["handler"].t), "bool"))
    st = {}

    def materialize(I, stream):
        """[c for c in candidates if c.handler not in processed]: the sub-list of the kept elements, in order."""
        if getattr(stream, "_mat", None) is not None:
            return stream._mat
        if not stream.guards:
            return SymSeq(stream.length, stream.elem, "list")
        m = I.fresh("m", z3.IntSort())
        idx = I.fresh_fn("idx", [z3.IntSort()], z3.IntSort())  # position in the source of the q-th kept element
        rank = I.fresh_fn("rank", [z3.IntSort()], z3.IntSort())
        i = I.fresh("i", z3.IntSort())
        gi = lambda t: stream.guard_at(I, t)
        I.assume(m >= 0)
        I.assume(z3.ForAll([q], z3.Implies(z3.And(0 <= q, q < m), z3.And(gi(idx(q)), rank(idx(q)) == q)), patterns=[idx(q)]))
        I.assume(z3.ForAll([q, q2], z3.Implies(z3.And(0 <= q, q < q2, q2 < m), idx(q) < idx(q2)), patterns=[z3.MultiPattern(idx(q), idx(q2))]))
        I.assume(z3.ForAll([i], z3.Implies(gi(i), z3.And(0 <= rank(i), rank(i) < m, idx(rank(i)) == i)), patterns=[rank(i)]))
        seq = SymSeq(m, lambda t: stream.elem(idx(t)), "list")
        seq.idx, seq.rank, seq.guard = idx, rank, gi
        stream._mat = seq
        st["B"] = seq
        return seq

    w.materialize = materialize

    def _stream_truth_patch():
        pass

    calls = []

    def rec_pull(I, args, kwargs):
        calls.append(args[0])
        return []

    def inv(I, env, k, seq):
        B = st["B"]
        c0 = B.elem(z3.IntVal(0)).f["handler"].t
        T = lambda t: B.elem(t + 1).f["handler"].t  # candidates[1:]
        G = GroupV.of(env.get("rval"))
        P = env.get("processed")
        added = lambda x: z3.Exists([q], z3.And(0 <= q, q < k.t, T(q) == x, z3.Not(DOM(c0, T(q)))))
        return z3.And(
            z3.ForAll([h], G.member(h) == z3.Or(h == c0, added(h))),
            G.single == z3.Not(z3.Exists([q], z3.And(0 <= q, q < k.t, z3.Not(DOM(c0, T(q)))))),
            G.length >= 1,
            (G.length == 1) == G.single,
            z3.ForAll([h], P.member(h) == z3.Or(proc0(h), added(h))),
        )

    w.loop("typemap:MultiTypeMap.mro._pull", 0, LoopSpec(inv, modifies=["rval", "processed"], havoc={"rval": lambda I, env: GroupV.of(env.get("rval")).fresh_like(I), "processed": lambda I, env: HSet(None).fresh_like(I, "proc")}))

    def thunk(I):
        del calls[:]
        st.clear()
        I.assume(n >= 0)
        I.assume(z3.ForAll([q, q2], z3.Implies(z3.And(0 <= q, q < n, 0 <= q2, q2 < n, q != q2), Lh(q) != Lh(q2))))  # duplicate-free (mro.positions post)
        L = SymSeq(n, lambda t: rec(Lh(t)), "list")
        mro = source.function("typemap:MultiTypeMap.mro")
        node = next((x for x in ast.walk(mro) if isinstance(x, ast.FunctionDef) and x.name == "_pull"), None)
        if node is None:
            raise OutOfSubset("MultiTypeMap.mro no longer has a nested function _pull (anchor lost)")
        from pyvc.interp import Closure, Env

        env = Env(None)
        processed = HSet(lambda x: proc0(x))
        env.set("processed", processed)
        env.set("_pull", Builtin("_pull", lambda I, *a: rec_pull(I, list(a), {})))
        clo = Closure(node, env, "typemap", "typemap:MultiTypeMap.mro._pull")
        ys = clo.py_call(I, [L], {})
        kept = lambda t: z3.And(0 <= t, t < n, z3.Not(proc0(Lh(t))))
        anykept = z3.Exists([q], kept(q))
        if not ys:
            I.require(z3.Not(anykept), "nothing_is_yielded_only_if_every_candidate_was_already_ranked")
            return
        I.require(anykept, "a_group_is_yielded_only_if_some_candidate_is_left")
        I.require(len(ys) == 1 and isinstance(ys[0], GroupV), "exactly_one_group_before_the_recursive_call")
        if not isinstance(ys[0], GroupV):
            return
        G = ys[0]
        B = st["B"]
        c0 = B.elem(z3.IntVal(0)).f["handler"].t
        # B[0] is the FIRST candidate not yet ranked
        I.require(z3.Exists([q], z3.And(kept(q), Lh(q) == c0, z3.ForAll([q2], z3.Implies(z3.And(0 <= q2, q2 < q), z3.Not(kept(q2)))))), "head_of_the_group_is_the_first_candidate_not_yet_ranked")
        I.require(G.first.f["handler"].t == c0, "the_group_starts_with_that_candidate")
        later = lambda x: z3.Exists([q], z3.And(kept(q), Lh(q) == x, x != c0, z3.Not(DOM(c0, x))))
        I.require(z3.ForAll([h], G.member(h) == z3.Or(h == c0, later(h))), "group_is_the_head_plus_the_unranked_candidates_it_does_not_dominate")
        I.require(G.single == z3.Not(z3.Exists([h], later(h))), "group_is_a_single_method_iff_the_head_dominates_every_other_unranked_candidate")
        I.require(z3.ForAll([h], env.get("processed").member(h) == z3.Or(proc0(h), later(h))), "the_tied_candidates_are_marked_as_ranked")
        # guarantee side of the premise of MultiTypeMap.resolve (mode U) "each method is in exactly one group": no member of this
        # group can be yielded again - it is marked as ranked (filtered out by every later call) or it is the head, which does
        # not occur in candidates[1:] (duplicate-free list)
        P1 = env.get("processed")
        I.require(z3.ForAll([h], z3.Implies(G.member(h), z3.Or(P1.member(h), z3.Not(z3.Exists([q], z3.And(1 <= q, q < B.length, B.elem(q).f["handler"].t == h)))))), "no_member_of_the_group_can_be_yielded_by_the_recursive_call")
        I.require(len(calls) == 1, "recursive_call_made_once")
        if len(calls) == 1:
            a = calls[0]
            I.require(isinstance(a, SymSeq) and z3.simplify(a.length - (z3.If(B.length - 1 >= 0, B.length - 1, 0))).eq(z3.IntVal(0)), "recursive_call_receives_the_unranked_candidates_without_the_head")

    return w, thunk, {"timeout_ms": 20000, "fail_fast": False}


def t_resolution_lemma():
    """Lemma over the contracts (no code): for ANY number of candidates and entries,
      complete  a candidate that beats every other one (higher priority, or equal priority and pointwise >= levels with
                a difference, or equal priority and equal levels and a higher tiebreak) is the head of the sorted list and
                the first group is that candidate alone (what resolve stores for a plain call)
      sound     if the first group is a single candidate, it beats every other candidate in that sense.
    Premises: mro.positions (sorted, duplicate-free list of the candidates; sort key = priority, sum of levels, tiebreak),
    mro._pull (first group, nothing ranked yet), Candidate.dominates (typemap_c.t_candidate, requires priority >=),
    lemma.sum_of_levels (typemap_c.t_sum_lemma: P(N) for every pair of level vectors)."""
    w = World()

    def thunk(I):
        n, Nn = z3.Ints("n N")
        P = z3.Function("L", z3.IntSort(), HS)
        posP = z3.Function("posL", HS, z3.IntSort())
        vec = z3.Function("level", HS, z3.IntSort(), z3.IntSort())
        SUM = z3.Function("sum_levels", HS, z3.IntSort())
        single = z3.Bool("first_group_single")
        a, b, x, o = z3.Consts("a b x o", HS)
        i, j, q = z3.Ints("i j q")
        cand = lambda t: z3.And(0 <= posP(t), posP(t) < n, P(posP(t)) == t)
        I.assume(z3.And(n >= 1, Nn >= 1))
        I.assume(z3.ForAll([i], z3.Implies(z3.And(0 <= i, i < n), posP(P(i)) == i), patterns=[P(i)]))
        pw = lambda s, t: z3.ForAll([j], z3.Implies(z3.And(0 <= j, j < Nn), vec(s, j) >= vec(t, j)))
        ne = lambda s, t: z3.Exists([j], z3.And(0 <= j, j < Nn, vec(s, j) != vec(t, j)))
        gt = lambda s, t: z3.Exists([j], z3.And(0 <= j, j < Nn, vec(s, j) > vec(t, j)))
        # lemma.sum_of_levels, for every pair
        I.assume(z3.ForAll([a, b], z3.Implies(pw(a, b), z3.And(SUM(a) >= SUM(b), z3.Implies(gt(a, b), SUM(a) > SUM(b)))), patterns=[z3.MultiPattern(SUM(a), SUM(b))]))
        key_ge = lambda s, t: z3.Or(prio(s) > prio(t), z3.And(prio(s) == prio(t), z3.Or(SUM(s) > SUM(t), z3.And(SUM(s) == SUM(t), tbk(s) >= tbk(t)))))
        I.assume(z3.ForAll([i, q], z3.Implies(z3.And(0 <= i, i < q, q < n), key_ge(P(i), P(q))), patterns=[z3.MultiPattern(P(i), P(q))]))
        # Candidate.dominates
        dom_spec = lambda s, t: z3.Or(prio(s) > prio(t), z3.And(prio(s) == prio(t), z3.Or(z3.And(ne(s, t), pw(s, t)), z3.And(z3.Not(ne(s, t)), tbk(s) > tbk(t)))))
        I.assume(z3.ForAll([a, b], z3.Implies(prio(a) >= prio(b), DOM(a, b) == dom_spec(a, b)), patterns=[DOM(a, b)]))
        # mro._pull with nothing ranked yet
        I.assume(single == z3.Not(z3.Exists([q], z3.And(1 <= q, q < n, z3.Not(DOM(P(0), P(q)))))))
        beats = dom_spec
        wn = z3.Const("w", HS)
        I.assume(cand(wn))
        wins = z3.ForAll([o], z3.Implies(z3.And(cand(o), o != wn), beats(wn, o)))
        I.require(z3.Implies(wins, P(0) == wn), "complete.the_winner_is_the_head_of_the_sorted_list")
        I.require(z3.Implies(wins, single), "complete.the_first_group_is_the_winner_alone")
        I.require(z3.Implies(single, z3.ForAll([o], z3.Implies(z3.And(cand(o), o != P(0)), beats(P(0), o)))), "sound.a_single_first_group_beats_every_other_candidate")

    return w, thunk, {"timeout_ms": 20000, "fail_fast": False}
