"""utils.NameDatabase in mode U: the symbol table of generated code.

Generated entry points and value dispatchers refer to types, handlers and helper functions through symbols handed out by
`NameDatabase.__getitem__`; the text is then executed with `ndb.variables` as globals. Whatever a generated function means therefore
rests on a representation invariant of the database (any number of entries):

  WF(db):  every symbol bound in `variables` is in `registered`;
           `names[id(v)] = n` implies `variables[n] is v`.

Contracts (all for an arbitrary well-formed database, arbitrary value):
  gensym(d)        returns a symbol that was NOT registered before, registers exactly that one (while loop with invariant);
  __getitem__(v)   literal values (int / float / str): their repr, nothing changes;
                   otherwise returns n with variables'[n] is v, WF(db'), and every other binding of `variables` is unchanged
                   (in particular no older symbol is re-bound: two distinct objects never share a symbol).

Environment (trusted): `id` is injective on live objects, `f"{a}{i}"` is some string function of (a, i), `re.match` returns a value
that is only tested for truth, `repr` of a literal is a string.
"""
import z3

from pyvc.interp import Builtin, LoopSpec, OutOfSubset, PyRaise, SymObj, ZV
from pyvc.world import World

StrS = z3.DeclareSort("Sym")
ObjS = z3.DeclareSort("Obj")

NOOBJ = z3.Const("no_object", ObjS)
DEFAULT = z3.Const("default_name", StrS)
fmt = z3.Function("fmt", StrS, z3.IntSort(), StrS)  # f"{desired_name}{i}"
name_of = z3.Function("name_attr", ObjS, StrS)  # getattr(value, "__name__", default)
has_name = z3.Function("has_name_attr", ObjS, z3.BoolSort())
is_lit = z3.Function("is_literal", ObjS, z3.BoolSort())
repr_of = z3.Function("repr", ObjS, StrS)
wellformed_ident = z3.Function("matches_identifier", StrS, z3.BoolSort())


class StrV(ZV):
    def __init__(self, t, k="str"):
        super().__init__(t, "str")

    def py_eq(self, I, other):
        if isinstance(other, StrV):
            return self.t == other.t
        return NotImplemented


class ObjV(ZV):
    def __init__(self, t, k="obj"):
        super().__init__(t, "obj")

    def py_is(self, I, other):
        if isinstance(other, ObjV):
            return self.t == other.t
        return False


class IdV(ZV):
    """id(value): injective, so the object term itself stands for it"""

    def __init__(self, t, k="id"):
        super().__init__(t, "id")


class StrSet(SymObj):
    def __init__(self, member):
        self.member = member

    def py_contains(self, I, x):
        if not isinstance(x, StrV):
            raise OutOfSubset("membership of a non-string in registered")
        return self.member(x.t)

    def py_getattr(self, I, name):
        if name == "add":

            def add(I, v):
                if not isinstance(v, StrV):
                    raise OutOfSubset("registered.add of a non-string")
                old, t = self.member, v.t
                self.member = lambda x: z3.Or(x == t, old(x))

            return Builtin("add", add)
        raise OutOfSubset(f"set.{name}")


class VarMap(SymObj):
    """variables: symbol -> object"""

    def __init__(self, has, val):
        self.has, self.val = has, val

    def py_setitem(self, I, k, v):
        if not isinstance(k, StrV) or not isinstance(v, ObjV):
            raise OutOfSubset("variables[...] = ... with unexpected key / value")
        h0, v0, kt, vt = self.has, self.val, k.t, v.t
        self.has = lambda s: z3.Or(s == kt, h0(s))
        self.val = lambda s: z3.If(s == kt, vt, v0(s))

    def py_getitem(self, I, k):
        I.require(self.has(k.t), "variables_key_present", exc="KeyError")
        return ObjV(self.val(k.t))

    def py_contains(self, I, k):
        return self.has(k.t)


class IdMap(SymObj):
    """names: id(object) -> symbol"""

    def __init__(self, has, val):
        self.has, self.val = has, val

    def py_setitem(self, I, k, v):
        if not isinstance(k, IdV) or not isinstance(v, StrV):
            raise OutOfSubset("names[...] = ... with unexpected key / value")
        h0, v0, kt, vt = self.has, self.val, k.t, v.t
        self.has = lambda o: z3.Or(o == kt, h0(o))
        self.val = lambda o: z3.If(o == kt, vt, v0(o))

    def py_getitem(self, I, k):
        if not isinstance(k, IdV):
            raise OutOfSubset("names[...] with unexpected key")
        I.require(self.has(k.t), "names_key_present", exc="KeyError")
        return StrV(self.val(k.t))

    def py_contains(self, I, k):
        if not isinstance(k, IdV):
            raise OutOfSubset("`in names` with unexpected key")
        return self.has(k.t)


def _map_get(self, I, name):
    """dict.get(key, default=None) on the functional maps"""
    if name == "get":

        def get(I, k, default=None):
            if I.branch(self.py_contains(I, k)):
                return self.py_getitem(I, k)
            return default

        return Builtin("get", get)
    raise OutOfSubset(f"{type(self).__name__}.{name}")


VarMap.py_getattr = _map_get
IdMap.py_getattr = _map_get


class DB(SymObj):
    FIELDS = ("default_name", "count", "variables", "names", "registered")

    def __init__(self, I, w):
        self.w = w
        reg = I.fresh_fn("registered", [StrS], z3.BoolSort())
        vh, vv = I.fresh_fn("var_has", [StrS], z3.BoolSort()), I.fresh_fn("var_val", [StrS], ObjS)
        nh, nv = I.fresh_fn("nm_has", [ObjS], z3.BoolSort()), I.fresh_fn("nm_val", [ObjS], StrS)
        self.registered = StrSet(lambda s: reg(s))
        self.variables = VarMap(lambda s: vh(s), lambda s: vv(s))
        self.names = IdMap(lambda o: nh(o), lambda o: nv(o))
        self.other_writes = []

    def wf(self):
        s, o = z3.Const("s", StrS), z3.Const("o", ObjS)
        return z3.And(
            z3.ForAll([s], z3.Implies(self.variables.has(s), self.registered.member(s))),
            z3.ForAll([o], z3.Implies(self.names.has(o), z3.And(self.variables.has(self.names.val(o)), self.variables.val(self.names.val(o)) == o))),
        )

    def py_getattr(self, I, name):
        if name in ("registered", "variables", "names"):
            return getattr(self, name)
        if name == "default_name":
            return StrV(DEFAULT)
        if name in ("gensym", "register", "__getitem__"):
            qual = f"utils:NameDatabase.{name}"
            return Builtin(name, lambda I, *a, **k: I.call_repo(qual, [self, *a], k))
        raise OutOfSubset(f"NameDatabase.{name}")

    def py_setattr(self, I, name, v):
        self.other_writes.append(name)
        if name in ("registered", "variables", "names"):
            setattr(self, name, v)


class NameDBWorld(World):
    def __init__(self, inline_gensym):
        super().__init__()
        self.inline("utils:NameDatabase.__getitem__", "utils:NameDatabase.register")
        if inline_gensym:
            self.inline("utils:NameDatabase.gensym")
        else:

            def gensym_contract(I, args, kwargs):
                db, desired = args
                r = I.fresh("gensym", StrS)
                I.assume(z3.Not(db.registered.member(r)))
                old = db.registered.member
                db.registered.member = lambda x: z3.Or(x == r, old(x))
                self.ghost["gensym_arg"] = desired
                return StrV(r)

            self.contract("utils:NameDatabase.gensym", gensym_contract)
        self.ghost = {}

        def _isinstance(I, v, classes):
            if isinstance(v, ObjV) and isinstance(classes, tuple) and {getattr(c, "name", None) or getattr(c, "__name__", None) for c in classes} == {"int", "float", "str"}:
                return ZV(is_lit(v.t), "bool")
            raise OutOfSubset("isinstance in NameDatabase")

        def _repr(I, v):
            return StrV(repr_of(v.t))

        def _id(I, v):
            if not isinstance(v, ObjV):
                raise OutOfSubset("id of an unexpected value")
            return IdV(v.t)

        def _getattr(I, v, name, default=None):
            if isinstance(v, ObjV) and name == "__name__" and isinstance(default, StrV):
                return StrV(z3.If(has_name(v.t), name_of(v.t), default.t))
            raise OutOfSubset("getattr in NameDatabase")

        for nm, f in (("isinstance", _isinstance), ("repr", _repr), ("id", _id), ("getattr", _getattr)):
            self.set_global("utils", nm, Builtin(nm, f))
        self.set_global("utils", "re", ReMod())

    def fstring(self, I, e, env, mod):
        """f"{desired_name}{i}": some string function of the two values"""
        import ast

        vals = e.values
        if len(vals) == 2 and all(isinstance(v, ast.FormattedValue) and v.format_spec is None and v.conversion == -1 for v in vals):
            a, b = (I.eval(v.value, env, mod) for v in vals)
            if isinstance(a, StrV) and isinstance(b, (int, ZV)) and not isinstance(b, StrV):
                return StrV(fmt(a.t, I.int_term(b)))
        raise OutOfSubset("f-string of an unexpected shape in NameDatabase")


class ReMod(SymObj):
    def py_getattr(self, I, name):
        if name == "match":

            def match(I, *a, **k):
                s = k.get("string", a[1] if len(a) > 1 else None)
                if not isinstance(s, StrV):
                    raise OutOfSubset("re.match on an unexpected value")
                return ZV(wellformed_ident(s.t), "bool")

            return Builtin("match", match)
        raise OutOfSubset(f"re.{name}")


def t_gensym():
    w = NameDBWorld(inline_gensym=True)
    s = z3.Const("s", StrS)

    def inv(I, env, k, seq):
        db = env.get("self")
        old = w.ghost["old_reg"]
        # the set is not touched inside the loop; `name` is the desired name or one of its numbered forms
        return z3.And(z3.ForAll([s], db.registered.member(s) == old(s)), I.int_term(env.get("i")) >= 1)

    w.loop("utils:NameDatabase.gensym", 0, LoopSpec(inv, modifies=["name", "i"]))

    def thunk(I):
        w.ghost.clear()
        db = DB(I, w)
        old = db.registered.member
        w.ghost["old_reg"] = old
        d = StrV(I.fresh("desired", StrS))
        try:
            r = I.call_repo("utils:NameDatabase.gensym", [db, d], {})
        except PyRaise as e:
            I.require(False, f"gensym_raises_nothing[{e.exc.cls}]")
            return
        I.require(isinstance(r, StrV), "gensym_returns_a_string")
        if not isinstance(r, StrV):
            return
        I.require(z3.Not(old(r.t)), "the_symbol_was_not_registered_before")
        I.require(z3.ForAll([s], db.registered.member(s) == z3.Or(s == r.t, old(s))), "exactly_the_new_symbol_is_registered")
        I.require(not db.other_writes, "gensym_writes_no_other_field")

    return w, thunk, {"timeout_ms": 20000, "fail_fast": False}


def t_getitem():
    w = NameDBWorld(inline_gensym=False)
    s, o = z3.Const("s", StrS), z3.Const("o", ObjS)

    def thunk(I):
        w.ghost.clear()
        db = DB(I, w)
        I.assume(db.wf())
        v0h, v0v = db.variables.has, db.variables.val
        n0h, n0v = db.names.has, db.names.val
        r0 = db.registered.member
        val = ObjV(I.fresh("value", ObjS))
        try:
            r = I.call_repo("utils:NameDatabase.__getitem__", [db, val], {})
        except PyRaise as e:
            I.require(False, f"getitem_raises_nothing[{e.exc.cls}]")
            return
        I.require(isinstance(r, StrV), "a_symbol_is_returned")
        if not isinstance(r, StrV):
            return
        lit = is_lit(val.t)
        I.require(db.wf(), "database_stays_well_formed")
        I.require(z3.Implies(lit, r.t == repr_of(val.t)), "a_literal_is_written_as_its_repr")
        I.require(z3.Implies(lit, z3.And(z3.ForAll([s], z3.And(db.variables.has(s) == v0h(s), db.variables.val(s) == v0v(s))), z3.ForAll([s], db.registered.member(s) == r0(s)))), "a_literal_changes_nothing")
        I.require(z3.Implies(z3.Not(lit), z3.And(db.variables.has(r.t), db.variables.val(r.t) == val.t)), "the_symbol_is_bound_to_exactly_this_object")
        I.require(z3.ForAll([s], z3.Implies(v0h(s), z3.And(db.variables.has(s), db.variables.val(s) == v0v(s)))), "no_older_symbol_is_rebound")
        I.require(z3.ForAll([s], z3.Implies(z3.And(db.variables.has(s), s != r.t), v0h(s))), "at_most_one_symbol_is_added")
        I.require(z3.Implies(z3.And(z3.Not(lit), n0h(val.t)), r.t == n0v(val.t)), "an_object_seen_before_keeps_its_symbol")
        I.require(z3.ForAll([o], z3.Implies(n0h(o), z3.And(db.names.has(o), db.names.val(o) == n0v(o)))), "symbols_of_other_objects_are_kept")
        I.require(not db.other_writes, "getitem_rebinds_no_field_of_the_database")

    return w, thunk, {"timeout_ms": 20000, "fail_fast": False}


def t_two_objects():
    """lemma over the contract of __getitem__: two lookups of distinct non-literal objects give distinct symbols, each bound to its object"""
    w = NameDBWorld(inline_gensym=False)

    def thunk(I):
        w.ghost.clear()
        db = DB(I, w)
        I.assume(db.wf())
        a, b = ObjV(I.fresh("a", ObjS)), ObjV(I.fresh("b", ObjS))
        I.assume(z3.And(a.t != b.t, z3.Not(is_lit(a.t)), z3.Not(is_lit(b.t))))
        ra = I.call_repo("utils:NameDatabase.__getitem__", [db, a], {})
        rb = I.call_repo("utils:NameDatabase.__getitem__", [db, b], {})
        I.require(ra.t != rb.t, "distinct_objects_get_distinct_symbols")
        I.require(z3.And(db.variables.val(ra.t) == a.t, db.variables.val(rb.t) == b.t), "each_symbol_still_means_its_object")

    return w, thunk, {"timeout_ms": 20000, "fail_fast": False}
