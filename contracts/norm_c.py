"""types.TypeNormalizer.__call__ (and Union/Intersection.__init__): the canonical form of each spelling of an
annotation (DESIGN C15 / C14), per spelling form, on the real AST.

Forms covered deductively: bare `type`, typing.Any, a missing annotation, a plain class, a type[...] alias, a tuple of
plain classes, an A | B object, Annotated[X, ...] and a string naming X (for X any of the other forms).  Generic
aliases with a registered handler (Literal, tuple[...], Sequence, ...) go through handler code in abc.py and typing
internals and are covered in R mode (native/c15_spellings.py).
"""
import z3

from pyvc.interp import Builtin, ExcV, OutOfSubset, PyRaise, SymObj, SymSeq
from pyvc.world import ModuleV, PyClassToken

from .mro_c import ANYT, MKTYPE, MroWorld, mktype_axioms
from .universe import K, OBJECT, TYPE, TyS, TyV, arg, kind, nargs

MKUNION = None


class Form(SymObj):
    concrete_identity = True

    def __init__(self, name, **kw):
        self.name = name
        self.__dict__.update(kw)

    def py_getattr(self, I, name):
        if name == "__origin__" and self.name == "annotated":
            return self.inner
        if name == "__args__" and self.name == "pyunion":
            return tuple(self.members)
        raise PyRaise(ExcV("AttributeError", tag=name))

    def py_hasattr(self, I, name):
        return (name == "__origin__" and self.name == "annotated") or (name == "__args__" and self.name in ("pyunion", "annotated"))

    def __repr__(self):
        return f"<form {self.name}>"


class NormWorld(MroWorld):
    def __init__(self):
        super().__init__(unfold=0, sc_unfold=0)
        self.axiom(lambda I: mktype_axioms())
        self.inline("types:TypeNormalizer.__call__")
        self.EMPTY = Form("empty")
        self.ANNOT = "ANNOTATED_ALIAS"
        self.unions = []
        self.set_global("types", "typing", ModuleV("typing", {"Any": TyV(ANYT), "_AnnotatedAlias": self.ANNOT}))
        self.set_global("types", "inspect", ModuleV("inspect", {"_empty": self.EMPTY}))
        self.set_global("types", "UnionTypes", ())
        self.set_global("types", "UnionType", "UNIONTYPE")
        self.set_global("types", "Union", UnionCtor(self))
        self.builtins["eval"] = Builtin("eval", lambda I, s, glb=None: s.denotes)
        self.trusted += ["eval of a string annotation in the function's globals yields the object the string names"]

    def isinstance_(self, I, x, cls):
        if cls is self.ANNOT:
            return isinstance(x, Form) and x.name == "annotated"
        if cls == "UNIONTYPE":
            return isinstance(x, Form) and x.name == "pyunion"
        if isinstance(cls, PyClassToken) and cls.name == "str":
            return isinstance(x, Form) and x.name == "string"
        if getattr(cls, "name", None) == "tuple":
            return isinstance(x, tuple)
        from pyvc.interp import RepoClass

        if isinstance(cls, RepoClass) and cls.qual == "dependent:DependentType":
            return isinstance(x, TyV) and I.branch(z3.Or(kind(x.t) == K["Equals"], kind(x.t) == K["FuncDep"], kind(x.t) == K["Product"])) if isinstance(x, TyV) else False
        return super().isinstance_(I, x, cls)

    def class_getitem(self, I, cls, key):
        if isinstance(cls, PyClassToken) and cls.name == "type":
            return TyV(MKTYPE(self.as_ty(I, key).t))
        raise OutOfSubset("class_getitem")

    def is_(self, a, b):
        return a is b

    def getattr_default(self, I, x, name):
        return None


class UnionCtor(SymObj):
    """ovld.types.Union[...]: by contract a Union term whose members are the given types, in the given order."""

    def __init__(self, w):
        self.w = w

    def py_getitem(self, I, key):
        members = list(key) if isinstance(key, (tuple, list)) else [key]
        u = TyV(I.fresh("union", TyS))
        I.assume(kind(u.t) == K["Union"])
        I.assume(nargs(u.t) == len(members))
        for i, m in enumerate(members):
            I.assume(arg(u.t, i) == self.w.as_ty(I, m).t)
        self.w.unions.append((u, members))
        return u


def forms(w):
    A, B = TyV(z3.Const("clsA", TyS)), TyV(z3.Const("clsB", TyS))
    base = {
        "bare_type": (TyV(TYPE), ("ty", MKTYPE(OBJECT))),
        "Any": (TyV(ANYT), ("ty", OBJECT)),
        "missing": (w.EMPTY, ("ty", OBJECT)),
        "plain_class": (A, ("ty", A.t)),
        "type_alias": (TyV(MKTYPE(A.t)), ("ty", MKTYPE(A.t))),
        "tuple_of_classes": ((A, B), ("union", [A.t, B.t])),
        "pipe_union": (Form("pyunion", members=[A, B]), ("union", [A.t, B.t])),
    }
    out = dict(base)
    for k, (val, exp) in base.items():
        out[f"Annotated[{k}]"] = (Form("annotated", inner=val), exp)
        out[f"string[{k}]"] = (Form("string", denotes=val), exp)
    return out, (A, B)


def t_normalize(form_name):
    def build():
        w = NormWorld()

        def thunk(I):
            w.unions.clear()
            fs, (A, B) = forms(w)
            val, exp = fs[form_name]
            for c in (A, B):
                I.assume(kind(c.t) == K["Class"])
                I.assume(z3.And(c.t != TYPE, c.t != ANYT))
            fn = Form("fn")

            class NormalizerV(Form):
                def py_call(self_, I2, args, kwargs):
                    return I2.call_repo("types:TypeNormalizer.__call__", [self_, *args], kwargs)

                def py_getattr(self_, I2, name):
                    # any other state the normaliser object may carry (e.g. a memo) is unknown to the contract:
                    # the canonical form must not depend on it
                    from .typemap_c import OpaqueMap

                    return self_.__dict__.setdefault("_unknown", {}).setdefault(name, OpaqueMap(name))

                def py_hasattr(self_, I2, name):
                    return True

            slf = NormalizerV("normalizer")
            try:
                r = I.call_repo("types:TypeNormalizer.__call__", [slf, val, fn], {})
            except PyRaise as e:
                I.require(False, f"no_exception[{e.exc.cls}:{e.exc.tag}]")
                return
            try:
                r = w.as_ty(I, r)  # `object` / `type` class tokens are type terms too
            except OutOfSubset:
                pass
            if exp[0] == "ty":
                I.require(isinstance(r, TyV) and r.t == exp[1], "canonical_form")
            else:
                ok = isinstance(r, TyV)
                I.require(ok, "canonical_form.is_a_union_type")
                if ok:
                    I.require(z3.And(kind(r.t) == K["Union"], nargs(r.t) == len(exp[1]), *[arg(r.t, i) == m for i, m in enumerate(exp[1])]), "canonical_form.union_of_the_members_in_order")

        return w, thunk, {"form": form_name, "timeout_ms": 8000, "fail_fast": True}

    return build


FORM_NAMES = ["bare_type", "Any", "missing", "plain_class", "type_alias", "tuple_of_classes", "pipe_union"]
ALL_FORMS = FORM_NAMES + [f"Annotated[{k}]" for k in FORM_NAMES] + [f"string[{k}]" for k in FORM_NAMES]


def t_combinator_init(which):
    """Union.__init__ / Intersection.__init__: the members are exactly the constructor arguments, in order."""

    def build():
        from pyvc.world import World

        w = World()
        cname = "Union" if which == "union" else "Intersection"
        w.inline(f"types:{cname}.__init__")

        class Obj(SymObj):
            def __init__(self):
                self.a = {}

            def py_setattr(self, I, n, v):
                self.a[n] = v

            def py_getattr(self, I, n):
                return self.a[n]

        def thunk(I):
            o = Obj()
            n = I.fresh("n", z3.IntSort())
            f = I.fresh_fn("member", [z3.IntSort()], TyS)
            I.assume(n >= 0)
            members = SymSeq(n, lambda i: TyV(f(i)), "members")
            node = __import__("pyvc.source", fromlist=["function"]).function(f"types:{cname}.__init__")
            I.exec_function(node, "types", f"types:{cname}.__init__", [o], {}, preset={node.args.vararg.arg: members} if node.args.vararg else None)
            for attr in ("types", "__args__"):
                v = o.a.get(attr)
                I.require(v is members, f"{attr}_is_exactly_the_constructor_arguments_in_order")

        return w, thunk, {"which": which}

    return build
