"""The type universe of DESIGN.md section 3.1 / 3.2: sorts, kinds, accessors, and the routing of Python's
object protocol (hasattr / attribute lookup / issubclass / isinstance / get_origin) for each kind of
type object ovld deals with.  Only the *routing* is model; the bodies routed to are real repository
code, symbolically executed from the AST.  The routing facts are checked against live objects by
/verif/native/conformance.py on every run.
"""
import ast

import z3

from pyvc.interp import Builtin, ExcV, OutOfSubset, PyRaise, Rec, RepoClass, RepoFn, Stream, SymObj, SymSeq, SymSet, ZV
from pyvc.world import BoundMethod, ModuleV, OpaqueStr, PyClassToken, World

OrderS, (LESS, MORE, SAME, NONE) = z3.EnumSort("Order", ["LESS", "MORE", "SAME", "NONE"])
ORDER = {"LESS": LESS, "MORE": MORE, "SAME": SAME, "NONE": NONE}
TyS = z3.DeclareSort("Ty")
ObjS = z3.DeclareSort("Obj")  # opaque Python values (Literal values, predicate parameters, names)
KIND_NAMES = ["Class", "Alias", "Union", "Inter", "Exactly", "Strict", "HasMethod", "ClassCheck", "Equals", "FuncDep", "Product", "PyUnion"]
KindS, _kinds = z3.EnumSort("Kind", KIND_NAMES)
K = dict(zip(KIND_NAMES, _kinds))

kind = z3.Function("kind", TyS, KindS)
nargs = z3.Function("nargs", TyS, z3.IntSort())
arg = z3.Function("arg", TyS, z3.IntSort(), TyS)  # members / alias args / product element types
pval = z3.Function("pval", TyS, z3.IntSort(), ObjS)  # opaque parameters of Equals / FuncDep / HasMethod
base = z3.Function("base", TyS, TyS)  # Exactly/Strict base, Alias origin, dependent bound
rank = z3.Function("rank", TyS, z3.IntSort())
sub = z3.Function("sub", TyS, TyS, z3.BoolSort())  # issubclass on plain classes (a preorder with top OBJECT)
OBJECT = z3.Const("OBJECT", TyS)
TUPLE = z3.Const("TUPLE", TyS)
TYPE = z3.Const("TYPE", TyS)
ANY = z3.Const("ANY", ObjS)
func_of = z3.Function("func_of", TyS, ObjS)  # the predicate class of a FuncDep type (type(self))
ccheck = z3.Function("ccheck", TyS, TyS, z3.BoolSort())  # user class predicate of class_check types
hasmeth = z3.Function("hasmeth", TyS, ObjS, z3.BoolSort())  # hasattr(cls, name)
TO = z3.Function("TO", TyS, TyS, OrderS)
SC = z3.Function("SC", TyS, TyS, z3.BoolSort())
TYPING_ALIAS = z3.Function("typing_alias", TyS, z3.BoolSort())  # typing.List[int] (True) vs list[int] (False)
ISSUB = z3.Function("ISSUB", TyS, TyS, z3.BoolSort())  # issubclass below the unfolding depth (pure, total on classes)
metacls = z3.Function("metacls", TyS, ObjS)  # type(t): the metaclass / dependent-type class of a type object
MC_METAMC, MC_EQUALS, MC_PRODUCT, HC_UNION, HC_INTER, HC_SFH = z3.Consts("MC_METAMC MC_EQUALS MC_PRODUCT HC_UNION HC_INTER HC_SFH", ObjS)
HOOKY = z3.Function("H", TyS, z3.BoolSort())  # hereditarily contains a constructor with a two-sided order hook

METAMC = ["Union", "Inter", "Exactly", "Strict", "HasMethod", "ClassCheck"]
SFH = ["Exactly", "Strict", "HasMethod", "ClassCheck"]
DEP = ["Equals", "FuncDep", "Product"]
TROUBLE = ["Union", "Inter", "Exactly", "Equals", "FuncDep", "Product"]
CONTAINER = ["Union", "Inter", "Alias", "Product"]
HAS_BASE = ["Exactly", "Strict", "Alias", "Equals", "FuncDep", "Product"]


def is_kind(t, names):
    return z3.Or(*[kind(t) == K[n] for n in names])


def opp(x):
    return z3.If(x == LESS, MORE, z3.If(x == MORE, LESS, x))


def background():
    """Axioms of the type universe (DESIGN 3.1). Each is a structural fact about type *terms*."""
    t, u, v = z3.Consts("t u v", TyS)
    i = z3.Int("i")
    ax = [
        z3.ForAll([t], rank(t) >= 0),
        z3.ForAll([t], nargs(t) >= 0),
        z3.ForAll([t, i], z3.Implies(z3.And(is_kind(t, CONTAINER), 0 <= i, i < nargs(t)), rank(arg(t, i)) < rank(t)), patterns=[z3.MultiPattern(arg(t, i), rank(t))]),
        z3.ForAll([t], z3.Implies(is_kind(t, HAS_BASE), rank(base(t)) < rank(t)), patterns=[base(t)]),
        # plain classes: issubclass is a preorder with top `object`
        kind(OBJECT) == K["Class"],
        kind(TUPLE) == K["Class"],
        kind(TYPE) == K["Class"],
        z3.ForAll([t], z3.Implies(kind(t) == K["Class"], z3.And(sub(t, t), sub(t, OBJECT)))),
        z3.ForAll([t, u, v], z3.Implies(z3.And(sub(t, u), sub(u, v)), sub(t, v))),
        z3.ForAll([t], z3.Implies(z3.And(kind(t) == K["Class"], sub(OBJECT, t)), t == OBJECT)),
        z3.Not(sub(OBJECT, TUPLE)),
        # the origin of an alias is a plain class; the bound of tuple[...] is tuple
        z3.ForAll([t], z3.Implies(kind(t) == K["Alias"], kind(base(t)) == K["Class"]), patterns=[base(t)]),
        z3.ForAll([t], z3.Implies(kind(t) == K["Product"], base(t) == TUPLE), patterns=[base(t)]),
        z3.ForAll([t], z3.Implies(kind(t) == K["HasMethod"], nargs(t) == 1), patterns=[nargs(t)]),
        # issubclass below the unfolding depth
        z3.ForAll([t, u], z3.Implies(z3.And(kind(t) == K["Class"], kind(u) == K["Class"]), ISSUB(t, u) == sub(t, u)), patterns=[ISSUB(t, u)]),
        z3.ForAll([t, u], z3.Implies(is_kind(u, DEP), ISSUB(t, u) == (t == u)), patterns=[ISSUB(t, u)]),
        z3.ForAll([t, u], z3.Implies(z3.And(is_kind(t, METAMC + DEP), kind(u) == K["Class"]), ISSUB(t, u) == (u == OBJECT)), patterns=[ISSUB(t, u)]),
        # H: hereditarily contains a constructor whose order hook is two-sided
        z3.ForAll([t], z3.Implies(is_kind(t, TROUBLE), HOOKY(t))),
        z3.ForAll([t, i], z3.Implies(z3.And(is_kind(t, CONTAINER), 0 <= i, i < nargs(t), HOOKY(arg(t, i))), HOOKY(t)), patterns=[z3.MultiPattern(arg(t, i), HOOKY(t))]),
        z3.ForAll([t], z3.Implies(z3.And(is_kind(t, ["Strict", "Alias"]), HOOKY(base(t))), HOOKY(t)), patterns=[base(t)]),
    ]
    return ax


EXTENSIONALITY = None


DEPCLS = z3.Function("is_depclass", ObjS, z3.BoolSort())  # the object is a subclass of DependentType


def metaclass_axioms():
    t = z3.Const("t", TyS)
    return [
        z3.ForAll([t], DEPCLS(metacls(t)) == is_kind(t, DEP), patterns=[metacls(t)]),
        z3.Distinct(MC_METAMC, MC_EQUALS, MC_PRODUCT, HC_UNION, HC_INTER, HC_SFH),
        z3.ForAll([t], z3.Implies(is_kind(t, METAMC), metacls(t) == MC_METAMC), patterns=[metacls(t)]),
        z3.ForAll([t], z3.Implies(kind(t) == K["Equals"], metacls(t) == MC_EQUALS), patterns=[metacls(t)]),
        z3.ForAll([t], z3.Implies(kind(t) == K["Product"], metacls(t) == MC_PRODUCT), patterns=[metacls(t)]),
        z3.ForAll([t], z3.Implies(kind(t) == K["FuncDep"], z3.And(metacls(t) == func_of(t), metacls(t) != MC_METAMC, metacls(t) != MC_EQUALS, metacls(t) != MC_PRODUCT)), patterns=[metacls(t)]),
        z3.ForAll([t], z3.Implies(is_kind(t, ["Class", "Alias", "PyUnion"]), z3.And(metacls(t) != MC_METAMC, metacls(t) != MC_EQUALS, metacls(t) != MC_PRODUCT)), patterns=[metacls(t)]),
    ]


def extensionality():
    """Two terms of one kind with equal components are the same element (mirrors the __eq__ methods;
    discharged against the real __eq__ bodies by the eq/agrees obligations of C15)."""
    t, u = z3.Consts("t u", TyS)
    i = z3.Int("i")
    same_pvals = z3.And(nargs(t) == nargs(u), z3.ForAll([i], z3.Implies(z3.And(0 <= i, i < nargs(t)), pval(t, i) == pval(u, i))))
    same_args = z3.And(nargs(t) == nargs(u), z3.ForAll([i], z3.Implies(z3.And(0 <= i, i < nargs(t)), arg(t, i) == arg(u, i))))
    return [
        # (no such axiom for Exactly / StrictSubclass / HasMethod: SingleFunctionHandler defines no __eq__, two
        #  separately built Exactly[A] are different objects that compare unequal)
        z3.ForAll([t, u], z3.Implies(z3.And(is_kind(t, ["Union", "Inter"]), kind(t) == kind(u), same_args), t == u)),
        # ParametrizedDependentType.__eq__ for tuple[...] types: same element types (the bound is always tuple)
        z3.ForAll([t, u], z3.Implies(z3.And(kind(t) == K["Product"], kind(u) == K["Product"], same_args), t == u)),
        z3.ForAll([t, u], z3.Implies(z3.And(is_kind(t, ["Equals", "FuncDep"]), kind(t) == kind(u), metacls(t) == metacls(u), same_pvals, base(t) == base(u)), t == u)),
    ]


# --------------------------------------------------------------------------------------------------
# values


class OrderV(ZV):
    def __init__(self, t, k="order"):
        super().__init__(t, "order")

    def py_getattr(self, I, name):
        if name in ORDER:  # `order.SAME` through an instance
            return OrderV(ORDER[name])
        if name in ("opposite",):
            return RepoFn("mro:Order.opposite", bound=self)
        raise OutOfSubset(f"Order.{name}")


class OrderClassV(SymObj):
    def py_getattr(self, I, name):
        if name in ORDER:
            return OrderV(ORDER[name])
        if name in ("merge", "opposite"):
            return RepoFn(f"mro:Order.{name}")
        raise OutOfSubset(f"Order.{name}")


SAME_OBJECT = z3.Function("same_object", TyS, z3.BoolSort())


class ObjV(ZV):
    def __init__(self, t, k="obj"):
        super().__init__(t, "obj")


class TyV(ZV):
    """A type object. All behaviour is routed by kind(t) (symbolic)."""

    def __init__(self, t, k="ty"):
        super().__init__(t, "ty")

    def kind_in(self, names):
        return is_kind(self.t, names)

    def py_hasattr(self, I, name):
        if isinstance(name, ObjV):
            return hasmeth(self.t, name.t)
        if name in ("__type_order__", "__is_supertype__"):
            return self.kind_in(METAMC + DEP)
        if name == "__is_subtype__":
            return self.kind_in(METAMC)
        if name == "codegen":
            return self.kind_in(METAMC + DEP)
        if name == "__origin__":
            return self.kind_in(["Alias", "Equals", "FuncDep", "Product"])
        if name == "__args__":
            return self.kind_in(CONTAINER + ["Equals", "FuncDep", "Exactly", "Strict", "HasMethod", "ClassCheck"])
        if name == "with_bound":
            return self.kind_in(DEP)
        if _dep_class_const(name) is not None:
            return self.kind_in(DEP)
        raise OutOfSubset(f"hasattr(type, {name!r})")

    def py_getattr(self, I, name):
        if name in ("__type_order__", "__is_supertype__", "__is_subtype__", "__subclasscheck__", "__instancecheck__"):
            return HookMethod(self, name)
        if name == "_handler":
            I.require(self.kind_in(METAMC), "attr._handler.defined", exc="AttributeError")
            return HandlerV(self)
        if name == "bound":
            I.require(self.kind_in(DEP), "attr.bound.defined", exc="AttributeError")
            return TyV(base(self.t))
        if name == "parameters":
            I.require(self.kind_in(DEP), "attr.parameters.defined", exc="AttributeError")
            return ParamSeq(self)
        if name == "__origin__":
            I.require(self.kind_in(["Alias", "Equals", "FuncDep", "Product"]), "attr.__origin__.defined", exc="AttributeError")
            if I.branch(kind(self.t) == K["Alias"]):
                return TyV(base(self.t))
            return None  # ParametrizedDependentType sets __origin__ = None
        if name == "__args__":
            I.require(self.kind_in(CONTAINER + ["Equals", "FuncDep", "Exactly", "Strict", "HasMethod", "ClassCheck"]), "attr.__args__.defined", exc="AttributeError")
            return SymSeq(nargs(self.t), lambda i: TyV(arg(self.t, i)), "args")
        consts = _dep_class_const(name)
        if consts is not None:
            # class-level constants of DependentType and its subclasses (exclusive_type, keyable_type, ...), read from the source
            I.require(self.kind_in(DEP), f"attr.{name}.defined", exc="AttributeError")
            base_v = consts.get("DependentType")
            if isinstance(base_v, bool):
                eq_v = consts.get("Equals", base_v)
                pr_v = consts.get("ProductType", base_v)
                fd_v = consts.get("FuncDependentType", base_v)
                b = lambda v: z3.BoolVal(bool(v))
                return ZV(z3.If(kind(self.t) == K["Equals"], b(eq_v), z3.If(kind(self.t) == K["Product"], b(pr_v), b(fd_v))), "bool")
        raise OutOfSubset(f"attribute {name} of a type")

    def py_isinstance(self, I, cls):
        if isinstance(cls, PyClassToken) and cls.name == "type":
            return z3.Not(self.kind_in(["Alias", "PyUnion"]))
        if isinstance(cls, PyClassToken) and cls.name in ("tuple", "str", "int"):
            return False
        if isinstance(cls, RepoClass):
            if cls.qual == "dependent:DependentType":
                return self.kind_in(DEP)
            if cls.qual == "dependent:ProductType":
                return self.kind_in(["Product"])
            if cls.qual in ("mro:TypeRelationship",):
                return False
        return NotImplemented

    def py_eq(self, I, other):
        """`==` between two type objects: at the top level through the real __eq__ bodies (python_eq); for
        components inside quantified contexts, and below the first unfolding, identity of type terms (the
        induction hypothesis eq/sound + eq/complete for strictly smaller terms)."""
        if not isinstance(other, TyV) or not getattr(I.world, "real_eq", False):
            return NotImplemented
        if I.pure or I.path.binders or getattr(I.path, "eq_depth", 0) >= 1:
            return self.t == other.t
        I.path.eq_depth = 1
        try:
            return I.world.python_eq(I, self, other)
        finally:
            I.path.eq_depth = 0

    def py_is(self, I, other):
        """`a is b` between two type objects: object identity.  Classes (and the kinds without structural equality) are
        identified with their terms; for the kinds whose equal copies are distinct objects (ovld's Union / Intersection,
        dependent types, generic aliases, typing unions) equality of terms is necessary but not sufficient."""
        if not isinstance(other, TyV):
            return NotImplemented
        # one answer per type term: either all the equal copies in play are one object, or none are (a consistent, coarse
        # model: identity must not change between two evaluations of the same comparison)
        return z3.And(self.t == other.t, z3.Or(z3.Not(is_kind(self.t, ["Union", "Inter", "Equals", "FuncDep", "Product", "Alias", "PyUnion"])), SAME_OBJECT(self.t)))

    def py_compare(self, I, op, other):
        # `self < other` between dependent types -> type(self).__lt__(self, other)
        if isinstance(op, ast.Lt) and isinstance(other, TyV):
            if I.branch(self.kind_in(["FuncDep"])):
                return I.truth(I.call_repo("dependent:FuncDependentType.__lt__", [self, other], {}))
            return I.truth(I.call_repo("dependent:DependentType.__lt__", [self, other], {}))
        return NotImplemented


def _dep_class_const(name):
    """Class-level constant `name = <literal>` in DependentType / Equals / ProductType / FuncDependentType (from the source)."""
    from pyvc import source

    m = source.module("dependent")
    out = {}
    for cn in ("DependentType", "ParametrizedDependentType", "FuncDependentType", "Equals", "ProductType"):
        node = m.classes.get(cn)
        if node is None:
            continue
        for stn in node.body:
            if isinstance(stn, ast.Assign) and len(stn.targets) == 1 and isinstance(stn.targets[0], ast.Name) and stn.targets[0].id == name and isinstance(stn.value, ast.Constant):
                out[cn] = stn.value.value
    return out if "DependentType" in out else None


class ParamSeq(SymSeq):
    """`t.parameters`: element types for Product, opaque values otherwise (decided per access by kind)."""

    def __init__(self, ty):
        self.ty = ty
        super().__init__(nargs(ty.t), self._elem, "params")

    def _elem(self, i):
        return ParamV(self.ty, i)


class ParamV(ZV):
    """One parameter of a dependent type: a type (Product) or an opaque value; both views are kept."""

    def __init__(self, ty, i):
        super().__init__(pval(ty.t, i), "obj")
        self.ty, self.i = ty, i

    def py_eq(self, I, other):
        if isinstance(other, ParamV):
            return z3.If(kind(self.ty.t) == K["Product"], arg(self.ty.t, self.i) == arg(other.ty.t, other.i), pval(self.ty.t, self.i) == pval(other.ty.t, other.i))
        return NotImplemented

    def as_type(self):
        return TyV(arg(self.ty.t, self.i))


class HandlerV(SymObj):
    """`cls._handler` of a MetaMC class: the Union / Intersection / SingleFunctionHandler instance."""

    def __init__(self, ty):
        self.ty = ty

    def py_getattr(self, I, name):
        t = self.ty
        if name in ("types", "__args__"):
            if I.branch(t.kind_in(["Union", "Inter"])):
                return SymSeq(nargs(t.t), lambda i: TyV(arg(t.t, i)), "members")
            return self._sfh_args(I)
        if name == "args":
            return self._sfh_args(I)
        if name == "handler":
            if I.branch(kind(t.t) == K["Exactly"]):
                return RepoFn("types:Exactly")
            if I.branch(kind(t.t) == K["Strict"]):
                return RepoFn("types:StrictSubclass")
            if I.branch(kind(t.t) == K["HasMethod"]):
                return RepoFn("types:HasMethod")
            I.require(kind(t.t) == K["ClassCheck"], "handler.kind")
            return Builtin("class_check predicate", lambda I, cls, *a: ZV(ccheck(t.t, I.term(cls)), "bool"))
        if name in ("__type_order__", "__is_supertype__", "__is_subtype__", "__subclasscheck__", "__instancecheck__", "codegen"):
            if I.branch(kind(t.t) == K["Union"]):
                return RepoFn(f"types:Union.{name}", bound=self)
            if I.branch(kind(t.t) == K["Inter"]):
                return RepoFn(f"types:Intersection.{name}", bound=self)
            I.require(t.kind_in(SFH), "handler.kind")
            return RepoFn(f"types:SingleFunctionHandler.{name}", bound=self)
        raise OutOfSubset(f"handler attribute {name}")

    def py_eq(self, I, other):
        """`h1 == h2` for two handlers of the same class: the class's own __eq__ if the source defines one,
        object identity otherwise."""
        from pyvc import source

        if not isinstance(other, HandlerV):
            return False
        t = self.ty
        m = source.module("types")
        for kn, cn in (("Union", "Union"), ("Inter", "Intersection")):
            if I.branch(kind(t.t) == K[kn]):
                if f"{cn}.__eq__" in m.functions:
                    return I.truth(I.call_repo(f"types:{cn}.__eq__", [self, other], {}))
                return t.t == other.ty.t
        if "SingleFunctionHandler.__eq__" in m.functions:
            return I.truth(I.call_repo("types:SingleFunctionHandler.__eq__", [self, other], {}))
        return t.t == other.ty.t

    def _sfh_args(self, I):
        t = self.ty
        if I.branch(t.kind_in(["Exactly", "Strict"])):
            return (TyV(base(t.t)),)
        if I.branch(kind(t.t) == K["HasMethod"]):
            return (ObjV(pval(t.t, 0)),)
        return ()


class HookMethod(SymObj):
    def __init__(self, ty, name):
        self.ty, self.name = ty, name

    def py_call(self, I, args, kwargs):
        t = self.ty
        if I.branch(t.kind_in(METAMC)):
            return I.call_repo(f"types:MetaMC.{self.name}", [t, *args], kwargs)
        if self.name == "__type_order__":
            if I.branch(kind(t.t) == K["Product"]):
                return I.call_repo("dependent:ProductType.__type_order__", [t, *args], kwargs)
            I.require(t.kind_in(["Equals", "FuncDep"]), "hook.kind")
            return I.call_repo("dependent:DependentType.__type_order__", [t, *args], kwargs)
        if self.name in ("__is_supertype__", "__instancecheck__"):
            I.require(t.kind_in(DEP), "hook.kind")
            return I.call_repo(f"dependent:DependentType.{self.name}", [t, *args], kwargs)
        raise OutOfSubset(f"hook {self.name} on this kind")


class EnumSet(SymObj):
    """A set of Order values: four booleans."""

    def __init__(self, flags):
        self.flags = flags  # name -> z3 Bool

    def py_eq(self, I, other):
        if isinstance(other, EnumSet):
            return z3.And(*[self.flags[n] == other.flags[n] for n in ORDER])
        return NotImplemented

    def py_truth(self, I):
        return z3.Or(*self.flags.values())

    def py_binop(self, I, op, other, inplace=False):
        if isinstance(other, EnumSet):
            if isinstance(op, ast.Sub):
                return EnumSet({n: z3.And(self.flags[n], z3.Not(other.flags[n])) for n in ORDER})
            if isinstance(op, ast.BitOr):
                return EnumSet({n: z3.Or(self.flags[n], other.flags[n]) for n in ORDER})
            if isinstance(op, ast.BitAnd):
                return EnumSet({n: z3.And(self.flags[n], other.flags[n]) for n in ORDER})
        return NotImplemented

    def py_contains(self, I, x):
        return z3.Or(*[z3.And(self.flags[n], I.term(x) == ORDER[n]) for n in ORDER])


class TypesWorld(World):
    """World for mro.py / types.py / dependent.py obligations."""

    def __init__(self, use_ext=True):
        super().__init__()
        self.use_ext = use_ext
        self.axiom(lambda I: background())
        if use_ext:
            self.axiom(lambda I: extensionality())
        self.axiom(lambda I: metaclass_axioms())
        self.set_global("mro", "Order", OrderClassV())
        self.set_global("types", "Order", OrderClassV())
        self.set_global("dependent", "Order", OrderClassV())
        self.set_global("mro", "get_origin", Builtin("get_origin", self.get_origin))
        self.set_global("mro", "get_args", Builtin("typing.get_args", self.get_args))
        self.set_global("types", "get_args", Builtin("types.get_args", self.get_args))
        self.set_global("dependent", "get_args", Builtin("types.get_args", self.get_args))
        self.set_global("mro", "UnionTypes", UnionTypesV())
        self.set_global("dependent", "Any", ObjV(ANY))
        # the bare constructor classes (never equal to a type term of the universe: assumption)
        self.set_global("types", "Union", BareCtor("Union"))
        self.set_global("types", "Intersection", BareCtor("Intersection"))
        self.measure_stack = []
        self.real_eq = True

    def term_of(self, I, v):
        if isinstance(v, PyClassToken):
            return {"object": OBJECT, "tuple": TUPLE, "type": TYPE}.get(v.name)
        return None

    def truth_of(self, I, v):
        if isinstance(v, TyV):
            return True  # class objects are truthy
        if isinstance(v, OrderV):
            return True  # enum members are truthy (Enum defines no __bool__)
        return None

    def eq_mixed(self, I, a, b):
        if isinstance(a, TyV) and isinstance(b, PyClassToken):
            t = self.term_of(I, b)
            if t is not None:
                return a.t == t
        if isinstance(a, TyV) and isinstance(b, BareCtor):
            return False
        if isinstance(a, ParamV) and isinstance(b, TyV):
            return a.as_type().t == b.t
        return None

    def is_singleton(self, I, z, other):
        return False  # a symbolic Ty/Order/Obj value is never None / NotImplemented

    def type_of(self, I, x):
        if isinstance(x, TyV):
            return ObjV(metacls(x.t))
        if isinstance(x, HandlerV):
            t = x.ty.t
            return ObjV(z3.If(kind(t) == K["Union"], HC_UNION, z3.If(kind(t) == K["Inter"], HC_INTER, HC_SFH)))
        raise OutOfSubset(f"type({x!r})")

    def python_eq(self, I, a, b):
        """The `==` operator on two type objects, dispatched as CPython does, through the real __eq__ bodies
        of the repository where the class of the left (then right) operand defines one."""
        from pyvc import source

        def one(x, y):
            if I.branch(is_kind(x.t, METAMC)):
                return I.truth(I.call_repo("types:MetaMC.__eq__", [x, y], {}))
            if I.branch(is_kind(x.t, DEP)):
                return I.truth(I.call_repo("dependent:ParametrizedDependentType.__eq__", [x, y], {}))
            return NotImplemented  # type.__eq__ / GenericAlias: identity or library behaviour

        saved = getattr(I.path, "eq_depth", 0)
        I.path.eq_depth = 1  # components compare by identity of type terms (induction hypothesis)
        try:
            r = one(a, b)
            if r is NotImplemented:
                r = one(b, a)
        finally:
            I.path.eq_depth = saved
        if r is NotImplemented:
            return a.t == b.t
        return r

    def get_origin(self, I, t):
        if isinstance(t, TyV):
            if I.branch(kind(t.t) == K["Alias"]):
                return TyV(base(t.t))
            return None
        raise OutOfSubset("get_origin of non-type")

    def get_args(self, I, t):
        if isinstance(t, TyV):
            return SymSeq(z3.If(is_kind(t.t, CONTAINER + ["Equals", "FuncDep"]), nargs(t.t), 0), lambda i: TyV(arg(t.t, i)), "args")
        raise OutOfSubset("get_args of non-type")

    def issubclass_(self, I, a, b):
        """type.__subclasscheck__ routing of DESIGN 3.2."""
        if isinstance(b, PyClassToken):
            b = TyV(self.term_of(I, b))
        if not (isinstance(a, TyV) and isinstance(b, TyV)):
            raise OutOfSubset("issubclass on non-types")
        # a component whose kind is not fixed on this path: issubclass stays its own spec function ISSUB
        # (linked to `sub` on plain classes by an axiom) instead of being unfolded through every kind
        for x in (a, b):
            if not self.kind_known(I, x.t):
                return ISSUB(a.t, b.t)
        # argument 1 must be a class; argument 2 must not be a parameterised generic
        if I.branch(kind(a.t) == K["Alias"]):
            # types.GenericAlias (list[int]) forwards __bases__ to its origin; typing._GenericAlias raises
            if I.branch(TYPING_ALIAS(a.t)):
                raise PyRaise(ExcV("TypeError", tag="issubclass() arg 1 must be a class"))
            # ... which makes it "some base of the origin is a subclass of b": implies sub(origin, b), false for b = origin
            r = ISSUB(a.t, b.t)
            I.assume(z3.Implies(z3.And(r, kind(b.t) == K["Class"]), z3.And(sub(base(a.t), b.t), b.t != base(a.t))))
            return r
        if I.branch(kind(a.t) == K["PyUnion"]):
            raise PyRaise(ExcV("TypeError", tag="issubclass() arg 1 must be a class"))
        if I.branch(is_kind(b.t, ["Alias"])):
            raise PyRaise(ExcV("TypeError", tag="issubclass() argument 2 cannot be a parameterized generic"))
        if I.branch(is_kind(b.t, METAMC)):
            # unfold the routed hook one level; below that issubclass is its own spec function ISSUB
            d = getattr(I.path, "issub_depth", 0)
            if d >= 1:
                return ISSUB(a.t, b.t)
            I.path.issub_depth = d + 1
            try:
                return I.truth(I.call_repo("types:MetaMC.__subclasscheck__", [b, a], {}))
            finally:
                I.path.issub_depth = d
        if I.branch(is_kind(b.t, DEP)):
            return a.t == b.t  # dependent types are base-less classes without subclasses
        I.require(z3.Or(kind(b.t) == K["Class"], kind(b.t) == K["PyUnion"]), "issubclass.kind")
        if I.branch(kind(b.t) == K["PyUnion"]):
            return ISSUB(a.t, b.t)  # issubclass(x, A | B): library behaviour, left uninterpreted
        if I.branch(kind(a.t) == K["Class"]):
            return sub(a.t, b.t)
        # a is a MetaMC / dependent class: bases are (object,)
        return b.t == OBJECT

    def kind_known(self, I, t):
        key = (t.get_id(), len(I.path.pc))
        cache = I.path.__dict__.setdefault("kk_cache", {})
        if key not in cache:
            known = False
            for kn in KIND_NAMES:
                if not I.feasible(kind(t) != K[kn]):
                    known = True
                    break
            cache[key] = known
        return cache[key]

    def isinstance_(self, I, x, cls):
        if isinstance(x, Rec) and isinstance(cls, RepoClass):
            return x.cls == cls.qual
        if isinstance(cls, RepoClass) and cls.qual == "mro:TypeRelationship":
            return isinstance(x, Rec) and x.cls == cls.qual
        if getattr(cls, "name", None) == "bool":
            if isinstance(x, bool):
                return True
            if isinstance(x, ZV):
                return x.k == "bool"
            return False
        return super().isinstance_(I, x, cls)

    def make_set(self, I, elts):
        if isinstance(elts, list):
            if elts and all(isinstance(x, OrderV) for x in elts):
                return EnumSet({n: z3.Or(*[x.t == ORDER[n] for x in elts]) if elts else z3.BoolVal(False) for n in ORDER})
            return super().make_set(I, elts)
        if isinstance(elts, Stream):
            # element kind decided by probing one element
            probe = elts.probe(I)
            if isinstance(probe, OrderV):
                return EnumSet({n: elts.exists(I, lambda e, i, n=n: e.t == ORDER[n]) for n in ORDER})
            if isinstance(probe, TyV):
                return SymSet(lambda t: elts.exists(I, lambda e, i: e.t == t), lambda t: TyV(t), TyS)
        raise OutOfSubset("set() of this stream")

    def sum_stream(self, I, seq):
        probe = seq.probe(I)
        if isinstance(probe, ZV) and probe.k == "bool" or isinstance(probe, bool):
            c = I.fresh("count", z3.IntSort())
            ex = seq.exists(I, lambda e, i: e.t if isinstance(e, ZV) else z3.BoolVal(e))
            I.assume(z3.And(c >= 0, c <= z3.If(seq.length >= 0, seq.length, 0), (c > 0) == ex))
            return ZV(c, "int")
        raise OutOfSubset("sum of non-bool stream")

    def merge(self, I, c, a, b):
        if isinstance(a, OrderV) and isinstance(b, OrderV):
            return OrderV(z3.If(c, a.t, b.t))
        if isinstance(a, ZV) and a.k == "bool" and isinstance(b, bool):
            return ZV(z3.If(c, a.t, z3.BoolVal(b)), "bool")
        if isinstance(b, ZV) and b.k == "bool" and isinstance(a, bool):
            return ZV(z3.If(c, z3.BoolVal(a), b.t), "bool")
        return None


class UnionTypesV(SymObj):
    """utils.UnionTypes = (typing._UnionGenericAlias, types.UnionType); `t in UnionTypes` is false for every
    type term of the universe (those classes are excluded: assumption)."""

    def py_contains(self, I, x):
        return False


class BareCtor(SymObj):
    def __init__(self, name):
        self.name = name

    def py_is(self, I, other):
        return other is self

    def py_eq(self, I, other):
        return other is self
