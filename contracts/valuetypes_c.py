"""The built-in value types of dependent.py against their documented meaning, in mode U (C11, C15, C10):

  Equals.check(v)            v equals ONE OF the listed values (any number of values)
  Equals.get_keys()          every listed value, in order (the keys of the lookup-table strategy)
  ProductType.check(v)       v is a tuple of exactly as many items as there are member types, item i an instance of member i
  StartsWith / EndsWith      str.startswith / str.endswith of the value with the parameter (not the other way round)
  HasKey                     every listed key is in the mapping
  Regexp.check               the truth of rx.search(value), as a bool
  SequenceFastCheck / CollectionFastCheck / MappingFastCheck   empty containers match; otherwise the first element
                             (first key and its value) decides

Environment (trusted): `==` between the value and a listed value is the uninterpreted relation EQ; `isinstance(x, t)` is INST;
`str.startswith / endswith`, `in` on a mapping, `rx.search` are uninterpreted functions of their arguments.
"""
import z3

from pyvc.interp import Builtin, LoopSpec, OutOfSubset, PyRaise, SymObj, SymSeq, ZV
from pyvc.world import World

VS = z3.DeclareSort("Val")
TS = z3.DeclareSort("MemberType")
EQ = z3.Function("py_eq", VS, VS, z3.BoolSort())
INST = z3.Function("py_isinstance", VS, TS, z3.BoolSort())
STARTS = z3.Function("str_startswith", VS, VS, z3.BoolSort())
ENDS = z3.Function("str_endswith", VS, VS, z3.BoolSort())
HASKEY = z3.Function("mapping_contains", VS, VS, z3.BoolSort())
SEARCH = z3.Function("rx_search_truth", VS, VS, z3.BoolSort())
IS_TUPLE = z3.Function("is_tuple", VS, z3.BoolSort())
LEN = z3.Function("py_len", VS, z3.IntSort())
ITEM = z3.Function("py_item", VS, z3.IntSort(), VS)
FIRST = z3.Function("first_iterated", VS, VS)
GETITEM = z3.Function("mapping_getitem", VS, VS, VS)
N = z3.Int("n_params")
PARAM = z3.Function("param", z3.IntSort(), VS)
PTYPE = z3.Function("param_type", z3.IntSort(), TS)


class Val(ZV):
    def __init__(self, t, k="val"):
        super().__init__(t, "val")

    def py_eq(self, I, other):
        if isinstance(other, Val):
            return EQ(self.t, other.t)
        return NotImplemented

    def py_getattr(self, I, name):
        if name == "startswith":
            return Builtin("startswith", lambda I, p: ZV(STARTS(self.t, _v(p)), "bool"))
        if name == "endswith":
            return Builtin("endswith", lambda I, p: ZV(ENDS(self.t, _v(p)), "bool"))
        raise OutOfSubset(f"value.{name}")

    def py_contains(self, I, k):
        return HASKEY(self.t, _v(k))

    def py_truth(self, I):
        return LEN(self.t) > 0

    def py_len(self, I):
        return ZV(LEN(self.t), "int")

    def py_getitem(self, I, i):
        if isinstance(i, Val):
            return Val(GETITEM(self.t, i.t))
        return Val(ITEM(self.t, I.int_term(i)))

    def py_iter(self, I):
        # iteration over the value: the elements ITEM(v, 0..LEN-1), the first one being FIRST(v)
        return SymSeq(LEN(self.t), lambda q: Val(z3.If(q == 0, FIRST(self.t), ITEM(self.t, q))), "iter").stream(I)


def _v(x):
    if isinstance(x, Val):
        return x.t
    raise OutOfSubset(f"a value was expected, got {x!r}")


class TypeTok(ZV):
    def __init__(self, t, k="mtype"):
        super().__init__(t, "mtype")


class DepSelf(SymObj):
    """`self` of a ParametrizedDependentType: its parameters"""

    def __init__(self, elem):
        self.elem = elem

    def py_getattr(self, I, name):
        if name == "parameters":
            return SymSeq(N, self.elem, "parameters")
        if name == "parameter":
            return I.call_repo("dependent:ParametrizedDependentType.parameter", [self], {})
        if name == "rx":
            return RxV()
        raise OutOfSubset(f"self.{name}")


class RxV(SymObj):
    def py_getattr(self, I, name):
        if name == "search":
            return Builtin("search", lambda I, v: MatchObj(SEARCH(PARAM(0), _v(v))))
        raise OutOfSubset(f"rx.{name}")


class MatchObj(SymObj):
    """re.Match or None: only its truth is meaningful"""

    def __init__(self, truth):
        self.truth = truth

    def py_truth(self, I):
        return self.truth


class VTWorld(World):
    def __init__(self, *inline):
        super().__init__()
        self.inline("dependent:ParametrizedDependentType.parameter", *inline)

        def _isinstance(I, v, t):
            if isinstance(v, Val) and isinstance(t, TypeTok):
                return ZV(INST(v.t, t.t), "bool")
            if isinstance(v, Val) and getattr(t, "name", None) == "tuple":
                return ZV(IS_TUPLE(v.t), "bool")
            raise OutOfSubset("isinstance of unexpected operands")

        self.set_global("dependent", "isinstance", Builtin("isinstance", _isinstance))
        self.set_global("dependent", "len", Builtin("len", lambda I, x: x.py_len(I)))
        self.is_singleton = lambda I, z, other: False


def _run(I, qual, args, name):
    try:
        return I.call_repo(qual, args, {})
    except PyRaise as e:
        I.require(False, f"{name}_raises_nothing[{e.exc.cls}]")
        return None


def _as_bool(I, r):
    if isinstance(r, bool):
        return z3.BoolVal(r)
    t = I.truth(r)
    return z3.BoolVal(t) if isinstance(t, bool) else t


def t_equals_check():
    w = VTWorld("dependent:Equals.check")
    i = z3.Int("i")

    def thunk(I):
        I.assume(N >= 1)
        v = Val(I.fresh("value", VS))
        r = _run(I, "dependent:Equals.check", [DepSelf(lambda q: Val(PARAM(q))), v], "Equals.check")
        if r is None:
            return
        # `in` on a tuple compares item == value (the listed value on the left)
        I.require(_as_bool(I, r) == z3.Exists([i], z3.And(0 <= i, i < N, EQ(PARAM(i), v.t))), "matches_exactly_the_values_equal_to_one_of_the_listed_values")

    return w, thunk, {"timeout_ms": 20000, "fail_fast": False}


def t_equals_keys():
    w = VTWorld("dependent:Equals.get_keys")
    i = z3.Int("i")

    def _list(I, x=()):
        if isinstance(x, SymSeq):
            return SymSeq(x.length, x.elem, "list")
        raise OutOfSubset("list(...) of an unexpected value")

    w.set_global("dependent", "list", Builtin("list", _list))

    def thunk(I):
        I.assume(N >= 1)
        r = _run(I, "dependent:Equals.get_keys", [DepSelf(lambda q: Val(PARAM(q)))], "Equals.get_keys")
        if r is None:
            return
        I.require(isinstance(r, SymSeq), "keys_are_a_sequence_of_the_listed_values")
        if isinstance(r, SymSeq):
            I.require(z3.And(r.length == N, z3.ForAll([i], z3.Implies(z3.And(0 <= i, i < N), _v(r.elem(i)) == PARAM(i)))), "every_listed_value_is_a_key")

    return w, thunk, {"timeout_ms": 20000, "fail_fast": False}


def t_product_check():
    w = VTWorld("dependent:ProductType.check")
    i = z3.Int("i")

    def thunk(I):
        I.assume(N >= 0)
        v = Val(I.fresh("value", VS))
        I.assume(LEN(v.t) >= 0)
        I.assume(FIRST(v.t) == ITEM(v.t, 0))
        r = _run(I, "dependent:ProductType.check", [DepSelf(lambda q: TypeTok(PTYPE(q))), v], "ProductType.check")
        if r is None:
            return
        I.require(_as_bool(I, r) == z3.And(IS_TUPLE(v.t), LEN(v.t) == N, z3.ForAll([i], z3.Implies(z3.And(0 <= i, i < N), INST(ITEM(v.t, i), PTYPE(i))))), "a_tuple_of_exactly_that_many_items_each_an_instance_of_its_member_type")

    return w, thunk, {"timeout_ms": 20000, "fail_fast": False}


def _simple(qual, name, expected):
    def build():
        w = VTWorld(qual)

        def thunk(I):
            v, p = Val(I.fresh("value", VS)), Val(PARAM(0))
            r = _run(I, qual, [v, p], name)
            if r is None:
                return
            I.require(isinstance(r, (bool, ZV)), "the_condition_is_a_bool")
            I.require(_as_bool(I, r) == expected(v.t, p.t), "holds_exactly_for_" + name)

        return w, thunk, {"timeout_ms": 20000, "fail_fast": False}

    return build


t_startswith = _simple("dependent:StartsWith", "values_that_start_with_the_parameter", lambda v, p: STARTS(v, p))
t_endswith = _simple("dependent:EndsWith", "values_that_end_with_the_parameter", lambda v, p: ENDS(v, p))


def t_haskey():
    w = VTWorld("dependent:HasKey")
    i = z3.Int("i")

    def thunk(I):
        I.assume(N >= 0)
        v = Val(I.fresh("value", VS))
        keys = [Val(PARAM(0)), Val(PARAM(1)), Val(PARAM(2))]
        for n in range(0, 4):
            r = _run(I, "dependent:HasKey", [v, *keys[:n]], "HasKey")
            if r is None:
                return
            I.require(_as_bool(I, r) == z3.And(*[HASKEY(v.t, PARAM(j)) for j in range(n)]) if n else _as_bool(I, r) == z3.BoolVal(True), f"every_listed_key_is_in_the_mapping[{n}_keys]")

    return w, thunk, {"timeout_ms": 20000, "fail_fast": False, "bound": "0-3 keys (the *keys tuple is concrete)"}


def t_regexp_check():
    w = VTWorld("dependent:Regexp.check")
    w.set_global("dependent", "bool", Builtin("bool", lambda I, x=False: ZV(_as_bool(I, x), "bool")))

    def thunk(I):
        v = Val(I.fresh("value", VS))
        r = _run(I, "dependent:Regexp.check", [DepSelf(lambda q: Val(PARAM(q))), v], "Regexp.check")
        if r is None:
            return
        I.require(isinstance(r, (bool, ZV)) and not isinstance(r, MatchObj), "the_condition_is_a_bool_not_a_match_object")
        I.require(_as_bool(I, r) == SEARCH(PARAM(0), v.t), "holds_exactly_when_the_pattern_is_found_in_the_value")

    return w, thunk, {"timeout_ms": 20000, "fail_fast": False}


def t_sequence_fast():
    w = VTWorld("dependent:SequenceFastCheck")

    def thunk(I):
        v, t = Val(I.fresh("value", VS)), TypeTok(PTYPE(0))
        I.assume(LEN(v.t) >= 0)
        r = _run(I, "dependent:SequenceFastCheck", [v, t], "SequenceFastCheck")
        if r is None:
            return
        I.require(_as_bool(I, r) == z3.Or(LEN(v.t) == 0, INST(ITEM(v.t, 0), PTYPE(0))), "empty_or_first_item_is_an_instance")

    return w, thunk, {"timeout_ms": 20000, "fail_fast": False}


def t_collection_fast():
    w = VTWorld("dependent:CollectionFastCheck")
    w.loop("dependent:CollectionFastCheck", 0, LoopSpec(lambda I, env, k, seq: k.t == 0, modifies=[]))

    def thunk(I):
        v, t = Val(I.fresh("value", VS)), TypeTok(PTYPE(0))
        I.assume(LEN(v.t) >= 0)
        r = _run(I, "dependent:CollectionFastCheck", [v, t], "CollectionFastCheck")
        if r is None:
            I.require(False, "a_bool_is_returned")
            return
        I.require(_as_bool(I, r) == z3.Or(LEN(v.t) == 0, INST(FIRST(v.t), PTYPE(0))), "empty_or_first_iterated_element_is_an_instance")

    return w, thunk, {"timeout_ms": 20000, "fail_fast": False}


def t_mapping_fast():
    w = VTWorld("dependent:MappingFastCheck")
    w.loop("dependent:MappingFastCheck", 0, LoopSpec(lambda I, env, k, seq: k.t == 0, modifies=[]))

    def thunk(I):
        v, kt, vt = Val(I.fresh("value", VS)), TypeTok(PTYPE(0)), TypeTok(PTYPE(1))
        I.assume(LEN(v.t) >= 0)
        r = _run(I, "dependent:MappingFastCheck", [v, kt, vt], "MappingFastCheck")
        if r is None:
            return
        I.require(_as_bool(I, r) == z3.Or(LEN(v.t) == 0, z3.And(INST(FIRST(v.t), PTYPE(0)), INST(GETITEM(v.t, FIRST(v.t)), PTYPE(1)))), "empty_or_first_key_and_its_value_are_instances")

    return w, thunk, {"timeout_ms": 20000, "fail_fast": False}


TASKS = [
    ("Equals.check", t_equals_check),
    ("Equals.get_keys", t_equals_keys),
    ("ProductType.check", t_product_check),
    ("StartsWith", t_startswith),
    ("EndsWith", t_endswith),
    ("HasKey", t_haskey),
    ("Regexp.check", t_regexp_check),
    ("SequenceFastCheck", t_sequence_fast),
    ("CollectionFastCheck", t_collection_fast),
    ("MappingFastCheck", t_mapping_fast),
]
