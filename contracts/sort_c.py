"""sort_types (mro.py) and TypeMap (typemap.py): unbounded proofs with loop invariants (DESIGN A.1 / A.2).

sort_types(cls, avail) yields the layers of the dependency relation among the registered types that cls is a
subtype of.  Contract proved here:
  partition   x is yielded (in exactly one group)  <=>  x in avail and SC(cls, x)
  layered     group index of x = layer(x), where layer is the layering of the dependency relation D built by the
              pair loop (layer(x) = 0 iff x has no D-predecessor, else 1 + max over predecessors)
  order_free  under mirror symmetry of TO on avail:  D(x, y) <=> TO(y, x) = LESS, for any iteration order
Trusted library model: graphlib.TopologicalSorter (prepare / is_active / get_ready / done), stated operationally
(ready = not yet handed out and all predecessors done), not through layers.
"""
import ast

import z3

from pyvc import source
from pyvc.interp import Builtin, ExcV, LoopSpec, OutOfSubset, PyRaise, Stream, SymObj, SymSeq, SymSet, ZV
from pyvc.verify import ensure_return

from .mro_c import MroWorld
from .universe import LESS, MORE, NONE, SAME, SC, TO, OrderV, TyS, TyV, opp


class RelMap(SymObj):
    """dict: Ty -> set of Ty, as a domain predicate and a curried relation rel(x, y) = (y in d[x])."""

    def __init__(self, dom, rel):
        self.dom = dom  # callable term -> Bool
        self.rel = rel  # callable (x, y) -> Bool

    def py_getitem(self, I, key):
        k = I.term(key)
        I.require(self.dom(k), "dict_key_present", exc="KeyError")
        return SetView(self, k)

    def fresh_like(self, I, hint="rel"):
        d = self.dom
        f = I.fresh_fn(hint, [TyS, TyS], z3.BoolSort())
        return RelMap(d, lambda x, y: f(x, y))


class SetView(SymObj):
    def __init__(self, m, k):
        self.m, self.k = m, k

    def py_getattr(self, I, name):
        if name == "add":

            def add(I, v):
                old, k, t = self.m.rel, self.k, I.term(v)
                self.m.rel = lambda x, y: z3.Or(z3.And(x == k, y == t), old(x, y))

            return Builtin("set.add", add)
        raise OutOfSubset(f"set.{name}")

    def py_contains(self, I, x):
        return self.m.rel(self.k, I.term(x))


class GhostYields(SymObj):
    """The sequence of sets yielded so far by a generator: count + membership function yielded(j, x)."""

    def __init__(self, count, mem):
        self.count = count
        self.mem = mem

    def append(self, I, v):
        if not isinstance(v, SymSet):
            raise OutOfSubset("yield of a non-set in ghost mode")
        old, n, vm = self.mem, self.count, v.member
        self.mem = lambda j, x: z3.If(j == n, vm(x), old(j, x))
        self.count = n + 1

    def fresh_like(self, I, hint="yields"):
        c = I.fresh(f"{hint}_n", z3.IntSort())
        f = I.fresh_fn(f"{hint}_mem", [z3.IntSort(), TyS], z3.BoolSort())
        return GhostYields(c, lambda j, x: f(j, x))


class Sorter(SymObj):
    """graphlib.TopologicalSorter over a RelMap (operational model)."""

    def __init__(self, I, graph):
        self.graph = graph
        self.prepared = False
        self.done_ = lambda x: z3.BoolVal(False)
        self.out = lambda x: z3.BoolVal(False)

    def fresh_like(self, I, hint="sorter"):
        s = Sorter(I, self.graph)
        s.prepared = self.prepared
        d = I.fresh_fn(f"{hint}_done", [TyS], z3.BoolSort())
        o = I.fresh_fn(f"{hint}_out", [TyS], z3.BoolSort())
        s.done_ = lambda x: d(x)
        s.out = lambda x: o(x)
        return s

    def py_getattr(self, I, name):
        g = self.graph
        if name == "prepare":

            def prepare(I):
                self.prepared = True  # CycleError when the relation has a cycle: excluded by assumption (see module docstring)

            return Builtin("prepare", prepare)
        if name == "is_active":

            def is_active(I):
                x = I.fresh("x", TyS)
                return ZV(z3.Exists([x], z3.And(g.dom(x), z3.Not(self.done_(x)))), "bool")

            return Builtin("is_active", is_active)
        if name == "get_ready":

            def get_ready(I):
                out, done, rel, dom = self.out, self.done_, g.rel, g.dom
                y = z3.Const("gy", TyS)
                ready = lambda x: z3.And(dom(x), z3.Not(out(x)), z3.ForAll([y], z3.Implies(rel(x, y), done(y))))
                self.out = lambda x: z3.Or(out(x), ready(x))
                return SymSet(ready, lambda t: TyV(t), TyS)

            return Builtin("get_ready", get_ready)
        if name == "done":

            def done(I, n):
                t, d = I.term(n), self.done_
                I.require(self.out(t), "done.requires_node_was_handed_out", exc="ValueError")
                self.done_ = lambda x: z3.Or(x == t, d(x))

            return Builtin("done", done)
        raise OutOfSubset(f"TopologicalSorter.{name}")


class SortWorld(MroWorld):
    def __init__(self):
        super().__init__(unfold=0, sc_unfold=0)
        self.ext = dict(self.ext)
        self.ext[("graphlib", "TopologicalSorter")] = Builtin("TopologicalSorter", lambda I, graph: Sorter(I, graph))
        self.trusted += ["graphlib.TopologicalSorter: get_ready returns the nodes not yet handed out whose predecessors are all done; is_active iff some node is not done (checked natively on random DAGs by native/conformance_graphlib.py)"]

    def materialize(self, I, stream):
        """list(...) of a filtered stream of types: a duplicate-free sequence B with inverse index posB whose
        members are exactly the kept elements (list semantics: assumed facts of the encoding)."""
        if getattr(stream, "_mat", None) is not None:
            return stream._mat
        if not stream.guards and getattr(stream, "src", None) is not None:
            return stream.src
        m = I.fresh("m", z3.IntSort())
        B = I.fresh_fn("B", [z3.IntSort()], TyS)
        posB = I.fresh_fn("posB", [TyS], z3.IntSort())
        i = I.fresh("mi", z3.IntSort())
        x = I.fresh("mx", TyS)
        mem = lambda t: stream.exists(I, lambda e, j: I.term(e) == t)
        memB = I.fresh_fn("memB", [TyS], z3.BoolSort())
        I.assume(m >= 0)
        I.assume(z3.ForAll([x], memB(x) == mem(x)))
        I.assume(z3.ForAll([i], z3.Implies(z3.And(0 <= i, i < m), z3.And(memB(B(i)), posB(B(i)) == i)), patterns=[B(i)]))
        I.assume(z3.ForAll([x], z3.Implies(memB(x), z3.And(0 <= posB(x), posB(x) < m, B(posB(x)) == x)), patterns=[memB(x)]))
        seq = SymSeq(m, lambda j: TyV(B(j)), "list", dupfree_pos=lambda v: posB(I.term(v)))
        seq.memB, seq.posB, seq.B = memB, posB, B
        stream._mat = seq
        return seq

    def make_dict(self, I, pairs):
        if isinstance(pairs, Stream):
            k, v = pairs.probe(I)
            if isinstance(k, TyV) and isinstance(v, (set, frozenset)) and not v:
                dom = lambda t: pairs.exists(I, lambda e, j: I.term(e[0]) == t)
                seq = getattr(pairs, "_src_mat", None)
                return RelMap(dom, lambda x, y: z3.BoolVal(False))
        return super().make_dict(I, pairs)

    def on_yield(self, I, frame, v):
        if frame.env.has("__yields__"):
            frame.env.get("__yields__").append(I, v)
            return
        super().on_yield(I, frame, v)

    def generator_result(self, I, qual, yields):
        fr = I.frames[-1]
        if fr.env.has("__yields__"):
            return fr.env.get("__yields__")
        return super().generator_result(I, qual, yields)


def _stream_getitem(self, I, key):
    seq = I.world.materialize(I, self)
    return seq.py_getitem(I, key)


Stream.py_getitem = _stream_getitem


def t_sort_types(clause):
    def build():
        w = SortWorld()
        w.inline("mro:sort_types")
        cls = TyV(z3.Const("cls", TyS))
        reg = z3.Function("registered", TyS, z3.BoolSort())
        layer = z3.Function("layer", TyS, z3.IntSort())
        x, y = z3.Consts("x y", TyS)
        st = {}

        def mat(env):
            av = env.get("avail")
            return av._mat if isinstance(av, Stream) else av

        def inv_pairs(I, env, i, j):
            """deps after processing the pairs that precede (i, j) in the (arbitrary) list order."""
            B = mat(env)
            memB, pos = B.memB, B.posB
            deps = env.get("deps")

            def processed(a, b):
                return z3.And(memB(a), memB(b), pos(a) < pos(b), z3.Or(pos(a) < i, z3.And(pos(a) == i, pos(b) < j)))

            return z3.And(
                z3.ForAll([x, y], z3.Implies(z3.And(memB(x), memB(y)), deps.rel(x, y) == z3.Or(z3.And(processed(y, x), TO(y, x) == LESS), z3.And(processed(x, y), TO(x, y) == MORE)))),
                z3.ForAll([x, y], z3.Implies(deps.rel(x, y), z3.And(memB(x), memB(y)))),
                z3.ForAll([x], deps.dom(x) == memB(x)),
            )

        w.loop("mro:sort_types", 0, LoopSpec(lambda I, env, k, seq: inv_pairs(I, env, k.t, k.t + 1), modifies=["deps"]))
        w.loop("mro:sort_types", 1, LoopSpec(lambda I, env, k, seq: inv_pairs(I, env, env.get("i").t, env.get("i").t + 1 + k.t), modifies=["deps"]))

        def layer_axioms(I, env):
            """ghost: the layering of the final dependency relation (exists because the relation is acyclic)."""
            memB = mat(env).memB
            deps = env.get("deps")
            return [
                z3.ForAll([x], z3.Implies(memB(x), layer(x) >= 0)),
                z3.ForAll([x, y], z3.Implies(z3.And(memB(x), deps.rel(x, y)), layer(y) < layer(x))),
                z3.ForAll([x], z3.Implies(z3.And(memB(x), layer(x) > 0), z3.Exists([y], z3.And(deps.rel(x, y), layer(y) == layer(x) - 1)))),
            ]

        def while_inv(I, env, k, seq):
            memB = mat(env).memB
            s = env.get("sorter")
            ys = env.get("__yields__")
            n = ys.count
            j = z3.Int("wj")
            return z3.And(
                n >= 0,
                z3.ForAll([x], z3.Implies(memB(x), z3.And(s.done_(x) == (layer(x) < n), s.out(x) == (layer(x) < n)))),
                z3.ForAll([j, x], z3.Implies(z3.And(0 <= j, j < n), ys.mem(j, x) == z3.And(memB(x), layer(x) == j))),
            )

        def done_inv(I, env, k, seq):
            memB = mat(env).memB
            s = env.get("sorter")
            ys = env.get("__yields__")
            n = ys.count - 1  # the group being marked done is yields[n]
            posN = seq.src.posf
            j = z3.Int("wj")
            return z3.And(
                n >= 0,
                z3.ForAll([x], z3.Implies(memB(x), s.done_(x) == z3.Or(layer(x) < n, z3.And(layer(x) == n, posN(x) < k.t)))),
                z3.ForAll([x], z3.Implies(memB(x), s.out(x) == (layer(x) <= n))),
                z3.ForAll([x], env.get("nodes").member(x) == z3.And(memB(x), layer(x) == n)),
                z3.ForAll([j, x], z3.Implies(z3.And(0 <= j, j <= n), ys.mem(j, x) == z3.And(memB(x), layer(x) == j))),
            )

        w.loop("mro:sort_types", 2, LoopSpec(while_inv, modifies=["sorter", "__yields__"]))
        w.loop("mro:sort_types", 3, LoopSpec(done_inv, modifies=["sorter"]))

        def stmt_hook(I, stn, env):
            if isinstance(stn, ast.Assign) and isinstance(stn.value, ast.Call) and getattr(stn.value.func, "id", "") == "TopologicalSorter":
                st["env"] = env
                I.assume(layer_axioms(I, env))

        w.stmt_hook = stmt_hook

        def thunk(I):
            avail = SymSet(lambda t: reg(t), lambda t: TyV(t), TyS)
            preset = {"__yields__": GhostYields(z3.IntVal(0), lambda j, t: z3.BoolVal(False))}
            if clause == "order_free":
                a, b = z3.Consts("a b", TyS)
                I.assume(z3.ForAll([a, b], z3.Implies(z3.And(reg(a), reg(b)), TO(a, b) == opp(TO(b, a)))))
                I.assume(z3.ForAll([a], TO(a, a) == SAME))
            try:
                ys = I.exec_function(source.function("mro:sort_types"), "mro", "mro:sort_types", [cls, avail], {}, preset=preset)
            except PyRaise as e:
                I.require(False, f"no_unexpected_exception[{e.exc.cls}]")
                return
            env = st["env"]
            memB = mat(env).memB
            deps = env.get("deps")
            n = ys.count
            j, j2 = z3.Ints("pj pj2")
            # applicable registered types = members of the filtered list (semantics of the list comprehension)
            I.require(z3.ForAll([x], memB(x) == z3.And(reg(x), SC(cls.t, x))), "filter.members_are_the_applicable_registered_types")
            if clause == "partition":
                I.require(z3.ForAll([x], z3.Implies(z3.And(reg(x), SC(cls.t, x)), z3.And(0 <= layer(x), layer(x) < n, ys.mem(layer(x), x)))), "partition.every_applicable_type_is_yielded")
                I.require(z3.ForAll([x, j], z3.Implies(z3.And(0 <= j, j < n, ys.mem(j, x)), z3.And(reg(x), SC(cls.t, x), j == layer(x)))), "partition.only_applicable_types_each_in_one_group")
            elif clause == "layered":
                I.require(z3.ForAll([x, j], z3.Implies(z3.And(0 <= j, j < n), ys.mem(j, x) == z3.And(memB(x), layer(x) == j))), "layered.group_index_is_the_layer")
                I.require(z3.ForAll([x, y], z3.Implies(z3.And(memB(x), memB(y), x != y), deps.rel(x, y) == z3.Or(z3.And(mat(env).posB(y) < mat(env).posB(x), TO(y, x) == LESS), z3.And(mat(env).posB(x) < mat(env).posB(y), TO(x, y) == MORE)))), "layered.dependency_relation_is_from_typeorder")
            elif clause == "order_free":
                # no order witness (pos) occurs in this goal: the relation is a function of the *set* of types
                I.require(z3.ForAll([x, y], z3.Implies(z3.And(memB(x), memB(y)), deps.rel(x, y) == (TO(y, x) == LESS))), "order_free.dependency_relation_is_exactly_LESS")
            return ys

        return w, thunk, {"clause": clause, "timeout_ms": 6000, "retry_factor": 1, "fail_fast": True}

    return build


# --------------------------------------------------------------------------------------------------
# TypeMap (typemap.py): register and __missing__ against DESIGN A.2

EntS = z3.DeclareSort("Ent")  # entries (handler, signature) of a per-position table
tyof = z3.Function("tyof", EntS, TyS)  # TMInv: the entry sets of different types are disjoint


class EntV(ZV):
    def __init__(self, t, k="ent"):
        super().__init__(t, "ent")


class LvlMap(SymObj):
    """dict: entry -> level."""

    def __init__(self, has, lvl):
        self.has, self.lvl = has, lvl

    def py_truth(self, I):
        e = I.fresh("e", EntS)
        return z3.Exists([e], self.has(e))

    def py_getattr(self, I, name):
        if name == "update":

            def update(I, other):
                if not isinstance(other, LvlMap):
                    raise OutOfSubset("update with a non level map")
                h0, l0, h1, l1 = self.has, self.lvl, other.has, other.lvl
                self.has = lambda e: z3.Or(h1(e), h0(e))
                self.lvl = lambda e: z3.If(h1(e), l1(e), l0(e))

            return Builtin("dict.update", update)
        raise OutOfSubset(f"dict.{name} on a level map")

    def fresh_like(self, I, hint="results"):
        h = I.fresh_fn(f"{hint}_has", [EntS], z3.BoolSort())
        l = I.fresh_fn(f"{hint}_lvl", [EntS], z3.IntSort())
        return LvlMap(lambda e: h(e), lambda e: l(e))


class EntSet(SymSet):
    pass


class EntMap(SymObj):
    """TypeMap.entries: dict type -> set of entries."""

    def __init__(self, dom, ent):
        self.dom, self.ent = dom, ent

    def _view(self, k):
        m = self

        class View(SymSet):
            def __init__(v):
                super().__init__(lambda e: m.ent(k, e), lambda t: EntV(t), EntS)

            def add(v, I, x):
                old, t = m.ent, I.term(x)
                m.ent = lambda a, e: z3.Or(z3.And(a == k, e == t), old(a, e))
                v.member = lambda e: m.ent(k, e)

        return View()

    def py_getattr(self, I, name):
        if name == "get":

            def get(I, key, default=None):
                k = I.term(key)
                if I.branch(self.dom(k)):
                    return self._view(k)
                return default

            return Builtin("dict.get", get)
        if name == "setdefault":

            def setdefault(I, key, default=None):
                k = I.term(key)
                if not I.branch(self.dom(k)):
                    if not (isinstance(default, (set, frozenset)) and not default):
                        raise OutOfSubset("setdefault with a non-empty default")
                    od, oe = self.dom, self.ent
                    self.dom = lambda a: z3.Or(a == k, od(a))
                    self.ent = lambda a, e: z3.And(a != k, oe(a, e))
                return self._view(k)

            return Builtin("dict.setdefault", setdefault)
        raise OutOfSubset(f"entries.{name}")


class TM(SymObj):
    """A TypeMap: registration tables (types, entries) and the dict part (cache)."""

    def __init__(self, I):
        reg = I.fresh_fn("reg", [TyS], z3.BoolSort())
        dom = I.fresh_fn("edom", [TyS], z3.BoolSort())
        ent = I.fresh_fn("ent", [TyS, EntS], z3.BoolSort())
        ch = I.fresh_fn("cached", [TyS], z3.BoolSort())
        chh = I.fresh_fn("cache_has", [TyS, EntS], z3.BoolSort())
        chl = I.fresh_fn("cache_lvl", [TyS, EntS], z3.IntSort())
        self.types = SymSet(lambda t: reg(t), lambda t: TyV(t), TyS)
        self.entries = EntMap(lambda t: dom(t), lambda t, e: ent(t, e))
        self.cached = lambda t: ch(t)
        self.cache_has = lambda t, e: chh(t, e)
        self.cache_lvl = lambda t, e: chl(t, e)
        self.writes = 0

    def tm_inv(self):
        t, u = z3.Consts("t u", TyS)
        e = z3.Const("e", EntS)
        return [
            z3.ForAll([t], self.entries.dom(t) == self.types.member(t)),
            z3.ForAll([t, e], z3.Implies(self.entries.ent(t, e), z3.And(self.entries.dom(t), tyof(e) == t))),
            z3.ForAll([t], z3.Implies(self.entries.dom(t), z3.Exists([e], self.entries.ent(t, e)))),
        ]

    def py_getattr(self, I, name):
        if name == "types":
            return self.types
        if name == "entries":
            return self.entries
        if name == "clear":

            def clear(I):
                self.cached = lambda t: z3.BoolVal(False)
                self.writes += 1

            return Builtin("dict.clear", clear)
        raise OutOfSubset(f"TypeMap.{name}")

    def py_setitem(self, I, key, v):
        if not isinstance(v, LvlMap):
            raise OutOfSubset("TypeMap[key] = non level map")
        k, c, ch, cl, vh, vl = I.term(key), self.cached, self.cache_has, self.cache_lvl, v.has, v.lvl
        self.cached = lambda t: z3.Or(t == k, c(t))
        self.cache_has = lambda t, e: z3.If(t == k, vh(e), ch(t, e))
        self.cache_lvl = lambda t, e: z3.If(t == k, vl(e), cl(t, e))
        self.writes += 1


class TMWorld(SortWorld):
    def __init__(self):
        super().__init__()
        self.contract("mro:sort_types", self.sort_types_contract)
        self.trusted += ["contract of sort_types at its call site in TypeMap.__missing__ (partition + layered; proved in sort_types/*)"]

    def empty_dict(self, I):
        return LvlMap(lambda e: z3.BoolVal(False), lambda e: z3.IntVal(0))

    def term_of(self, I, v):
        return super().term_of(I, v)

    def sort_types_contract(self, I, args, kwargs):
        cls, avail = args
        G = I.fresh("G", z3.IntSort())
        lay = I.fresh_fn("layer", [TyS], z3.IntSort())
        app = lambda t: z3.And(avail.member(t), SC(cls.t, t))
        t = z3.Const("t", TyS)
        I.assume(G >= 0)
        I.assume(z3.ForAll([t], z3.Implies(app(t), z3.And(0 <= lay(t), lay(t) < G))))
        seq = SymSeq(G, lambda j: SymSet(lambda x, j=j: z3.And(app(x), lay(x) == j), lambda x: TyV(x), TyS), "groups")
        seq.layer, seq.app, seq.G = lay, app, G
        self.last_groups = seq
        return seq

    def make_dict(self, I, pairs):
        if isinstance(pairs, Stream):
            k, v = pairs.probe(I)
            if isinstance(k, EntV) and isinstance(v, ZV) and v.k == "int":
                has = lambda e: pairs.exists(I, lambda kv, j: kv[0].t == e)
                i0 = z3.Int("probe!i")
                lvl = pairs.elem(z3.IntVal(0))[1].t  # the level does not depend on the element (a loop variable)
                return LvlMap(has, lambda e: lvl)
        return super().make_dict(I, pairs)


def t_typemap_register():
    w = TMWorld()
    w.inline("typemap:TypeMap.register")

    def thunk(I):
        tm = TM(I)
        I.assume(tm.tm_inv())
        reg0, dom0, ent0 = tm.types.member, tm.entries.dom, tm.entries.ent
        obj_t = TyV(z3.Const("obj_t", TyS))
        h = EntV(z3.Const("handler", EntS))
        I.assume(tyof(h.t) == obj_t.t)  # the entry is filed under its own type (established by MultiTypeMap.register)
        ensure_return(I, lambda: I.call_repo("typemap:TypeMap.register", [tm, obj_t, h], {}), lambda I, r: True, "returns")
        t = z3.Const("t", TyS)
        e = z3.Const("e", EntS)
        I.require(z3.ForAll([t], z3.Not(tm.cached(t))), "cache_is_flushed")  # C05
        I.require(z3.ForAll([t], tm.types.member(t) == z3.Or(t == obj_t.t, reg0(t))), "types_gains_exactly_the_new_type")
        I.require(z3.ForAll([t, e], tm.entries.ent(t, e) == z3.Or(z3.And(t == obj_t.t, e == h.t), ent0(t, e))), "entries_gain_exactly_the_new_entry")
        I.require(tm.tm_inv(), "table_invariant_preserved")

    return w, thunk, {"timeout_ms": 10000}


def t_typemap_missing():
    w = TMWorld()
    w.inline("typemap:TypeMap.__missing__")
    e = z3.Const("e", EntS)
    st = {}

    def facts(env):
        g = w.last_groups
        return g

    def outer_inv(I, env, k, seq):
        g = w.last_groups
        res = env.get("results")
        tm = env.get("self")
        T = tyof(e)
        cond = z3.And(tm.entries.ent(T, e), g.app(T), g.G - 1 - g.layer(T) < k.t)
        return z3.And(z3.ForAll([e], res.has(e) == cond), z3.ForAll([e], z3.Implies(res.has(e), res.lvl(e) == g.G - 1 - g.layer(tyof(e)))))

    def inner_inv(I, env, k, seq):
        g = w.last_groups
        res = env.get("results")
        tm = env.get("self")
        lvl = env.get("lvl").t
        T = tyof(e)
        posW = seq.src.posf
        cond = z3.And(tm.entries.ent(T, e), g.app(T), z3.Or(g.G - 1 - g.layer(T) < lvl, z3.And(g.G - 1 - g.layer(T) == lvl, posW(T) < k.t)))
        return z3.And(z3.ForAll([e], res.has(e) == cond), z3.ForAll([e], z3.Implies(res.has(e), res.lvl(e) == g.G - 1 - g.layer(tyof(e)))))

    w.loop("typemap:TypeMap.__missing__", 0, LoopSpec(outer_inv, modifies=["results"]))
    w.loop("typemap:TypeMap.__missing__", 1, LoopSpec(inner_inv, modifies=["results"]))

    def thunk(I):
        tm = TM(I)
        I.assume(tm.tm_inv())
        obj_t = TyV(z3.Const("obj_t", TyS))
        c0, ch0, cl0 = tm.cached, tm.cache_has, tm.cache_lvl
        try:
            r = I.call_repo("typemap:TypeMap.__missing__", [tm, obj_t], {})
            out = ("return", r)
        except PyRaise as ex:
            out = ("raise", ex.exc)
        g = w.last_groups
        T = tyof(e)
        t = z3.Const("t", TyS)
        spec_has = z3.And(tm.entries.ent(T, e), tm.types.member(T), SC(obj_t.t, T))  # Lv(obj_t): entries of the applicable registered types
        if out[0] == "return":
            res = out[1]
            I.require(z3.ForAll([e], res.has(e) == spec_has), "result_is_the_entries_of_the_applicable_registered_types")  # C01 / C13
            I.require(z3.ForAll([e], z3.Implies(res.has(e), res.lvl(e) == g.G - 1 - g.layer(T))), "level_is_the_reversed_layer_index")  # C02
            I.require(z3.Exists([e], spec_has), "returns_only_when_some_registered_type_applies")
            I.require(z3.And(tm.cached(obj_t.t), z3.ForAll([e], z3.And(tm.cache_has(obj_t.t, e) == res.has(e), z3.Implies(res.has(e), tm.cache_lvl(obj_t.t, e) == res.lvl(e))))), "result_is_cached_under_the_looked_up_type")  # C20
            I.require(z3.ForAll([t], z3.Implies(t != obj_t.t, tm.cached(t) == c0(t))), "no_other_cache_entry_is_touched")  # C04
        else:
            I.require(out[1].cls == "KeyError", f"only_KeyError_is_raised[{out[1].cls}]")
            I.require(z3.Not(z3.Exists([e], spec_has)), "KeyError_only_when_no_registered_type_applies")
            I.require(tm.writes == 0, "cache_untouched_on_KeyError")

    return w, thunk, {"timeout_ms": 10000}


def t_levels_monotone():
    """Lemma over the contracts of sort_types (layered, order_free) and TypeMap.__missing__ (level = reversed layer):
    a strictly more specific applicable type gets a strictly higher level; a type alone in the top level is strictly
    more specific than every other applicable type (strong induction on the layer; lt transitive on these types)."""
    w = SortWorld()

    def thunk(I):
        app = z3.Function("app", TyS, z3.BoolSort())
        lay = z3.Function("layer", TyS, z3.IntSort())
        D = z3.Function("D", TyS, TyS, z3.BoolSort())
        x, y, u = z3.Consts("x y u", TyS)
        G = z3.Int("G")
        lt = lambda a, b: TO(a, b) == LESS
        I.assume(z3.ForAll([x], z3.Implies(app(x), z3.And(0 <= lay(x), lay(x) < G))))
        I.assume(z3.ForAll([x, y], z3.Implies(z3.And(app(x), app(y)), D(x, y) == lt(y, x))))  # sort_types/order_free
        I.assume(z3.ForAll([x, y], z3.Implies(z3.And(app(x), D(x, y)), z3.And(app(y), lay(y) < lay(x)))))  # layered
        I.assume(z3.ForAll([x], z3.Implies(z3.And(app(x), lay(x) > 0), z3.Exists([y], z3.And(D(x, y), lay(y) == lay(x) - 1)))))
        a, b = z3.Consts("a b", TyS)
        lvl = lambda t: G - 1 - lay(t)
        I.require(z3.Implies(z3.And(app(a), app(b), lt(a, b)), lvl(a) > lvl(b)), "lemma.more_specific_type_has_higher_level")
        # top: t alone at layer 0 (highest level) => lt(t, every other applicable type); induction on layer(b)
        t = z3.Const("t0", TyS)
        I.assume(z3.And(app(t), lay(t) == 0, z3.ForAll([x], z3.Implies(z3.And(app(x), x != t), lay(x) > 0))))
        I.assume(z3.ForAll([x, y, u], z3.Implies(z3.And(app(x), app(y), app(u), lt(x, y), lt(y, u)), lt(x, u))))  # C12 class fragment
        I.assume(z3.ForAll([x], z3.Implies(z3.And(app(x), x != t, lay(x) < lay(b)), lt(t, x))))  # induction hypothesis
        I.require(z3.Implies(z3.And(app(b), b != t), lt(t, b)), "lemma.alone_in_top_level_is_below_every_applicable_type")

    return w, thunk, {"uses_lemmas": ["sort_types/order_free", "sort_types/layered", "typeorder/class_fragment"], "timeout_ms": 10000}
