import sys; sys.path.insert(0,'/verif')
from pyvc.pool import run_all
from contracts import core_c as m
tasks=[(f"cls_body[{sc}]", m.t_cls_body(sc), "B") for sc in m.CLS_SCENARIOS]
sel = sys.argv[1:]
for r in run_all([t for t in tasks if not sel or any(s in t[0] for s in sel)]):
    sts = {}
    for o in r['obligations']: sts[o['status']] = sts.get(o['status'],0)+1
    print(r['name'], r['status'], r['detail'][:1500], sts, 'paths', r['paths'])
    for o in r['obligations']:
        if o['status']!='proved': print("    ", o['name'], o['status'], (o['model'] or '')[:300])
