import sys; sys.path.insert(0,'/verif')
from pyvc.pool import run_all
from contracts import sig_c as m
tasks=[("Signature.extract", m.t_extract, "U")]
for r in run_all(tasks):
    sts = {}
    for o in r['obligations']: sts[o['status']] = sts.get(o['status'],0)+1
    print(r['name'], r['status'], r['detail'][:3000], sts, 'paths', r['paths'], r.get('time'), r.get('cover'))
    for o in r['obligations']:
        if o['status']!='proved': print("    ", o['name'], o['status'], o['path'], (o['model'] or '')[:600])
