import sys; sys.path.insert(0,'/verif')
from pyvc.pool import run_all
from contracts import core_c as m
tasks = []
for g in m.GRAPHS: tasks.append((f"defns[{g}]", m.t_defns(g), "B"))
for g in ("chain3","two_parents","linked_chain3"):
    for at in (0,1): tasks.append((f"defns_hist[{g},{at}]", m.t_defns_history(g, at), "B"))
for op in ("register","unregister","add_mixins"): tasks.append((f"guard[{op}]", m.t_modify_guard(op), "B"))
for g in ("child","linked_child","chain3","two_parents","siblings"): tasks.append((f"register_frame[{g}]", m.t_register_frame(g), "B"))
for g in ("chain3","linked_chain3"): tasks.append((f"register_frame[{g},inh]", m.t_register_frame(g,"inherited"), "B"))
for g in ("single","child","linked_child","two_parents","chain3","siblings"): tasks.append((f"compile[{g}]", m.t_compile(g), "B"))
for fb in (True, False):
    for wh in ("adapt", "analyze"): tasks.append((f"recovery[first={fb},{wh}]", m.t_recovery(fb, wh), "B"))
tasks.append(("transitive_lock", m.t_transitive_lock(), "B"))
for g in ("linked_child","linked_chain3","siblings"):
    for cp in (True, False): tasks.append((f"update[{g},{cp}]", m.t_update_propagates(g, cp), "B"))
tasks.append(("add_mixins_rebuilds", m.t_add_mixins_rebuilds(), "B"))
for fb in (True, False):
    for callee, ks in (("analyze_arguments",[1]),("generate_dispatch",[1]),("adapt_function",[1,2,3])):
        for k in ks: tasks.append((f"build_failure[{callee}#{k},first={fb}]", m.t_build_failure(callee,k,fb), "B"))
    tasks.append((f"build_interrupt[first={fb}]", m.t_build_interrupt(fb), "B"))
tasks.append(("trampoline", m.t_trampoline(), "B"))
for g in ("linked_child","linked_chain3","siblings"): tasks.append((f"upfail[{g}]", m.t_update_failure(g), "B"))
for g in ("single","child","linked_child","two_parents"):
    for op in ("copy","variant"):
        for lb in (False, True): tasks.append((f"copyvar[{g},{op},{lb}]", m.t_copy_variant(g, op, lb), "B"))
for g in ("single","child","linked_child","chain3"): tasks.append((f"unregister_frame[{g}]", m.t_unregister_frame(g), "B"))
for g in ("linked_child","linked_chain3","siblings"): tasks.append((f"compile_root[{g}]", m.t_compile(g, which="root"), "B"))
for c_ in ("analyze_arguments","generate_dispatch"): tasks.append((f"loud[{c_}]", m.t_build_failure(c_, 1, False, clause="loud"), "B"))
for wh in ("next","resolve"):
    for na in (0,1,2): tasks.append((f"nextresolve[{wh},{na}]", m.t_next_resolve(wh, na), "B"))
sel = sys.argv[1:] 
for r in run_all([t for t in tasks if not sel or any(s in t[0] for s in sel)]):
    sts = {}
    for o in r['obligations']: sts[o['status']] = sts.get(o['status'],0)+1
    print(r['name'], r['status'], r['detail'][:1200], sts, 'paths', r['paths'])
    for o in r['obligations']:
        if o['status']!='proved': print("    ", o['name'], o['status'], (o['model'] or '')[:200])
