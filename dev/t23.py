import sys; sys.path.insert(0,'/verif')
from pyvc.pool import run_all
from contracts import norm_c as m
tasks = [(f"normalize[{f}]", m.t_normalize(f), "U") for f in m.ALL_FORMS] + [(f"init[{w}]", m.t_combinator_init(w), "U") for w in ("union","inter")]
for r in run_all(tasks):
    sts = {}
    for o in r['obligations']: sts[o['status']] = sts.get(o['status'],0)+1
    bad=[o for o in r['obligations'] if o['status']!='proved']
    if bad or r['status']!='ok' or '-v' in sys.argv: print(r['name'], r['status'], r['detail'][:1200], sts, 'paths', r['paths'])
    for o in bad: print("    ", o['name'], o['status'], (o['model'] or '')[:200])
print("done")
