#!/bin/sh
# dev/benign_sel.sh <regex>: like benign_matrix.sh for a selection of the benign changes
cd "$(dirname "$0")/.." || exit 3
pids="C01,C02,C03,C04,C05,C06,C07,C08,C09,C10,C11,C12,C13,C14,C15,C16,C17,C18,C20"
specs=$(for d in benign/*/; do s=$(basename $d); [ -f "$d/patch.diff" ] && echo "$s" | grep -Eq "$1" && echo "$s:$pids"; done | tr '\n' ' ')
SEED_DIR=benign python3 dev/seed_matrix.py $specs > dev/benign_results_sel.txt 2>&1
awk '{print $4}' dev/benign_results_sel.txt | sort | uniq -c
grep -v "rc=0" dev/benign_results_sel.txt | cut -c1-300
