#!/bin/sh
# dev/run_seed.sh <seed dir name under /verif/seeded> <PID> [PID...]: apply the seeded change to /repo, run the checks, undo it.
seed=$1; shift
cd /verif || exit 3
if [ -n "$(git -C /repo status --porcelain)" ]; then echo "/repo not clean"; exit 3; fi
trap 'git -C /repo checkout -- . ; git -C /repo clean -fdq' EXIT INT TERM
git -C /repo apply "/verif/seeded/$seed/patch.diff" || exit 3
for pid in "$@"; do
  out=$(./check "$pid" --tier quick 2>&1); rc=$?
  echo "== seed=$seed check=$pid rc=$rc"
  echo "$out" | grep -E "^(VIOLATION|UNDECIDED|CHECKER-ERROR|OK)" | head -8
done
