import sys, traceback; sys.path.insert(0,'/verif')
from pyvc.verify import run_task
from contracts import mropos_c as m
try:
    r = run_task("mro.positions", m.t_positions, "U")
    print(r.status, r.detail[-6000:])
except Exception:
    tb = traceback.format_exc().splitlines()
    print("\n".join(tb[:60])); print("..."); print("\n".join(tb[-30:]))
