import sys, time; sys.path.insert(0,'/verif')
from pyvc.pool import run_all
from contracts import typemap_c as m
tasks = [(f"mtm_missing[{k}]", m.t_mtm_missing(k), "U") for k in ("plain","coded","empty")]
import os
for r in run_all(tasks, procs=int(os.environ.get("P","3"))):
    sts = {}
    for o in r['obligations']: sts[o['status']] = sts.get(o['status'],0)+1
    bad = [o for o in r['obligations'] if o['status']!='proved']
    print(r['name'], r['status'], r['detail'][:1500], sts, 'paths', r['paths'], 'wall', r['wall_s'], r['meta'].get('outcomes'), flush=True)
    for o in bad[:6]: print("      ", o['name'], o['status'], o['path'], (o['model'] or '')[:300].replace("\n"," "), flush=True)
