import sys, time; sys.path.insert(0,'/verif')
from pyvc.pool import run_all
from contracts import typemap_c as m
tasks = [(f"resolve{sh}", m.t_resolve_writes(sh), "B") for sh in m.SHAPES]
for r in run_all(tasks):
    sts = {}
    for o in r['obligations']: sts[o['status']] = sts.get(o['status'],0)+1
    bad = {}
    for o in r['obligations']:
        if o['status']!='proved': bad[o['name']] = bad.get(o['name'],0)+1
    print(r['name'], r['status'], r['detail'][:1200], sts, 'paths', r['paths'], 'wall', r['wall_s'], bad, flush=True)
