import sys; sys.path.insert(0,'/verif')
from checklib.main import native
from contracts import dep_c
r = dep_c.dep_task(sys.argv[1] if len(sys.argv)>1 else "quick", native)()
print(r.status, r.detail[:800], r.meta, len(r.obligations), r.paths, r.wall_s)
bad = {}
for o in r.obligations:
    if o['status']!='proved': bad.setdefault(o['name'], []).append(o)
print(len(bad), "failing names")
for k, v in bad.items(): print("  ", k, len(v), v[0]['status'], (v[0]['model'] or '')[:200])
