import sys; sys.path.insert(0,'/verif')
from pyvc.pool import run_all
from contracts import mropos_c as m
import sys
tasks=[("mro.positions", m.t_positions, "U"), ("mro._pull", m.t_pull_first_group, "U"), ("lemma.resolution", m.t_resolution_lemma, "U")]
tasks=[t for t in tasks if len(sys.argv)<2 or sys.argv[1] in t[0]]
for r in run_all(tasks):
    sts = {}
    for o in r['obligations']: sts[o['status']] = sts.get(o['status'],0)+1
    print(r['name'], r['status'], r['detail'][:3000], sts, 'paths', r['paths'], r.get('time'))
    for o in r['obligations']:
        if o['status']!='proved': print("    ", o['name'], o['status'], (o['model'] or '')[:400])
