#!/bin/sh
# dev/collect_round9.sh PID...: copy sub-agent output of round 9 (/tmp/s9_<PID>) into the layout confirm_seeds.py expects
for p in "$@"; do
  d=/tmp/seed/out/$p/U; mkdir -p $d
  git -C /tmp/s9_$p diff -- src > $d/patch.diff
  cp /tmp/s9_$p/demo.py $d/demo.py
  [ -f /tmp/s9_$p.notes ] && cp /tmp/s9_$p.notes $d/notes.md
done
