import sys; sys.path.insert(0,'/verif')
from pyvc.pool import run_all
from contracts import mro_c as m
for r in run_all([("funcdep_lt", m.t_funcdep_lt, "U")]):
    print(r['name'], r['status'], r['detail'][-1500:], [(o['name'].split('/')[-1], o['status'], (o['model'] or '')[:200]) for o in r['obligations'] if o['status']!='proved'], len(r['obligations']))
