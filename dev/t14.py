import sys, time, os; sys.path.insert(0,'/verif')
from pyvc.pool import run_all
from contracts import sort_c as m
tasks = [("TypeMap.register", m.t_typemap_register, "U"), ("TypeMap.__missing__", m.t_typemap_missing, "U"), ("levels_monotone", m.t_levels_monotone, "U")]
for r in run_all(tasks):
    sts = {}
    for o in r['obligations']: sts[o['status']] = sts.get(o['status'],0)+1
    print(r['name'], r['status'], r['detail'][:1800], sts, 'paths', r['paths'], 'wall', r['wall_s'], r['meta'].get('cover'), r['meta'].get('outcomes'), flush=True)
    for o in r['obligations']:
        if o['status']!='proved': print("    ", o['name'], o['status'], o['path'], (o['model'] or '')[:200].replace("\n"," "))
