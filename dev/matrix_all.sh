#!/bin/sh
# run every seeded change against the check of its own property (from the directory this script lives in)
cd "$(dirname "$0")/.." || exit 3
specs=$(for d in seeded/C*_*/; do s=$(basename $d); echo "$s:${s%%_*}"; done | tr '\n' ' ')
python3 dev/seed_matrix.py $specs > dev/seed_results_all2.txt 2>&1
awk '{print $4}' dev/seed_results_all2.txt | sort | uniq -c
grep -v "rc=1" dev/seed_results_all2.txt | cut -c1-330
