"""Run checks against seeded changes in scratch worktrees (parallel). usage: seed_matrix.py SEED:PID[,PID] ..."""
import subprocess, sys, os, json, concurrent.futures as cf
def one(spec):
    seed, pids = spec.split(":")
    out = []
    for pid in pids.split(","):
        ev = f"/tmp/pyvc_scratch/ev_{seed}_{pid}"
        p = subprocess.run(["dev/with_seed.sh", seed, "./check", pid, "--tier", "quick"], cwd=os.path.dirname(os.path.dirname(os.path.abspath(__file__))), capture_output=True, text=True, env=dict(os.environ, VERIF_PROCS="4", VERIF_OUT=f"/tmp/pyvc_scratch/out_{seed}"))
        lines = [l for l in p.stdout.splitlines() if l.startswith(("VIOLATION", "UNDECIDED", "CHECKER", "OK"))]
        viol = [l for l in lines if l.startswith("VIOLATION")]
        out.append(f"{seed} vs {pid}: rc={p.returncode} violations={len(viol)} " + (" | ".join(l.split('replays/')[-1] if 'replays/' in l else l[:150] for l in (viol[:3] or lines[:2]))))
    return "\n".join(out)
with cf.ThreadPoolExecutor(4) as ex:
    for r in ex.map(one, sys.argv[1:]):
        print(r, flush=True)
