#!/bin/sh
# dev/matrix_sel.sh <regex on seed names>: like matrix_all.sh for a selection of seeds
cd "$(dirname "$0")/.." || exit 3
specs=$(for d in seeded/C*_*/; do s=$(basename $d); echo "$s" | grep -Eq "$1" && echo "$s:${s%%_*}"; done | tr '\n' ' ')
python3 dev/seed_matrix.py $specs > dev/seed_results_sel.txt 2>&1
awk '{print $4}' dev/seed_results_sel.txt | sort | uniq -c
grep -v "rc=1" dev/seed_results_sel.txt | cut -c1-330
