import sys; sys.path.insert(0,'/verif')
from pyvc.pool import run_all
from contracts import register_u_c as m
tasks=[("MultiTypeMap.register/any_number_of_entries", m.t_register_unbounded, "U")]
for r in run_all(tasks):
    sts = {}
    for o in r['obligations']: sts[o['status']] = sts.get(o['status'],0)+1
    print(r['name'], r['status'], r['detail'][-1800:], sts, 'paths', r['paths'], r.get('time'), r.get('cover'))
    for o in r['obligations']:
        if o['status']!='proved': print("    ", o['name'], o['status'], o['path'], (o['model'] or '')[:300])
