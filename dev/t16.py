import sys; sys.path.insert(0,'/verif')
from pyvc.verify import run_task
from contracts import typemap_c as m
r = run_task("wrap_dependent", m.t_wrap_dependent)
print(r.status, r.detail[:1500], r.paths, r.meta.get('outcomes'))
for o in r.obligations: print("  ", o['name'], o['status'], o['path'])
