import sys, time; sys.path.insert(0,'/verif')
from pyvc.verify import run_task
from contracts import mro_c
for v in ("plain_bases","hooked_base"):
    r = run_task(f"mirror EE {v}", mro_c.t_mirror("Exactly","Exactly","relative",unfold=2,variant=v))
    sts={}
    for o in r.obligations: sts[o['status']]=sts.get(o['status'],0)+1
    print(r.name, r.status, r.detail[:800], sts, 'paths', r.paths, 'solver', r.solver_s, 'wall', r.wall_s, r.meta.get('outcomes'))
    for o in r.obligations:
        if o['status']!='proved': print("   ", o['name'], o['status'], o['time'], (o['model'] or '')[:300])
