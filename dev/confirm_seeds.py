"""Confirm each sub-agent seed in a scratch worktree: patch applies, baseline tests unchanged, demo flips.
Writes /verif/seeded/<PID>_<X>/{patch.diff,demo.py,notes.md,meta.json}. Run: python3 dev/confirm_seeds.py [PID ...]"""
import json, os, subprocess, sys, shutil
from pathlib import Path
OUT = Path(os.environ.get("SEED_OUT", "/tmp/seed/out")); WT = Path("/tmp/seedcheck/wt"); DST = Path("/verif/seeded")
VARS = os.environ.get("SEED_VARIANTS", "AB")
RENAME = dict(zip(VARS, os.environ.get("SEED_SUFFIX", VARS)))
BASE = set(json.load(open("/root/.vp/BASELINE.json"))["stable_pass"])
def sh(cmd, cwd=None, env=None, timeout=1200):
    p = subprocess.run(cmd, shell=True, cwd=cwd, env=env, capture_output=True, text=True, timeout=timeout)
    return p.returncode, p.stdout + p.stderr
def tests(wt):
    env = dict(os.environ, PYTHONPATH=f"{wt}/src", PYTHONDONTWRITEBYTECODE="1")
    rc, out = sh(f"/venv/bin/python -m pytest -q -p no:cacheprovider --timeout=900 -rA tests 2>&1 | grep -E '^(PASSED|FAILED|ERROR)' ", cwd=wt, env=env)
    passed = set()
    for l in out.splitlines():
        if l.startswith("PASSED"):
            t = l.split()[1]; f, _, n = t.partition("::"); passed.add(f[:-3].replace("/", ".") + "::" + n.split("[")[0])
    return passed
def demo(wt, d):
    env = dict(os.environ, PYTHONPATH=f"{wt}/src", PYTHONDONTWRITEBYTECODE="1")
    return sh(f"/venv/bin/python {d}/demo.py", cwd=str(d), env=env, timeout=300)
pids = sys.argv[1:] or sorted(p.name for p in OUT.iterdir() if p.is_dir())
if WT.exists(): sh(f"git -C /repo worktree remove --force {WT}")
WT.parent.mkdir(parents=True, exist_ok=True)
print(sh(f"git -C /repo worktree add -q --detach {WT} HEAD"))
for pid in pids:
    for X in VARS:
        d = OUT / pid / X
        if not (d / "patch.diff").exists(): continue
        meta = dict(property=pid, variant=RENAME[X], round=os.environ.get("SEED_ROUND", "1"))
        sh("git checkout -q -- . && git clean -fdq", cwd=WT)
        rc0, o0 = demo(WT, d); meta["demo_unchanged_rc"] = rc0
        rc, o = sh(f"git apply {d}/patch.diff", cwd=WT); meta["applies"] = rc == 0
        if rc != 0: print(pid, X, "PATCH FAILS", o[:300]); continue
        rc1, o1 = demo(WT, d); meta["demo_patched_rc"] = rc1; meta["demo_patched_msg"] = o1[-400:]
        passed = tests(WT); meta["baseline_missing"] = sorted(BASE - passed)
        meta["ok"] = rc0 == 0 and rc1 != 0 and not meta["baseline_missing"]
        meta["ran"] = ["git apply patch.diff (scratch worktree)", "PYTHONPATH=<wt>/src /venv/bin/python -m pytest tests (143 baseline tests)", "demo.py unchanged / patched"]
        notes = (d / "notes.md").read_text() if (d / "notes.md").exists() else ""
        meta["needs"] = notes[:1500]
        print(pid, X, "ok" if meta["ok"] else "REJECT", rc0, rc1, len(meta["baseline_missing"]), flush=True)
        if meta["ok"]:
            t = DST / f"{pid}_{RENAME[X]}"; t.mkdir(parents=True, exist_ok=True)
            for f in ("patch.diff", "demo.py", "notes.md"):
                if (d / f).exists(): shutil.copy(d / f, t / f)
            (t / "meta.json").write_text(json.dumps(meta, indent=1))
sh("git checkout -q -- . && git clean -fdq", cwd=WT)
print(sh(f"git -C /repo worktree remove --force {WT}"))
