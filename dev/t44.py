import sys; sys.path.insert(0,'/verif')
from pyvc.pool import run_all
from contracts import valuetypes_c as m
tasks=[(n, b, "U") for n,b in m.TASKS]
for r in run_all(tasks):
    sts = {}
    for o in r['obligations']: sts[o['status']] = sts.get(o['status'],0)+1
    print(r['name'], r['status'], r['detail'][-600:], sts, 'paths', r['paths'], r.get('cover'))
    for o in r['obligations']:
        if o['status']!='proved': print("    ", o['name'], o['status'], o['path'], (o['model'] or '')[:300])
