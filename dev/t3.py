import sys, time; sys.path.insert(0,'/verif')
from pyvc.verify import run_task
from contracts import mro_c
k1,k2,reg = sys.argv[1], sys.argv[2], sys.argv[3]
unf = int(sys.argv[4]) if len(sys.argv)>4 else 1
t=time.time()
r = run_task(f"mirror[{k1},{k2}]/{reg}", mro_c.t_mirror(k1,k2,reg,unf))
sts={}
for o in r.obligations: sts[o['status']]=sts.get(o['status'],0)+1
print(r.name, r.status, r.detail[:800], sts, 'paths', r.paths, 'solver', r.solver_s, 'wall', r.wall_s, r.meta.get('outcomes'))
for o in r.obligations:
    if o['status']!='proved' or o['time']>1: print("   ", o['name'], o['status'], o['time'], (o['model'] or '')[:300])
