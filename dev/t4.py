import sys, time; sys.path.insert(0,'/verif')
from pyvc.pool import run_all
from contracts import mro_c as m
NOHOOK = ["Class","Alias","Strict","HasMethod","ClassCheck"]
tasks = [("opposite", m.t_opposite,"U"),("merge", m.t_merge,"U"),("merge_mirror", m.t_merge_mirror,"U"),("class_fragment", m.t_class_fragment,"U"),
 ("union_above/nohook", m.t_member_clause("union", NOHOOK, "x"),"U"), ("union_above/hook", m.t_member_clause("union", m.TROUBLE, "x"),"U"),
 ("inter_below/nohook", m.t_member_clause("inter", NOHOOK, "x"),"U"), ("inter_below/hook", m.t_member_clause("inter", m.TROUBLE, "x"),"U"),
 ("alias_origin", m.t_alias_origin,"U"), ("alias_argwise", m.t_alias_argwise,"U")]
tasks += [(f"dep_below[{k}]", m.t_dependent_below_bound(k),"U") for k in m.DEP]
tasks += [(f"reflexive[{k}]", m.t_reflexive(k),"U") for k in m.C12_KINDS]
t=time.time()
for r in run_all(tasks):
    sts = {}
    for o in r['obligations']: sts[o['status']] = sts.get(o['status'],0)+1
    bad = [o for o in r['obligations'] if o['status']!='proved']
    print(r['name'], r['status'], r['detail'][:300].replace("\n"," "), sts, 'paths', r['paths'], 'wall', r['wall_s'], flush=True)
    for o in bad[:3]: print("      ", o['name'], o['status'], (o['model'] or '')[:150].replace("\n"," "), flush=True)
print("total", time.time()-t)
