import sys, time, os; sys.path.insert(0,'/verif')
from pyvc.pool import run_all
from contracts import sort_c as m
tasks = [(f"sort_types[{c}]", m.t_sort_types(c), "U") for c in (sys.argv[1:] or ["partition","layered","order_free"])]
for r in run_all(tasks):
    sts = {}
    for o in r['obligations']: sts[o['status']] = sts.get(o['status'],0)+1
    print(r['name'], r['status'], r['detail'][:1800], sts, 'paths', r['paths'], 'wall', r['wall_s'], r['meta'].get('cover'), r['meta'].get('outcomes'), flush=True)
    for o in r['obligations']:
        if o['status']!='proved': print("    ", o['name'], o['status'], o['path'], (o['model'] or '')[:200].replace("\n"," "))
