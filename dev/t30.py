import sys; sys.path.insert(0,'/verif')
from pyvc.pool import run_all
from contracts import recode_c as m
tasks=[("recode.tail", m.t_recode_tail, "U"), ("adapt", m.t_adapt_function, "U")]
for r in run_all(tasks):
    sts = {}
    for o in r['obligations']: sts[o['status']] = sts.get(o['status'],0)+1
    print(r['name'], r['status'], r['detail'][:800], sts)
    for o in r['obligations']:
        if o['status']!='proved': print("    ", o['name'], o['status'])
