import sys; sys.path.insert(0,'/verif')
from pyvc.pool import run_all
from contracts import namedb_c as m
tasks=[("NameDatabase.gensym", m.t_gensym, "U"),("NameDatabase.__getitem__", m.t_getitem, "U"),("lemma.two_objects", m.t_two_objects, "U")]
for r in run_all(tasks):
    sts = {}
    for o in r['obligations']: sts[o['status']] = sts.get(o['status'],0)+1
    print(r['name'], r['status'], r['detail'][-1500:], sts, 'paths', r['paths'], r.get('time'), r.get('cover'))
    for o in r['obligations']:
        if o['status']!='proved': print("    ", o['name'], o['status'], o['path'], (o['model'] or '')[:600])
