import sys; sys.path.insert(0,'/verif')
from pyvc.pool import run_all
from contracts import mro_c as m
for r in run_all([(f"perm[{k}]", m.t_perm_invariant(k), "U") for k in ("Union","Inter")]):
    sts = {}
    for o in r['obligations']: sts[o['status']] = sts.get(o['status'],0)+1
    print(r['name'], r['status'], r['detail'][:600], sts, 'paths', r['paths'], r['meta'].get('cover'))
    for o in r['obligations']:
        if o['status']!='proved': print("    ", o['name'], o['status'], (o['model'] or '')[:150])
