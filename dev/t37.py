import sys; sys.path.insert(0,'/verif')
from pyvc.pool import run_all
from contracts import resolve_u_c as m
tasks=[("resolve.unbounded", m.t_resolve_unbounded, "U")]
for r in run_all(tasks):
    sts = {}
    for o in r['obligations']: sts[o['status']] = sts.get(o['status'],0)+1
    print(r['name'], r['status'], r['detail'][-2500:], sts, 'paths', r['paths'])
    for o in r['obligations']:
        if o['status']!='proved': print("    ", o['name'], o['status'], (o['model'] or '')[:300])
