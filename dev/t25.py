import sys; sys.path.insert(0,'/verif')
from pyvc.pool import run_all
from contracts import typemap_c as m
for r in run_all([("Candidate.dominates", m.t_candidate, "U"), ("lemma.sum", m.t_sum_lemma, "U")]):
    sts = {}
    for o in r['obligations']: sts[o['status']] = sts.get(o['status'],0)+1
    print(r['name'], r['status'], r['detail'][:900], sts, 'paths', r['paths'], r['meta'].get('cover'))
    for o in r['obligations']:
        if o['status']!='proved': print("    ", o['name'], o['status'], (o['model'] or '')[:200])
