#!/bin/sh
# run every check several times on the unchanged tree (different hash seeds, evidence redirected) and report anything but OK
cd "$(dirname "$0")/.." || exit 3
out=/tmp/pyvc_stab.$$; mkdir -p $out
bad=0
for round in 1 2 3 4; do
  for pid in C01 C02 C03 C04 C05 C06 C07 C08 C09 C10 C11 C12 C13 C14 C15 C16 C17 C18 C20; do
    r=$(PYTHONHASHSEED=$((round * 7919)) VERIF_OUT=$out ./check $pid --tier quick 2>&1 | grep -E '^(OK|VIOLATION|UNDECIDED|CHECKER)' | head -3 | cut -c1-200)
    case "$r" in OK*) ;; *) echo "round $round $pid: $r"; bad=1;; esac
  done
  echo "round $round done"
done
rm -rf $out
exit $bad
