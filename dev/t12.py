import sys; sys.path.insert(0,'/verif')
from pyvc.verify import run_task
from contracts import typemap_c as m
c, N, sh = sys.argv[1], int(sys.argv[2]), tuple(sys.argv[3].split(","))
r = run_task("x", m.t_e2e(N, sh, c))
k=0
for o in r.obligations:
    if o['status']!='proved':
        print(o['name'], o['path'], "\n   ", o['model']); k+=1
        if k>=int(sys.argv[4] if len(sys.argv)>4 else 2): break
