import sys, time; sys.path.insert(0,'/verif')
from pyvc.verify import run_task
from contracts import typemap_c as m
r = run_task("coded", m.t_mtm_missing("coded"))
print(r.status, r.detail, r.paths, r.meta)
for o in r.obligations:
    if 'continuation' in o['name'] or o['status']!='proved': print(o['name'], o['status'], o['path'], o['note'], o['goal'][:150].replace("\n"," "))
