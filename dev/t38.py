import sys; sys.path.insert(0,'/verif')
from pyvc.pool import run_all
from contracts import resolve_u_c as m
def canary(build):
    def b():
        w, thunk, opts = build()
        def t2(I):
            thunk(I)
            I.require(False, "CANARY_must_not_be_proved")
        return w, t2, opts
    return b
for r in run_all([("resolve.unbounded", canary(m.t_resolve_unbounded), "U")]):
    print(r['name'], r['status'], [ (o['name'].split('/')[-1], o['status']) for o in r['obligations'] if 'CANARY' in o['name']], r['detail'][:300])
