import sys, time; sys.path.insert(0,'/verif')
from pyvc.pool import run_all
from contracts import mro_c as m
tasks = [(f"eq[{a},{b}]", m.t_eq_sound(a,b), "U") for a in m.METAMC+m.DEP for b in m.C12_KINDS]
t=time.time()
for r in run_all(tasks):
    sts = {}
    for o in r['obligations']: sts[o['status']] = sts.get(o['status'],0)+1
    bad = [o for o in r['obligations'] if o['status']!='proved']
    if bad or r['status']!='ok': print(r['name'], r['status'], r['detail'][:300].replace("\n"," "), sts, 'paths', r['paths'], 'wall', r['wall_s'], flush=True)
    for o in bad[:3]: print("      ", o['name'], o['status'], (o['model'] or '')[:250].replace("\n"," "), flush=True)
print("total", time.time()-t)
