import sys, time, os; sys.path.insert(0,'/verif')
from pyvc.pool import run_all
from contracts import typemap_c as m
cl = sys.argv[1:] or ["complete","sound_single_position"]
tasks = []
for c in cl:
    shapes = [("p",)] if c=="sound_single_position" else [("p",), ("p","p"), ("p","k")]
    for sh in shapes:
        for N in (1,2,3):
            if N==3 and len(sh)>1 and not os.environ.get("BIG"): continue
            tasks.append((f"e2e[{c},N={N},{sh}]", m.t_e2e(N, sh, c), "B"))
for r in run_all(tasks):
    sts = {}
    for o in r['obligations']: sts[o['status']] = sts.get(o['status'],0)+1
    bad = {}
    for o in r['obligations']:
        if o['status']!='proved': bad[o['name'].split('/')[-1]] = bad.get(o['name'].split('/')[-1],0)+1
    print(r['name'], r['status'], r['detail'][:1500], sts, 'paths', r['paths'], 'wall', r['wall_s'], bad, r['meta'].get('cover'), flush=True)
