#!/bin/sh
# Re-run every registered check on the clean /repo tree so that the committed evidence comes from clean runs.
cd /verif || exit 3
if [ -n "$(git -C /repo status --porcelain)" ]; then echo "/repo not clean"; exit 3; fi
rc=0
for pid in $(python3 -c "import json; print(' '.join(c['property_id'] for c in json.load(open('MANIFEST.json'))['checks']))"); do
  out=$(./check "$pid" --tier quick 2>&1); r=$?
  echo "$pid rc=$r $(echo "$out" | grep -E '^(OK|VIOLATION|UNDECIDED|CHECKER)' | head -2 | tr '\n' ' ')"
  [ $r -ne 0 ] && rc=1
done
python3-vt - <<'PY'
import json, jsonschema, glob
sch = json.load(open('/root/.vp/EVIDENCE.schema.json'))
for f in sorted(glob.glob('/verif/evidence/*.json')):
    e = json.load(open(f)); jsonschema.validate(e, sch)
    c = e['coverage']
    if e['level'] == 'proof' and c['obligations'] != c['discharged']: print("PROOF-LEVEL MISMATCH", f)
print("evidence files valid")
PY
exit $rc
