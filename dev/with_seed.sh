#!/bin/sh
# dev/with_seed.sh <seed> <cmd...>: run cmd with OVLD_REPO pointing at a scratch worktree of /repo with the seed applied
seed=$1; shift
wt=/tmp/pyvc_scratch/$seed.$$
mkdir -p /tmp/pyvc_scratch
git -C /repo worktree add -q --detach "$wt" HEAD || exit 3
trap 'git -C /repo worktree remove --force "$wt"' EXIT INT TERM
git -C "$wt" apply "$(cd "$(dirname "$0")/.." && pwd)/${SEED_DIR:-seeded}/$seed/patch.diff" || exit 3
OVLD_REPO="$wt" "$@"
