import sys; sys.path.insert(0,'/verif')
from pyvc.pool import run_all
from contracts import mropos_c as m
def canary(build):
    def b():
        w, thunk, opts = build()
        def t2(I):
            thunk(I)
            I.require(False, "CANARY_must_not_be_proved")
        return w, t2, opts
    return b
tasks=[("mro.positions", canary(m.t_positions), "U"), ("mro._pull", canary(m.t_pull_first_group), "U"), ("lemma.resolution", canary(m.t_resolution_lemma), "U")]
for r in run_all(tasks):
    print(r['name'], r['status'], [ (o['name'].split('/')[-1], o['status']) for o in r['obligations'] if 'CANARY' in o['name']], r['detail'][:300])
