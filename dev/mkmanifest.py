import json, importlib, sys
sys.path.insert(0, '/verif')
props = [json.loads(l) for l in open('/verif/properties.jsonl')]
NA = {
 "C19": "contract-based deductive verification has no account of thread interleavings: a contract speaks about one call in isolation and pyvc has no memory model for CPython threads (DESIGN.md section 7)",
}
checks = []; na = []
for p in props:
    pid = p['id']
    try:
        m = importlib.import_module(f'props.{pid}')
        M = m.MANIFEST
    except Exception as e:
        na.append(dict(property_id=pid, reason=NA.get(pid, "check not built yet (see DESIGN.md section 10 build order)")))
        continue
    checks.append(dict(property_id=pid, quick_cmd=f"./check {pid} --tier quick", thorough_cmd=f"./check {pid} --tier thorough",
        evidence_file=f"/verif/evidence/{pid}.json", replay_cmd_template=f"./check {pid} --replay {{path}}", engine="pyvc",
        level_claimed=dict(category=M['category'], text=M['text'], design_ref=M['design_ref']), level_note=M['note'], technique=M['technique']))
man = dict(version=1,
 setup_cmd="python3-vt -c \"import z3, cvc5\" && /venv/bin/python -c \"import ovld, pytest\" && mkdir -p /verif/evidence /verif/replays",
 hooks=dict(guard="OVLD_VERIF", enable="no hooks: contracts are a sidecar under /verif/contracts; the VC generator parses /repo/src/ovld/*.py from the working tree on every run; native replays import the working tree (PYTHONPATH=/repo/src)",
   baseline_off_cmd="cd /repo && /venv/bin/python -m pytest -ra -q -p no:cacheprovider --timeout=900 --continue-on-collection-errors", source_commits=[], add_only=True),
 engines=[dict(name="pyvc", path="/verif/pyvc", serves_properties=[c['property_id'] for c in checks], kind_free_text="own verification-condition generator: symbolic execution of the real function ASTs against sidecar contracts, obligations discharged by z3 (E-matching, MBQI retry); per-instance verification of generated code; native replay of counterexamples")],
 checks=checks, not_applicable=na,
 notes="contract-based deductive verification of the real code; see DESIGN.md. Exit codes of ./check: 0 held, 1 violation, 2 undecided, 3 checker error.")
json.dump(man, open('/verif/MANIFEST.json','w'), indent=1)
print(len(checks), 'checks', len(na), 'n/a')
