import sys, time; sys.path.insert(0,'/verif')
import multiprocessing as mp
from pyvc import pool
from contracts import mro_c
Ks = mro_c.C12_KINDS
tasks=[]
for i,k1 in enumerate(Ks):
    for k2 in Ks[i:]:
        both = k1 in mro_c.TROUBLE and k2 in mro_c.TROUBLE
        tasks.append((f"mirror[{k1},{k2}]/{'relative' if both else 'outside'}", mro_c.t_mirror(k1,k2,'relative' if both else 'outside'), "U"))
pool._TASKS = tasks
t=time.time()
with mp.get_context("fork").Pool(16) as p:
    for r in p.imap_unordered(pool._run, range(len(tasks)), chunksize=1):
        sts = {}
        for o in r['obligations']: sts[o['status']] = sts.get(o['status'],0)+1
        bad = [o for o in r['obligations'] if o['status']!='proved']
        print(f"{time.time()-t:6.1f}", r['name'], r['status'], r['detail'][:300].replace("\n"," "), sts, 'paths', r['paths'], 'wall', r['wall_s'], flush=True)
        for o in bad[:3]: print("      ", o['name'], o['status'], (o['model'] or '')[:100].replace("\n"," "), flush=True)
print("total wall", time.time()-t)
