import sys, time; sys.path.insert(0,'/verif')
from pyvc.pool import run_all
from contracts import mro_c as m
tasks = [(f"sc/meaning[{k}]", m.t_sc_meaning(k), "U") for k in m.C13_KINDS] + [(f"sc/refl[{k}]", m.t_sc_reflexive(k), "U") for k in m.C12_KINDS]
tasks += [("sc/alias_cov", m.t_sc_alias_covariant, "U"), ("sc/class_vs_alias", m.t_sc_class_vs_alias, "U"), ("sc/transitive", m.t_sc_transitive_fragment, "U")]
t=time.time()
for r in run_all(tasks):
    sts = {}
    for o in r['obligations']: sts[o['status']] = sts.get(o['status'],0)+1
    bad = [o for o in r['obligations'] if o['status']!='proved']
    print(r['name'], r['status'], r['detail'][:300].replace("\n"," "), sts, 'paths', r['paths'], 'wall', r['wall_s'], flush=True)
    for o in bad[:3]: print("      ", o['name'], o['status'], (o['model'] or '')[:250].replace("\n"," "), flush=True)
print("total", time.time()-t)
