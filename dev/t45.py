import sys; sys.path.insert(0,'/verif')
from pyvc.pool import run_all
from contracts import core_c as m
tasks=[(f"class_body[{s}]", m.t_cls_body(s), "B") for s in m.CLS_SCENARIOS if len(sys.argv)<2 or sys.argv[1] in s]
for r in run_all(tasks):
    sts = {}
    for o in r['obligations']: sts[o['status']] = sts.get(o['status'],0)+1
    print(r['name'], r['status'], r['detail'][-900:], sts, 'paths', r['paths'])
    for o in r['obligations']:
        if o['status']!='proved': print("    ", o['name'], o['status'], o['path'], (o['model'] or '')[:300])
