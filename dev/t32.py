import sys; sys.path.insert(0,'/verif')
from pyvc.pool import run_all
from props import _tm
tasks=[(t['name'], t['build'], t['mode']) for t in _tm.e2e_tasks(["complete","sound_chain"], "quick")]
sel = sys.argv[1:]
for r in run_all([t for t in tasks if not sel or any(s in t[0] for s in sel)]):
    sts = {}
    for o in r['obligations']: sts[o['status']] = sts.get(o['status'],0)+1
    print(r['name'], r['status'], r['detail'][:600], sts, 'paths', r['paths'], round(r.get('time',0),1))
    seen=set()
    for o in r['obligations']:
        if o['status']!='proved' and o['name'] not in seen: seen.add(o['name']); print("    ", o['name'], o['status'], (o['model'] or '')[:300])
