import sys; sys.path.insert(0,'/verif')
from checklib.main import native
from contracts import entry_c
r = entry_c.entry_task(sys.argv[1] if len(sys.argv)>1 else "quick", native)()
print(r.status, r.detail[:500], r.meta, len(r.obligations), r.wall_s)
bad = [o for o in r.obligations if o['status']!='proved']
print(len(bad), "failing")
for o in bad[:40]: print("  ", o['name'], (o['model'] or '')[:160])
