import sys; sys.path.insert(0,'/verif')
from pyvc.pool import run_all
from contracts import mro_c as m
tasks=[(f"typeorder/dependent_below_relatives[{k}]", m.t_dependent_below_relatives(k), "U") for k in m.DEP]
for r in run_all(tasks):
    sts = {}
    for o in r['obligations']: sts[o['status']] = sts.get(o['status'],0)+1
    print(r['name'], r['status'], r['detail'][-800:], sts, 'paths', r['paths'], r.get('cover'))
    for o in r['obligations']:
        if o['status']!='proved': print("    ", o['name'], o['status'], o['path'], (o['model'] or '')[:300])
