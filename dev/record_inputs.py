"""dev helper (never run by a check): record, for every open finding, the complete list of inputs that fail each of its NATIVE clauses
on the unchanged tree, under several hash seeds (union). Writes them into known_findings.json under "inputs"; a clause whose
failing inputs differ between hash seeds is left without a list (masked as a whole clause, as before) and reported."""
import json, os, subprocess, sys
sys.path.insert(0, "/verif")
from checklib.main import _match
KF = "/verif/known_findings.json"
k = json.load(open(KF))
# native step name -> argv, from the props modules
import importlib
steps = {}
for pid in [f"C{i:02d}" for i in list(range(1, 19)) + [20]]:
    m = importlib.import_module(f"props.{pid}")
    for tier in ("quick", "thorough"):
        for st in m.conformance(tier):
            if st.get("violation_on_fail"):
                steps.setdefault((st["name"], tuple(st["argv"])), st["argv"])
seeds = ["0", "1", "7919", "15838", "12345", "424242"]
per = {}  # (clause name, argv) -> list of input sets (one per seed)
for (name, akey), argv in sorted(steps.items()):
    for sd in seeds:
        env = dict(os.environ, PYTHONPATH="/repo/src", PYTHONHASHSEED=sd, PYTHONDONTWRITEBYTECODE="1")
        r = subprocess.run(["/venv/bin/python", *argv], cwd="/verif/native", env=env, capture_output=True, text=True, timeout=1800)
        try:
            info = json.loads(r.stdout.strip().splitlines()[-1])
        except Exception:
            print("cannot parse", name, sd, r.stderr[-300:]); continue
        seen = set()
        for it in info.get("failing", []):
            nm = f"{name}/{it['name']}"
            seen.add(nm)
            if "inputs" in it:
                per.setdefault((nm, akey), []).append(set(it["inputs"]))
            else:
                per.setdefault((nm, akey), []).append(None)
    print("ran", name, akey, flush=True)
for f in k["findings"]:
    f.pop("inputs", None)
    if f["status"] != "open":
        continue
    rec, unstable = {}, set()
    for (nm, akey), sets in per.items():
        if any(_match(nm, pat) for pat in f.get("obligations", [])):
            if any(s is None for s in sets):
                unstable.add(nm); continue
            if len(sets) != len(seeds):
                print("UNSTABLE (does not fail under every seed):", f["id"], nm, akey, len(sets)); unstable.add(nm); continue
            if any(s != sets[0] for s in sets):
                print("UNSTABLE (inputs differ between seeds):", f["id"], nm, akey, [len(s) for s in sets]); unstable.add(nm); continue
            rec[nm] = sorted(set(rec.get(nm, [])) | sets[0])  # union over the tiers
    for nm in unstable:
        rec.pop(nm, None)
    if rec:
        f["inputs"] = rec
        print(f["id"], {a: len(b) for a, b in rec.items()})
json.dump(k, open(KF, "w"), indent=1)
