"""C17 - overloaded methods in classes merge per class and inherit without leaking (DESIGN 6/C17)."""
import json

from . import _core, _gen

ID = "C17"
LEVEL = "other"
EXPLANATION = (
    "Composition. The Ovld-level guarantees that class bodies rely on are the heap contracts of C16 (copy creates a fresh node, registering / adding "
    "mixins on it never changes a parent, defns = inherited overlaid by own). self threading: every emitted entry point for a method shape passes self "
    "first and unchanged (per-instance obligations of C03 for the ',self' shapes), the dependent wrapper threads self iff the first handler takes it "
    "(wrap_dependent contract). The class-body namespace and the metaclass hook are executed on the heap model (mode B, task class_body[*]): the real "
    "ovld_cls_dict.__setitem__, OvldMC.__prepare__, extend_super, to_ovld, is_ovld, ovld, Ovld.copy / add_mixins / register / rename run symbolically over "
    "concrete class shapes (repeated names, extend_super once / twice / over two bases, shadowing, __prepare__ over direct and inherited base methods); "
    "posts: the namespace entry is the user-facing function of ONE Ovld whose method set is the inherited methods then the body's definitions, a fresh "
    "node, and no base class's Ovld changes. recode.tail: one method rewritten for two functions (base and subclass copy) gets two code names. The "
    "descriptor binding and type.__new__ go through the Python metaclass protocol and are checked in R mode only (bounded native suite: sibling "
    "subclasses, several bases, deep hierarchies, plain mixin classes, recurse / call_next inherited by subclasses in every order of first use)."
)
ASSUMPTIONS = ["instance binding is CPython's function descriptor"]
TRUSTED = ["Python metaclass protocol"]
BOUNDS = {"native": "native/c17_classes.py scenarios"}


def tasks(tier):
    from contracts import typemap_c

    t = _core.cls_body_tasks() + _core.defns_tasks()[:4] + _core.defns_history_tasks()[:2] + _core.register_frame_tasks()[:2] + _core.guard_tasks()[2:]
    t += [dict(name="MultiTypeMap.wrap_dependent", build=typemap_c.t_wrap_dependent, mode="U")]
    from contracts import recode_c

    t += [dict(name="recode.tail", build=recode_c.t_recode_tail, mode="U")]
    t += _core.descriptor_tasks() + _core.keyword_decorator_tasks()
    t += _gen.entry_tasks(tier) + _gen.dep_tasks(tier)  # value dispatchers of methods pass the instance on (families with self)
    return t


def conformance(tier):
    return [dict(name="native:c17", argv=["c17_classes.py"], violation_on_fail=True)]


def concretise(obname, detail, task_result, native):
    r = native(["c17_classes.py"], timeout=300)
    try:
        info = json.loads(r["out"].strip().splitlines()[-1])
    except Exception:
        return dict(error=(r["out"] + r["err"])[-400:])
    if info.get("failing"):
        return dict(violations=info["failing"][0]["violations"], replay_cmd=["c17_classes.py"], clause=info["failing"][0]["name"])
    return dict(violations=[], searched=info.get("evaluations"))


MANIFEST = dict(
    category="other",
    text="Composition of the C16 heap contracts and the per-instance self-threading obligations, plus a bounded runtime-contract suite for the class-body namespace and metaclass merging, which go through the Python metaclass protocol and are not brought under the deductive engine.",
    design_ref="6/C17",
    note="ovld_cls_dict.__setitem__ / OvldMC.__prepare__ are covered only in R mode (bounded scenarios). Trusted: CPython descriptor and metaclass protocols.",
    technique="contract-based verification by composition (heap frames, generated-code instances) plus bounded runtime contract checking of the class machinery",
)
