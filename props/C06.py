"""C06 - resolution is deterministic and ignores irrelevant context (DESIGN 6/C06)."""
from . import _tm

ID = "C06"
LEVEL = "other"
EXPLANATION = (
    "Corollary of order-witness-free postconditions. U: sort_types/order_free - under mirror symmetry of the type order on the registered types "
    "the dependency relation is exactly {TO = LESS}, with no mention of the iteration order of the set (proved from the pair-loop invariant over an "
    "arbitrary duplicate-free enumeration); partition/layered likewise; TypeMap.__missing__ over an arbitrary enumeration of each layer. B: the "
    "end-to-end run explores every iteration order of the candidate set / handler sets (<=3 methods) and every path ends in the oracle's outcome, "
    "which depends only on the applicable methods, their types and priorities. The mirror-symmetry premise is C12's per-kind obligations: it fails "
    "for the hook x hook kind pairs (F-mirror*), and levels are unfaithful across positions (F-lvl) - open findings shared with C12 / C02."
)
ASSUMPTIONS = [
    'MultiTypeMap.mro (mode U): each handler occurs at most once in a per-entry table (guarantee side discharged: register.any_number_of_entries/one_registration_files_the_handler_under_at_most_one_class_per_table, given pairwise distinct keyword names - Python syntax - and MTInv: the handler is not registered yet)',
    'MultiTypeMap.mro (mode U): signatures have vararg=False (Signature.extract rejects *args; register creates the -1 table only for vararg signatures)',
    'MultiTypeMap.mro (mode U): the key is non-empty (__missing__ answers () before calling resolve)',
    "hash seed / addresses influence behaviour only through set iteration order (frame obligation: no id()/hash() use in the resolution code)"]
TRUSTED = ["graphlib model", "list.sort stability"]
BOUNDS = {"e2e": "<=3 methods, all iteration orders of the candidate set"}


def tasks(tier):
    from contracts import mro_c

    t = _tm.sort_types_tasks() + _tm.typemap_tasks()[1:2] + _tm.mro_unbounded_tasks() + _tm.resolve_unbounded_tasks()
    # the mirror-symmetry premise of sort_types/order_free on the class / generic fragment (shared with C12)
    t += [_tm.T("typeorder/class_fragment", mro_c.t_class_fragment)]
    t += [_tm.T(f"typeorder/mirror[{a},{b}]/outside", mro_c.t_mirror(a, b, "outside")) for a, b in (("Class", "Class"), ("Class", "Alias"), ("Class", "Strict"), ("Class", "HasMethod"), ("Class", "ClassCheck"))]
    # ... and on the value-dependent kinds (types with wildcard parameters, Literal): same obligations as C12
    for a, b in (("Class", "Equals"), ("Class", "FuncDep"), ("Equals", "Equals"), ("Equals", "FuncDep"), ("FuncDep", "FuncDep")):
        both = a in mro_c.TROUBLE and b in mro_c.TROUBLE
        t += [_tm.T(f"typeorder/mirror[{a},{b}]/{'relative' if both else 'outside'}", mro_c.t_mirror(a, b, "relative" if both else "outside", unfold=1), mode="U")]
    t += [_tm.T("FuncDependentType.__lt__/wildcards", mro_c.t_funcdep_lt)]
    from contracts import recode_c

    t += [dict(name="recode.tail", build=recode_c.t_recode_tail, mode="U")]  # methods made by one def keep distinct identities whatever the registration order
    t += _tm.e2e_tasks(["complete", "sound_chain"], tier, perm=True)
    t += [
        _tm.T("frames.determinism", __import__("pyvc.frames", fromlist=["frame_task"]).frame_task("frames.determinism", [
            (f"{q.split(':')[1]}.uses_no_identity_or_hash", q, "calls_none_of", ["id", "hash"]) for q in ["mro:sort_types", "typemap:TypeMap.__missing__", "typemap:MultiTypeMap.mro", "typemap:MultiTypeMap.resolve", "mro:typeorder", "mro:subclasscheck"]
        ]), "F")
    ]
    return t


def conformance(tier):
    return [_tm.native_c02(perms=True), dict(name="native:c06", argv=["c06_order.py"], violation_on_fail=True)]


concretise = _tm.concretise_c02

MANIFEST = dict(
    category="other",
    text="Order-free postconditions proved (unbounded) for sort_types over an arbitrary enumeration of the set of registered types, and every iteration order of the candidate set explored in the bounded end-to-end run; determinism is a corollary because no proved postcondition mentions an order witness. Premise (mirror symmetry) and level faithfulness have open findings.",
    design_ref="6/C06",
    note="Bounded: <=3 methods (every iteration order of every set for 2 methods) for the candidate-order exploration; native suite permutes registration orders. Trusted: graphlib model, list.sort stability, z3.",
    technique="contract-based deductive verification (pyvc + z3): postconditions independent of the set-iteration order witness",
)
