"""C04 - caching is invisible (DESIGN 6/C04)."""
from . import _tm

ID = "C04"
LEVEL = "other"
EXPLANATION = (
    "Representation invariant + frames. U: MultiTypeMap.__missing__ (plain, code-prefixed, empty key) preserves the cache-coherence invariant "
    "CacheInv on every exit and its outcome equals a function of the registration tables and the key only (spec functions W/E/A), so two states "
    "satisfying CacheInv over the same tables give the same outcome; TypeMap.__missing__ writes only the looked-up key with a value that is a "
    "function of the tables. Syntactic frame obligations: mro/resolve/TypeMap.__missing__ read no cache field. B: resolve's writes (keys embed the "
    "resolved tuple; values are functions of the ranks) for <=3 ranks x <=2 methods - this bounded part is why the level is 'other'."
)
ASSUMPTIONS = [
    'MultiTypeMap.resolve (mode U): every registered method is a function with its own code object (adapt_function / rename_code give each adapted method a fresh one)',
    'MultiTypeMap.resolve (mode U): mro returns non-empty groups and puts each method in exactly one group (guarantee side discharged per call of _pull: mro._pull/the_group_starts_with_that_candidate, mro._pull/no_member_of_the_group_can_be_yielded_by_the_recursive_call; composing them over the recursion is by induction on the list length, not mechanised)',
    "a fixed method set (registration is C05)", "wrappers generated per resolution are compared up to (rank, fall-through)"]
TRUSTED = ["dict.__getitem__ calls __missing__ only on a miss", "contract of resolve at its call site in __missing__ (shape discharged in bounded mode)"]
BOUNDS = {"resolve": "<=3 ranks, <=2 methods per rank"}


def tasks(tier):
    from contracts import recode_c

    from contracts import callsites_c

    return [dict(name="frames.rebuild", build=callsites_c.task(), mode="F"), dict(name="recode.tail", build=recode_c.t_recode_tail, mode="U")] + _tm.register_unbounded_tasks() + _tm.mtm_missing_tasks(("plain", "coded", "empty")) + _tm.typemap_tasks()[:2] + _tm.mro_unbounded_tasks()[:1] + _tm.resolve_tasks(tier) + _tm.resolve_unbounded_tasks() + _tm.frame_tasks() + _tm.state_tasks() + _tm.wrap_tasks() + _tm.e2e_tasks(["complete"], "quick")[:4]


def conformance(tier):
    return [dict(name="native:c04", argv=["seq_suite.py", "c04"], violation_on_fail=True)]


def concretise(obname, detail, task_result, native):
    import json

    r = native(["seq_suite.py", "c04"], timeout=300)
    try:
        info = json.loads(r["out"].strip().splitlines()[-1])
    except Exception:
        return dict(error=(r["out"] + r["err"])[-400:])
    if info.get("failing"):
        return dict(violations=info["failing"][0]["violations"], replay_cmd=["seq_suite.py", "c04"], bound="call sequences of native/c04_sequences.py")
    return dict(violations=[], searched=info.get("evaluations"))


MANIFEST = dict(
    category="other",
    text="Cache-coherence invariant proved preserved (unbounded) by the table lookup on every exit, outcome proved to be a function of registration tables and key; frames computed from the AST; resolve's writes checked in bounded-symbolic mode.",
    design_ref="6/C04",
    note="Bounded: resolve <=3 ranks x <=2 methods. Trusted: CPython dict protocol, z3. Nested recurse/call_next are ordinary lookups (site structure is C08/C09).",
    technique="contract-based deductive verification (pyvc + z3): representation invariant and frame obligations on the real ASTs",
)
