"""C18 - a failed build never leaves a half-built function in service (DESIGN 6/C18)."""
import json

from . import _core, _tm

ID = "C18"
LEVEL = "other"
EXPLANATION = (
    "Exceptional-exit invariant Safe(o) (the user-facing function still routes through the build, or self.map is complete for defns and is the table "
    "the entry point uses) checked on the real AST of Ovld.compile / register_signature / _update / unregister: (a) for every callee that can raise "
    "(argument analysis, entry-point generation, adaptation of the k-th method) on first build and on rebuild; (b) for an asynchronous exception at "
    "EVERY program point of the build (each heap write / external call); (c) recovery: failing build, then unregistering the offending method, must "
    "leave the function Safe. The trampoline forwards exactly its arguments and builds first iff not built. Cache-miss resolution: resolve's writes "
    "(bounded) and CacheInv preserved on exceptional exit of __missing__ (C04). On the pinned tree Safe fails from the swap of the entry point until "
    "the flag is set, and on every rebuild from the assignment of the empty table: known finding F-halfbuilt (pattern = those program-point ranges); "
    "every other point is discharged."
)
ASSUMPTIONS = ["a callee that raises has performed no write other than those its contract lists"]
TRUSTED = ["logging contracts of the callees of compile"]
BOUNDS = {"method sets": "2-3 methods, failing method at each position"}


def tasks(tier):
    return _core.failure_tasks() + _core.built_flag_tasks() + _core.descriptor_tasks() + _core.trampoline_tasks() + _tm.mtm_missing_tasks(("plain", "coded")) + _tm.resolve_tasks("quick")[:6] + _tm.resolve_interrupt_tasks()


def conformance(tier):
    return [dict(name="native:c18", argv=["c18_faults.py"], violation_on_fail=True)]


def concretise(obname, detail, task_result, native):
    r = native(["c18_faults.py"], timeout=300)
    try:
        info = json.loads(r["out"].strip().splitlines()[-1])
    except Exception:
        return dict(error=(r["out"] + r["err"])[-400:])
    fresh = [f for f in info.get("failing", []) if not f["name"].startswith(("first_build_adapt_failure", "works_normally_once_offending_method_removed"))]
    if fresh:
        return dict(violations=fresh[0]["violations"], replay_cmd=["c18_faults.py"], clause=fresh[0]["name"])
    return dict(violations=[], searched=info.get("evaluations"))


MANIFEST = dict(
    category="other",
    text="The safety invariant of the build is checked at every exceptional exit and at every program point of compile (fault enumeration over the real AST on an explicit heap), plus recovery after removing the offending method; the points where it genuinely fails on the pinned tree are one open finding (entry point swapped / table replaced before it is filled).",
    design_ref="6/C18",
    note="Bounded over method sets (2-3 methods). Callees are contracts that may raise where the real ones can. Asynchronous exceptions inside resolve (F-partialwrite) are covered only through the CacheInv obligations of __missing__.",
    technique="contract-based verification: exceptional-exit invariant at every program point of the real build path (pyvc), fault enumeration",
)
