"""Shared task lists over the heap contracts of core.py (contracts/core_c.py)."""
from contracts import core_c as m


def T(name, build, mode="B"):
    return dict(name=name, build=build, mode=mode)


def signature_tasks():
    """Signature.extract, any number of parameters (mode U, contracts/sig_c.py)"""
    from contracts import sig_c

    return [T("Signature.extract", sig_c.t_extract, "U")]


def descriptor_tasks():
    """the Ovld object as a class attribute / called directly (core_c.t_descriptor)"""
    return [T(f"Ovld.descriptor[{wh}]", m.t_descriptor(wh)) for wh in ("get", "call")]


def keyword_decorator_tasks():
    from contracts import utils_c

    return [T("keyword_decorator", utils_c.t_keyword_decorator)]


def defns_tasks():
    return [T(f"Ovld.defns[{g}]", m.t_defns(g)) for g in m.GRAPHS]


def defns_history_tasks():
    return [T(f"Ovld.defns.history[{g},change_at_{at}]", m.t_defns_history(g, at)) for g in ("chain3", "two_parents", "linked_chain3") for at in (0, 1)]


def cls_body_tasks():
    return [T(f"class_body[{sc}]", m.t_cls_body(sc)) for sc in m.CLS_SCENARIOS]


def copy_variant_tasks():
    return [T(f"Ovld.{op}[{g},{'linked' if lb else 'plain'}]", m.t_copy_variant(g, op, lb)) for g in ("single", "child", "linked_child", "two_parents") for op in ("copy", "variant") for lb in (False, True)]


def unregister_frame_tasks():
    return [T(f"Ovld.unregister.frame[{g}]", m.t_unregister_frame(g)) for g in ("single", "child", "linked_child", "chain3")]


def guard_tasks():
    return [T(f"Ovld.modify_guard[{op}]", m.t_modify_guard(op)) for op in ("register", "unregister", "add_mixins")]


def register_frame_tasks():
    return [T(f"Ovld._register.frame[{g}]", m.t_register_frame(g)) for g in ("child", "linked_child", "chain3", "two_parents", "siblings")] + [
        T(f"Ovld._register.frame[{g},inherited_signature]", m.t_register_frame(g, "inherited")) for g in ("chain3", "linked_chain3")
    ]


def compile_tasks():
    return [T(f"Ovld.compile[{g}]", m.t_compile(g)) for g in ("single", "child", "linked_child", "two_parents", "chain3", "siblings")]


def compile_parent_tasks():
    return [T(f"Ovld.compile[{g},first_use_of_the_parent]", m.t_compile(g, which="root")) for g in ("linked_child", "linked_chain3", "siblings")]


def next_resolve_tasks():
    return [T(f"Ovld.{wh}[{na} arguments]", m.t_next_resolve(wh, na)) for wh in ("next", "resolve") for na in (0, 1, 2)]


def built_flag_tasks():
    return [T(f"Ovld.compile.built_flag[{'first_build' if fb else 'rebuild'}]", m.t_built_flag(fb)) for fb in (True, False)]


def attr_copy_tasks():
    return [T(f"Ovld.compile[{g},entry_point_without_defaults]", m.t_compile(g, empty_attrs=True)) for g in ("single", "child")]


def lock_tasks():
    return [T("Ovld.compile.transitive_lock[chain3]", m.t_transitive_lock())]


def update_tasks():
    return [T(f"Ovld._update[{g},{'changed_in_use' if cp else 'changed_unused'}]", m.t_update_propagates(g, cp)) for g in ("linked_child", "linked_chain3", "siblings") for cp in (True, False)] + [T("Ovld.add_mixins.rebuilds", m.t_add_mixins_rebuilds())]


def failure_tasks():
    out = []
    for fb in (True, False):
        tag = "first_build" if fb else "rebuild"
        for callee, ks in (("analyze_arguments", [1]), ("generate_dispatch", [1]), ("adapt_function", [1, 2, 3])):
            for k in ks:
                out.append(T(f"Ovld.compile.failure[{tag},{callee}#{k}]", m.t_build_failure(callee, k, fb)))
        out.append(T(f"Ovld.compile.interrupt[{tag}]", m.t_build_interrupt(fb)))
        for wh in ("adapt", "analyze"):
            out.append(T(f"Ovld.recovery[{tag},{wh}]", m.t_recovery(fb, wh)))
    for g in ("linked_child", "linked_chain3", "siblings"):
        out.append(T(f"Ovld._update.failure[{g}]", m.t_update_failure(g)))
    for callee in ("analyze_arguments", "generate_dispatch"):
        out.append(T(f"Ovld.compile.loud_failure[rebuild,{callee}#1]", m.t_build_failure(callee, 1, False, clause="loud")))
    return out


def trampoline_tasks():
    return [T("Ovld.__call__.trampoline", m.t_trampoline())]
