"""C01 - a method only ever runs on arguments its declared signature accepts (DESIGN 6/C01)."""
import json

from contracts import mro_c

from . import _gen, _tm

ID = "C01"
LEVEL = "other"
EXPLANATION = (
    "Lemma composing five contracts. (1) I: every emitted entry point builds the key from type/subtler_type of exactly the supplied arguments and "
    "calls map[key] with exactly those arguments. (2) U: sort_types yields exactly the registered types t with subclasscheck(cls, t); TypeMap."
    "__missing__ returns exactly the entries of those types. (3) B: in the end-to-end run of the real __missing__/resolve/mro/_pull the stored handler "
    "is applicable at every supplied entry and accepts the call shape (arity range, required keywords). (4) U: for non-dependent T "
    "subclasscheck(type(v), T) is the documented meaning of T (C13), for dependent T it is subclasscheck(type(v), bound(T)). (5) I: every emitted "
    "dependent dispatcher calls HANDLER_i only on a path whose condition implies isinstance(arg_k, T_{i,k}) at every dependent position. Together: a "
    "method body is entered only with arguments its annotations accept. recurse/call_next sites are ordinary lookups (C08/C09)."
)
ASSUMPTIONS = [
    'MultiTypeMap.mro (mode U): each handler occurs at most once in a per-entry table (guarantee side discharged: register.any_number_of_entries/one_registration_files_the_handler_under_at_most_one_class_per_table, given pairwise distinct keyword names - Python syntax - and MTInv: the handler is not registered yet)',
    'MultiTypeMap.mro (mode U): signatures have vararg=False (Signature.extract rejects *args; register creates the -1 table only for vararg signatures)',
    'MultiTypeMap.mro (mode U): the key is non-empty (__missing__ answers () before calling resolve)',
    "for a type[T] annotation 'is an instance of' reads 'is a type that is a subtype of T' (C14)"]
TRUSTED = ["compile/exec of emitted text", "TypeMap contract at the mro call site"]
BOUNDS = {"I": "shape families of native/gen_dispatch.py and native/gen_dependent.py", "e2e": "<=3 methods, call shapes p / p,p / p,k"}


def tasks(tier):
    t = _gen.entry_tasks(tier) + _gen.dep_tasks(tier)
    from . import _core as _c0

    t += _c0.signature_tasks() + _tm.register_unbounded_tasks() + _tm.resolve_unbounded_tasks()
    t += _tm.sort_types_tasks()[:1] + _tm.typemap_tasks()[1:2]
    t += _tm.mro_unbounded_tasks()[:1] + _tm.e2e_tasks(["complete"], tier)
    t += [_tm.T(f"subclasscheck/meaning[{k}]", mro_c.t_sc_meaning(k)) for k in mro_c.C13_KINDS]
    t += [_tm.T(f"subclasscheck/dependent_applicable_iff_bound[{k}]", mro_c.t_sc_dependent(k)) for k in mro_c.DEP]
    t += [_tm.T("DependentType.__instancecheck__", mro_c.t_dep_instancecheck)] + _tm.wrap_tasks()
    # two types that compare equal are filed as ONE signature: equality must imply the same accepted arguments
    t += [_tm.T(f"eq/sound[{a},{b}]", mro_c.t_eq_sound(a, b)) for a in mro_c.DEP for b in mro_c.DEP]
    return t


def conformance(tier):
    return [dict(name="native:c01", argv=["c01_guard.py"], violation_on_fail=True), dict(name="native:c09", argv=["c09_rewrite.py", tier], violation_on_fail=True)]


def concretise(obname, detail, task_result, native):
    r = native(["c01_guard.py"], timeout=300)
    try:
        info = json.loads(r["out"].strip().splitlines()[-1])
    except Exception:
        return dict(error=(r["out"] + r["err"])[-400:])
    if info.get("failing"):
        return dict(violations=info["failing"][0]["violations"], replay_cmd=["c01_guard.py"])
    return dict(violations=[], searched=info.get("evaluations"))


MANIFEST = dict(
    category="other",
    text="A lemma over five contracts, each discharged on the real code: unbounded for the applicability filter and the subtype test, per generated instance (all inputs) for the entry point and the dependent dispatchers, bounded-symbolic for the candidate filter inside mro; runtime guard suite as cross-check.",
    design_ref="6/C01",
    note="Bounded over generated-code shapes and <=3 methods in the end-to-end run. Trusted: exec of emitted text, z3. Known findings shared with C03/C10 (dropped keyword, union bound, kw-only dependent).",
    technique="contract-based deductive verification (pyvc + z3) composed over five contracts; per-instance verification of generated code",
)
