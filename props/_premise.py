"""The dispatch core as a premise of every property.

Every listed property is a statement about what overloaded functions DO - for every program, history and input. Whatever the
property, its argument passes through the same few functions: the per-position and multi-position tables (register, mro, resolve,
__missing__ for plain / continuation / empty keys), signature extraction, the rebuild of a function in use and of its linked
descendants, the copy of the generated entry point onto the user-facing function, and the rule that nothing but a change of the
method set rebuilds a function. A change that breaks one of their contracts breaks - for some program - every property that
quantifies over programs (round 8 of the seeded changes: the same removed branch of `MultiTypeMap.__missing__` was presented as a
violation of C04, C07, C10, C11, C14 and C17, each time with a witness for that property). These contracts are therefore carried
by every check, like the state inventory; they are mode U except the heap tasks over derivation graphs (mode B, reported under
bounded_*)."""
from . import _core, _tm


def premise_tasks(unbounded_only=False):
    """unbounded_only: for a property claimed at level `proof` only the mode-U / frame part is carried (a bounded task would
    put bounded obligations into evidence that claims none)"""
    from contracts import callsites_c

    t = [dict(name="frames.rebuild", build=callsites_c.task(), mode="F")]
    t += _tm.mtm_missing_tasks(("plain", "coded", "empty")) + _tm.typemap_tasks() + _tm.candidate_tasks()
    t += _tm.mro_unbounded_tasks() + _tm.resolve_unbounded_tasks() + _tm.register_unbounded_tasks()
    t += _core.signature_tasks()
    if not unbounded_only:
        t += _core.update_tasks() + _core.attr_copy_tasks() + _core.descriptor_tasks()
    return t
