"""C20 - each argument-type combination is resolved at most once between changes (DESIGN 6/C20)."""
from . import _tm

ID = "C20"
LEVEL = "other"
EXPLANATION = (
    "Cache-fill postconditions with a ghost consultation counter, all unbounded: MultiTypeMap.__missing__ (plain key) returns with the key cached and "
    "performs exactly one resolution; on a code-prefixed key whose tuple is already cached it performs none; TypeMap.__missing__ caches its result "
    "under the looked-up type; nothing but register/clear removes entries (write frames); the only route from the lookup to user hooks is "
    "resolve (call-frame obligation on the AST). With the dict axiom (a hit never reaches __missing__) a repeat call consults nothing. The entry "
    "point and rewritten call sites indexing the table directly is the I/R layer of C03/C09; value-level isinstance checks inside dependent wrappers "
    "run on every call by design and are outside the statement. frames.rebuild: the table is thrown away only by Ovld.compile, and every call site "
    "of compile in the real AST is guarded by `if not <it>._compiled`, or is _update (the method set changed) or the bootstrap entry; `_compiled` and "
    "`map` are written only by __init__ / compile; Ovld.__get__ / __call__ build iff not built (B)."
)
ASSUMPTIONS = ["value-level checks of dependent wrappers are not 'type-order or applicability computation'"]
TRUSTED = ["dict.__getitem__ calls __missing__ only on a miss (CPython)"]


def tasks(tier):
    from . import _core

    from contracts import callsites_c

    return [dict(name="frames.rebuild", build=callsites_c.task(), mode="F")] + _tm.mtm_missing_tasks(("plain", "coded", "empty")) + _tm.typemap_tasks()[1:2] + _tm.frame_tasks() + _tm.state_tasks() + _core.compile_parent_tasks() + _core.compile_tasks() + _core.descriptor_tasks()


def conformance(tier):
    return [dict(name="native:c20", argv=["seq_suite.py", "c20"], violation_on_fail=True)]


def concretise(obname, detail, task_result, native):
    import json

    r = native(["seq_suite.py", "c20"], timeout=300)
    try:
        info = json.loads(r["out"].strip().splitlines()[-1])
    except Exception:
        return dict(error=(r["out"] + r["err"])[-400:])
    if info.get("failing"):
        return dict(violations=info["failing"][0]["violations"], replay_cmd=["seq_suite.py", "c20"])
    return dict(violations=[], searched=info.get("evaluations"))


MANIFEST = dict(
    category="other",
    text="Mixed: the cache-fill postconditions with a ghost consultation counter on the real ASTs of both tables' __missing__, the AST frame obligations (only register/clear remove entries; the lookup reaches user hooks only through resolve; every call site of Ovld.compile is guarded) and the state inventory are unbounded and all discharged (reported under obligations/discharged); 'a first use or a lock never rebuilds another function' is verified on an enumerated family of derivation graphs (<=3 nodes, flags symbolic) and reported under bounded_*, never as proved.",
    design_ref="6/C20",
    note="Trusted: CPython dict protocol (hits bypass __missing__), the abstract contract of resolve at its call site, z3. Generated entry point / rewritten call sites indexing the table directly: checked natively (counter suite), deductively in C03/C09's layers.",
    technique="contract-based deductive verification (pyvc + z3): cache-fill postconditions, ghost counter, AST frame obligations",
)
