"""C11 - Literal and the built-in value types match exactly their documented values (DESIGN 6/C11)."""
import json

from . import _gen, _tm

ID = "C11"
LEVEL = "other"
EXPLANATION = (
    "I: for every dispatcher emitted by the real generator over the family of native/gen_dependent.py (literals of 1-3 values on both sides of the "
    "lookup-table threshold, overlapping and disjoint, mixed value types, tuple products, regexps, StartsWith/EndsWith, & and | combinations) the "
    "outcome for ALL argument values is compared with the reference meaning isinstance(value, T) = isinstance(value, bound) and documented condition, "
    "built from the declared types with the same uninterpreted value atoms: whichever strategy (if-chain, table, counting) the generator picked, a "
    "handler runs iff its declared type matches. R (bounded): native suite evaluating isinstance(value, T) against dispatch for a value corpus. The "
    "table path's key list was wrong for multi-valued literals (F-keys, fixed); the bound taken from the first value is an open finding (F-bound). "
    "U (third session): the documented meaning of each built-in value type is proved of the real check bodies - Equals.check (any number of listed values), "
    "Equals.get_keys, ProductType.check, StartsWith, EndsWith, HasKey, Regexp.check, Sequence/Collection/MappingFastCheck (contracts/valuetypes_c.py); "
    "MultiTypeMap.register flags a method value-dependent iff some positional or keyword entry is (any number of entries), resolve wraps exactly the "
    "flagged ranks (any number of ranks), wrap_dependent generates from exactly the arguments of this call; NameDatabase (the symbols of generated code)."
)
ASSUMPTIONS = ["dict lookup on the table path is == with consistent hash for the literal value types", "== between an argument and distinct literal values holds for at most one of them"]
TRUSTED = ["compile/exec of emitted text", "re, str.startswith/endswith and `in` as uninterpreted atoms shared by emitted code and reference"]
BOUNDS = {"families": "native/gen_dependent.py: 52 hand-picked families plus every set of <=4 (thorough: 5) conditions out of seven at one position; functions and methods with self"}


def tasks(tier):
    # a method is wrapped in its value check iff registration flagged it value-dependent; resolve wraps the flagged rank
    return _gen.dep_tasks(tier) + _gen.valuetype_tasks() + _tm.register_unbounded_tasks() + _tm.resolve_unbounded_tasks() + _tm.wrap_tasks()


def conformance(tier):
    return [dict(name="native:c11", argv=["c10_values.py", "c11"], violation_on_fail=True)]


def concretise(obname, detail, task_result, native):
    r = native(["c10_values.py", "c11"], timeout=300)
    try:
        info = json.loads(r["out"].strip().splitlines()[-1])
    except Exception:
        return dict(error=(r["out"] + r["err"])[-400:])
    fresh = [f for f in info.get("failing", []) if not f["name"].startswith(("overlap", "unionbound", "bound_first_value", "product"))]
    if fresh:
        return dict(violations=fresh[0]["violations"], replay_cmd=["c10_values.py", "c11"])
    return dict(violations=[], searched=info.get("evaluations"))


MANIFEST = dict(
    category="other",
    text="Every emitted value-check dispatcher of an enumerated family is verified for all argument values against the reference meaning of the declared value types (same uninterpreted atoms on both sides), independent of the strategy the generator chose; bounded native corpus as cross-check; one fixed and one open finding.",
    design_ref="6/C11",
    note="Bounded over the family of value types / companion method sets. Trusted: exec of emitted text, library predicates as uninterpreted atoms, z3.",
    technique="per-instance symbolic verification of generated checking code (pyvc + z3) against contracts computed from the declared types",
)
