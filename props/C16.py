"""C16 - variants and mixins compose without ever disturbing their parents (DESIGN 6/C16)."""
import json

from . import _core

ID = "C16"
LEVEL = "other"
EXPLANATION = (
    "The real ASTs of Ovld.defns, _attempt_modify/lock, add_mixins, _register/_set, unregister, _update, compile and register_signature are executed "
    "on heaps of Ovld objects whose derivation graph is enumerated (single, child, linked child, chain of 3, linked chain of 3, two parents, siblings "
    "with and without linkback) with the _compiled/_locked flags symbolic; callees outside core.py are logging contracts. Obligations: defns = "
    "parents' tables in order overlaid by the own table; every mutator raises iff locked and before changing anything; registering on a node changes "
    "no parent or sibling (heap snapshots), replaces an identical signature and pushes the old holder down; compile locks every direct non-linked "
    "parent; _update rebuilds every linked descendant that is in use whether or not the changed ancestor is. Bounded over graph shapes -> 'other'. "
    "Known findings: transitive locking (F-lock) and add_mixins after first use (F-mixin)."
)
ASSUMPTIONS = ["the mixin graph is acyclic", "no concurrent mutation"]
TRUSTED = ["logging contracts for MultiTypeMap, generate_dispatch, adapt_function, analyze_arguments, mkdoc, bootstrap_dispatch"]
BOUNDS = {"graphs": "7 derivation graphs with <=3 nodes", "native": "native/c16_graph.py (17 sequences)"}


def tasks(tier):
    # a class statement with extend_super derives from the base classes' functions: they must not change either
    return _core.cls_body_tasks() + _core.signature_tasks() + _core.defns_tasks() + _core.defns_history_tasks() + _core.guard_tasks() + _core.register_frame_tasks() + _core.unregister_frame_tasks() + _core.copy_variant_tasks() + _core.compile_tasks() + _core.compile_parent_tasks() + _core.lock_tasks() + _core.update_tasks()


def conformance(tier):
    # parents, variants and siblings that share a function name keep re-entering themselves (recurse / own name): C08's suite
    return [dict(name="native:c16", argv=["c16_graph.py"], violation_on_fail=True), dict(name="native:c08", argv=["c08_graphs.py"], violation_on_fail=True)]


def concretise(obname, detail, task_result, native):
    r = native(["c16_graph.py"], timeout=300)
    try:
        info = json.loads(r["out"].strip().splitlines()[-1])
    except Exception:
        return dict(error=(r["out"] + r["err"])[-400:])
    fresh = [f for f in info.get("failing", []) if f["name"] not in ("grandparent_locked_after_grandchild_used", "mixin_added_after_first_use_shows_up")]
    if fresh:
        return dict(violations=fresh[0]["violations"], replay_cmd=["c16_graph.py"], clause=fresh[0]["name"])
    return dict(violations=[], searched=info.get("evaluations"))


MANIFEST = dict(
    category="other",
    text="Heap contracts (frames by snapshot comparison, table fold, guard-before-mutation, locking, propagation to linked descendants) checked by symbolic execution of the real core.py methods over an enumerated family of derivation graphs with symbolic flags; two open findings.",
    design_ref="6/C16",
    note="Bounded over graph shapes (<=3 nodes). Callees outside core.py are contracts. Native sequence suite as cross-check.",
    technique="contract-based verification (pyvc symbolic execution of the real methods on an explicit heap, frames by snapshot), bounded over derivation graphs",
)
