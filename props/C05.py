"""C05 - after register/unregister, behaviour equals a freshly built function (DESIGN 6/C05)."""
import json

from . import _tm

ID = "C05"
LEVEL = "other"
EXPLANATION = (
    "Public table: TypeMap.register (U) flushes the per-position cache and adds exactly the new entry; MultiTypeMap.register (U: a signature with ANY "
    "number of positional / keyword entries, contracts/register_u_c.py; plus B shapes) flushes the dict part AND the remembered errors / candidate sets (this obligation failed on the "
    "pinned tree - finding F-stale, repaired by a fix: commit), files every entry once under its position/keyword and type; with MultiTypeMap."
    "__missing__ preserving CacheInv (C04) a flushed table behaves as a fresh one over the same registrations. Ovld level (_register/_set/"
    "unregister/_update/compile building a brand-new table) is covered by the heap contracts of C16/C18 and by the native sequence suite here; "
    "the tiebreak invariant after replace+unregister is an open finding (F-tiebreak)."
)
ASSUMPTIONS = ["handlers are registered once per table (MTInv: handler not registered yet)"]
TRUSTED = ["is_dependent is pure"]
BOUNDS = {"MultiTypeMap.register": "unbounded (mode U); the B-mode shapes with <=3 entries stay as counter-model producers", "rebuild sites": "frames.rebuild: every call site of Ovld.compile in the real AST", "native sequences": "7 register/unregister scripts x 5 probes"}


def tasks(tier):
    from . import _core

    # Ovld level: a change on a function in use rebuilds it (and its linked descendants) into a brand-new table
    # filled from the effective method table; _set pushes a replaced signature down
    ovld_level = _core.update_tasks()[:-1] + _core.compile_tasks() + _core.attr_copy_tasks() + _core.register_frame_tasks()[:2] + _core.unregister_frame_tasks()[:2]
    from contracts import callsites_c

    return [dict(name="frames.rebuild", build=callsites_c.task(), mode="F")] + ovld_level + _tm.state_tasks() + _tm.typemap_tasks()[:1] + _tm.register_unbounded_tasks() + _tm.register_tasks() + _tm.mtm_missing_tasks(("plain",)) + [
        _tm.T("frames.register", __import__("pyvc.frames", fromlist=["frame_task"]).frame_task("frames.register", [
            ("TypeMap.register.writes_only_its_tables_and_cache", "typemap:TypeMap.register", "writes_within", ["types", "entries", "dict"]),
            ("MultiTypeMap.register.writes_tables_and_flushes_cache_fields", "typemap:MultiTypeMap.register", "writes_within", ["all", "errors", "dependent", "empty", "maps", "priorities", "tiebreaks", "type_tuples", "dict"]),
        ]), "F")
    ]


def conformance(tier):
    return [dict(name="native:c05", argv=["seq_suite.py", "c05"], violation_on_fail=True), dict(name="native:c08", argv=["c08_graphs.py"], violation_on_fail=True)]


def concretise(obname, detail, task_result, native):
    r = native(["witnesses/f_stale.py"], timeout=120)
    if r["rc"] == 1:
        return dict(violations=[dict(output=r["out"][-500:])], replay_cmd=["witnesses/f_stale.py"])
    r = native(["seq_suite.py", "c05"], timeout=300)
    try:
        info = json.loads(r["out"].strip().splitlines()[-1])
    except Exception:
        return dict(error=(r["out"] + r["err"])[-400:])
    fresh = [f for f in info.get("failing", []) if not f["name"].endswith("script6")]
    if fresh:
        return dict(violations=fresh[0]["violations"], replay_cmd=["seq_suite.py", "c05"])
    return dict(violations=[], searched=info.get("evaluations"))


MANIFEST = dict(
    category="other",
    text="Registration contracts on the real ASTs: per-position table (unbounded), multi-position table (bounded over signature length) re-establish the cache invariant - including the flush of remembered errors/candidate sets that was missing (fixed); Ovld-level sequences by a bounded native suite; tiebreak renumbering is an open finding.",
    design_ref="6/C05",
    note="Bounded: signatures <=3 entries; Ovld-level register/unregister sequences only by the native suite (7 scripts). Trusted: z3, CPython dict.",
    technique="contract-based deductive verification (pyvc + z3) of the mutators re-establishing the cache invariant; bounded runtime contract checking for Ovld-level histories",
)
