"""C09 - source rewriting changes nothing except the recurse/call_next call sites (DESIGN 6/C09)."""
import json

from contracts import recode_c

ID = "C09"
LEVEL = "exploration"
EXPLANATION = (
    "The universal claim over programs needs a formal semantics of Python and is out of reach of contracts + a deductive verifier here. Bounded "
    "stand-in (R mode, never counted as proved): a structural and behavioural contract on recode / NameConverter checked at run time over a grammar "
    "of method bodies (nested calls, comprehension element / condition / iterable, lambda, nested def, conditional and boolean operators, f-strings, "
    "keyword / starred / double-starred arguments, walrus incl. rebinding of an argument name, try/finally, exceptions in arguments, generators, "
    "closures over factory variables, defaults incl. lambdas and generator expressions, keyword-only defaults), each with recurse and call_next: "
    "(i) un-rewriting the output of the real NameConverter gives back the input AST, (ii) the registered method and the original source with "
    "recurse / call_next bound to ordinary callables give the same result / exception and the same trace of argument evaluations, (iii) compiled at "
    "the original file and line numbers, (iv) defaults, kwdefaults, annotations carried over. Deductive part: the metadata carry-over in recode's "
    "tail (real AST)."
)
ASSUMPTIONS = ["CPython evaluates subscript value, slice elements, then call arguments left to right"]
TRUSTED = []
BOUNDS = {"bodies": "31 body shapes x {recurse, call_next}"}


def tasks(tier):
    return [dict(name="recode.tail", build=recode_c.t_recode_tail, mode="U")]


def conformance(tier):
    # the rewrite must stay right over a history of registrations (what was rewritten for an earlier method set is not reused
    # for a later one): scenarios 5 / 7 of the derivation-graph suite
    return [dict(name="native:c09", argv=["c09_rewrite.py", tier], violation_on_fail=True), dict(name="native:c08", argv=["c08_graphs.py"], violation_on_fail=True)]


def concretise(obname, detail, task_result, native):
    r = native(["c09_rewrite.py"], timeout=300)
    try:
        info = json.loads(r["out"].strip().splitlines()[-1])
    except Exception:
        return dict(error=(r["out"] + r["err"])[-400:])
    fresh = [f for f in info.get("failing", []) if not f["name"].startswith("known_")]
    if fresh:
        return dict(violations=fresh[0]["violations"], replay_cmd=["c09_rewrite.py"], clause=fresh[0]["name"])
    return dict(violations=[], searched=info.get("evaluations"))


MANIFEST = dict(
    category="exploration",
    text="Bounded runtime checking of a structural + behavioural contract on the AST rewrite over a grammar of method bodies (62 body/site combinations); labelled bounded, not proof - a deductive treatment would need a formal semantics of Python.",
    design_ref="6/C09",
    note="R mode only, bounded by the body grammar. Known findings: call in a comprehension iterable (SyntaxError), call_next(*args), **kwargs at a rewritten site.",
    technique="runtime contract checking of the rewrite (bounded stand-in for contract-based verification; the deductive part is limited to recode's tail)",
)
