"""C03 - the dispatcher passes arguments, defaults, results and errors through intact (DESIGN 6/C03)."""
import json

from . import _core, _gen, _tm

ID = "C03"
LEVEL = "other"
EXPLANATION = (
    "Per generated instance (mode I): the real generator is run on an enumerated family of method-set shapes (functions and methods with self, "
    "positional-only / positional / keyword-only, required / optional, colliding names, type[...] positions) and every emitted entry point is "
    "executed on opaque argument objects for every call shape that some method accepts; the contract Spec_D is computed from the method set: exactly "
    "one table lookup keyed by the lookup types of exactly the supplied arguments, exactly one call with exactly the supplied positionals (in order) "
    "and keywords, no placeholder, result returned unchanged, no exception handling in the emitted code; named positionals supplied by keyword are either refused at binding time or looked up and passed at their parameter. The emitted code may only test `is MISSING` "
    "and apply type/subtler_type to a parameter, so one run per presence pattern covers all argument values: universal over inputs, bounded over "
    "shapes (hence 'other', not 'proof'). Plus MultiTypeMap.__missing__ on the empty tuple (U) and the arity/keyword filter inside the bounded "
    "end-to-end resolution run. Known findings: F-empty, F-reserved-names (open); F-kwdrop, F-kwgap (fixed, witnesses replayed)."
)
ASSUMPTIONS = ["call shapes: positional parameters passed positionally or (named ones) by keyword, keyword-only ones by name; **kwargs-style calls with names no method declares are not enumerated"]
TRUSTED = ["compile/exec of emitted text", "CPython argument binding as modelled by the interpreter's binder"]
BOUNDS = {"shapes": "native/gen_dispatch.py: a hand-picked family (1-3 methods, <=3 positional, <=2 keyword-only, colliding names, type[...] positions) plus, systematically, EVERY single-method shape with <=3 positionals (each positional-only or named, any number of trailing defaults) x (no / required / optional keyword-only parameter) and every pair of such shapes with <=1 positional (thorough: <=2; 5595 entry points), each as function and as method with self"}


def tasks(tier):
    from contracts import recode_c

    return [dict(name="recode.tail", build=recode_c.t_recode_tail, mode="U")] + _core.attr_copy_tasks() + _core.signature_tasks() + _core.descriptor_tasks()[1:] + _gen.entry_tasks(tier) + _gen.dep_tasks(tier) + _tm.mtm_missing_tasks(("empty",)) + _tm.register_tasks()[:2] + _tm.e2e_tasks(["complete"], "quick")


def conformance(tier):
    return [dict(name="native:c03", argv=["c03_calls.py"], violation_on_fail=True), dict(name="native:c09", argv=["c09_rewrite.py", tier], violation_on_fail=True)]


def concretise(obname, detail, task_result, native):
    r = native(["c03_calls.py"], timeout=300)
    try:
        info = json.loads(r["out"].strip().splitlines()[-1])
    except Exception:
        return dict(error=(r["out"] + r["err"])[-400:])
    fresh = [f for f in info.get("failing", []) if not f["name"].startswith(("kwdrop", "empty", "reserved"))]
    if fresh:
        return dict(violations=fresh[0]["violations"], replay_cmd=["c03_calls.py"])
    return dict(violations=[], searched=info.get("evaluations"))


MANIFEST = dict(
    category="other",
    text="Every entry point emitted by the real generator for an enumerated family of method-set shapes is verified against a contract computed from the method set, for all argument values (opaque execution); universal over inputs, bounded over shapes; two open findings (all-optional zero-argument call, reserved parameter names), two repaired ones (keywords dropped on the early-exit branches).",
    design_ref="6/C03",
    note="Bounded over shapes (about 700 entry points in the quick tier, 5600 in the thorough tier). Trusted: exec of emitted text behaves as the text, argument binding model. Results/exceptions of the method itself pass through because the emitted code has no try and returns the call's value.",
    technique="contract-based verification of generated code per instance (pyvc opaque symbolic execution of the emitted AST against Spec_D)",
)
