"""C07 - call_next walks down the resolution order one method at a time (DESIGN 6/C07)."""
from . import _tm

ID = "C07"
LEVEL = "other"
EXPLANATION = (
    "U: MultiTypeMap.__missing__ on a code-prefixed key - first resolves the plain tuple, returns a fresh lookup when the caller is not a candidate, "
    "else the continuation entry / the remembered error / 'No method' (all as functions of the tables). B: resolve writes, for every usable rank k and "
    "every code of that rank, the callable of rank k+1 or the ambiguity error of a tied rank k+1, and nothing for the last rank (<=3 ranks x <=2 "
    "methods, real AST); _pull's ranks in the end-to-end run. Known findings: call_next() from a parameterless method raises KeyError (F-nullary-"
    "callnext); a dependent rank above a tied rank falls through to 'No method' (F-depnext); ranks inherit the level unfaithfulness F-lvl. The "
    "rewritten call site / f.next key construction is C08/C09 (R mode)."
)
ASSUMPTIONS = [
    'MultiTypeMap.resolve (mode U): every registered method is a function with its own code object (adapt_function / rename_code give each adapted method a fresh one)',
    'MultiTypeMap.resolve (mode U): mro returns non-empty groups and puts each method in exactly one group (guarantee side discharged per call of _pull: mro._pull/the_group_starts_with_that_candidate, mro._pull/no_member_of_the_group_can_be_yielded_by_the_recursive_call; composing them over the recursion is by induction on the list length, not mechanised)',
    
    'MultiTypeMap.mro (mode U): each handler occurs at most once in a per-entry table (guarantee side discharged: register.any_number_of_entries/one_registration_files_the_handler_under_at_most_one_class_per_table, given pairwise distinct keyword names - Python syntax - and MTInv: the handler is not registered yet)',
    'MultiTypeMap.mro (mode U): signatures have vararg=False (Signature.extract rejects *args; register creates the -1 table only for vararg signatures)',
    'MultiTypeMap.mro (mode U): the key is non-empty (__missing__ answers () before calling resolve)',
    "code objects identify methods (one code object per adapted method: recode tail contract, C08)"]
TRUSTED = ["dict protocol", "contract of resolve at its call site"]
BOUNDS = {"resolve": "<=3 ranks, <=2 methods per rank"}


def tasks(tier):
    from contracts import recode_c

    from . import _core

    return _core.next_resolve_tasks() + [dict(name="recode.tail", build=recode_c.t_recode_tail, mode="U")] + _tm.mro_unbounded_tasks()[:2] + _tm.resolve_unbounded_tasks() + _tm.mtm_missing_tasks(("plain", "coded", "coded_nullary")) + _tm.resolve_tasks(tier) + [t for t in _tm.e2e_tasks(["complete"], "quick") if t["name"].endswith((",p]", "N=2,p/p]", "N=2,p/k]"))]


def conformance(tier):
    return [dict(name="native:c07", argv=["c07_chains.py"], violation_on_fail=True), dict(name="native:c08", argv=["c08_graphs.py"], violation_on_fail=True), dict(name="native:c09", argv=["c09_rewrite.py", tier], violation_on_fail=True)]


def concretise(obname, detail, task_result, native):
    import json

    r = native(["c07_chains.py"], timeout=300)
    try:
        info = json.loads(r["out"].strip().splitlines()[-1])
    except Exception:
        return dict(error=(r["out"] + r["err"])[-400:])
    fresh = [f for f in info.get("failing", []) if f["name"] not in ("nullary", "dependent_above_tie")]
    if fresh:
        return dict(violations=fresh[0]["violations"], replay_cmd=["c07_chains.py"])
    return dict(violations=[], searched=info.get("evaluations"))


MANIFEST = dict(
    category="other",
    text="Continuation lookup proved (unbounded) against spec functions of the tables; continuation entries written by resolve checked on the real AST in bounded-symbolic mode; three open findings with native witnesses.",
    design_ref="6/C07",
    note="Bounded: <=3 ranks x <=2 methods. The call-site rewrite and Ovld.next are covered only by the native chain suite (R mode). Trusted: dict protocol, z3.",
    technique="contract-based deductive verification (pyvc + z3) of the continuation table; bounded runtime contract checking of call_next chains",
)
