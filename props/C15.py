"""C15 - equivalent spellings of an annotation dispatch identically (DESIGN 6/C15)."""
import json

from contracts import mro_c, norm_c

ID = "C15"
LEVEL = "other"
EXPLANATION = (
    "Two parts. (1) Per spelling form, TypeNormalizer.__call__ (real AST) yields the canonical term: bare type -> type[object]; Any / missing -> object; "
    "A | B, (A, B) -> the ovld Union of the members in order; Annotated[X, ...] and a string naming X -> the canonical form of X (for X any of the other "
    "forms; the Annotated rows failed for X in {type, Any} on the pinned tree: finding F-annotated, repaired by a fix: commit); Union/Intersection "
    "constructors store exactly their arguments. (2) Agreement under the observers the dispatch code uses (==/hash as table key, subclasscheck, "
    "typeorder): == through the real __eq__ bodies is sound (equal => same kind and components), symmetric, reflexive and complete for Union / "
    "Intersection / tuple[...] / Literal / dependent types; typeorder and subclasscheck of a Union / Intersection against a hook-free type do not "
    "depend on the order or multiplicity of the members. typing generics (typing.Union vs |, typing.List vs list, Literal handlers) go through typing "
    "internals and abc.py handlers: R mode (native/c15_spellings.py). Known findings: Union.__eq__/__hash__ are order-sensitive (a reordered union is "
    "a second signature), Literal values order through the bound (F-bound)."
)
ASSUMPTIONS = ["eval of a string annotation in the function's globals yields the object the string names"]
TRUSTED = ["typing internals (__origin__/__args__ of typing.Union, Optional, List, Annotated)"]
BOUNDS = {"native": "15 spelling groups x 3 companion method sets x 15 values"}


def tasks(tier):
    T = []

    def add(name, build):
        T.append(dict(name=name, build=build, mode="U"))

    for f in norm_c.ALL_FORMS:
        if f == "Annotated[missing]":
            continue
        add(f"TypeNormalizer[{f}]", norm_c.t_normalize(f))
    add("Union.__init__", norm_c.t_combinator_init("union"))
    add("Intersection.__init__", norm_c.t_combinator_init("inter"))
    for a in mro_c.METAMC + mro_c.DEP:
        for b in mro_c.C12_KINDS:
            add(f"eq/sound[{a},{b}]", mro_c.t_eq_sound(a, b))
    for k in ("Union", "Inter"):
        add(f"members_order_irrelevant[{k}]", mro_c.t_perm_invariant(k))
    # a Literal matches the values equal to ANY of its listed values (so their order is irrelevant), wherever it is checked
    from . import _gen

    T += _gen.valuetype_tasks()[:2]
    return T


def conformance(tier):
    return [dict(name="routing-model", argv=["conformance.py"]), dict(name="native:c15", argv=["c15_spellings.py"], violation_on_fail=True)]


def concretise(obname, detail, task_result, native):
    r = native(["c15_spellings.py"], timeout=300)
    try:
        info = json.loads(r["out"].strip().splitlines()[-1])
    except Exception:
        return dict(error=(r["out"] + r["err"])[-400:])
    fresh = [f for f in info.get("failing", []) if not f["name"].startswith(("known_", "literal_reordered_mixed"))]
    if fresh:
        return dict(violations=fresh[0]["violations"], replay_cmd=["c15_spellings.py"], clause=fresh[0]["name"])
    return dict(violations=[], searched=info.get("evaluations"))


MANIFEST = dict(
    category="other",
    text="Canonical form per spelling proved on the real normaliser for the class / type / Any / union / Annotated / string forms, == soundness and member-order independence of the union / intersection observers proved on the real hook bodies; spellings that go through typing internals and abc.py handlers only by a bounded native suite.",
    design_ref="6/C15",
    note="R mode for typing.Union / Optional / typing.List / Literal handlers. Known findings: order-sensitive Union equality, Literal bound from the first value. Trusted: eval of string annotations, typing internals, routing model.",
    technique="contract-based deductive verification (pyvc + z3) of the normaliser and of the equality / order observers; bounded runtime checking for typing-internal spellings",
)
