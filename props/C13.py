"""C13 - type-level matching agrees with the documented meaning of each type (DESIGN 6/C13)."""
import json
import re

from contracts import mro_c as m

ID = "C13"
LEVEL = "proof"
EXPLANATION = (
    "Unbounded deductive proof (mode U): the real AST of subclasscheck and of every routed __is_supertype__ / __subclasscheck__ body is "
    "symbolically executed for a plain class c against a type of each non-value-dependent kind, and the result is proved equal to the documented "
    "meaning (members through the spec function SC = induction hypothesis on strictly smaller component types, with a decreases obligation at "
    "every inner call). Reflexivity per kind, the class fragment (= issubclass), argument-wise covariance of generics and transitivity on the "
    "class/generic fragment (lemma over those contracts) are further obligations. The link 'applicable <=> subclasscheck' is carried by the "
    "sort_types / TypeMap.__missing__ contracts (C01)."
)
ASSUMPTIONS = [
    "class_check predicates and hasattr(cls, name) are pure, total functions of the class",
    "Deferred[...] is a class_check whose predicate is module test and issubclass: covered as ClassCheck with an uninterpreted predicate",
    "zero-argument parametrised generics (tuple[()]) are excluded from the transitivity lemma (see F-emptyalias in C12)",
]
TRUSTED = ["routing table of contracts/universe.py (checked natively by native/conformance.py on every run)"]


def tasks(tier):
    T = []

    def add(name, build):
        T.append(dict(name=name, build=build, mode="U"))

    for k in m.C13_KINDS:
        add(f"subclasscheck/meaning[{k}]", m.t_sc_meaning(k))
    for k in m.C12_KINDS:
        add(f"subclasscheck/reflexive[{k}]", m.t_sc_reflexive(k))
    add("subclasscheck/alias_covariant", m.t_sc_alias_covariant)
    add("subclasscheck/class_vs_alias", m.t_sc_class_vs_alias)
    add("subclasscheck/transitive_fragment", m.t_sc_transitive_fragment)
    for a in m.METAMC + m.DEP:  # == on type objects agrees with identity of type terms (first line of subclasscheck)
        for b in m.C12_KINDS:
            add(f"eq/sound[{a},{b}]", m.t_eq_sound(a, b))
    return T


def conformance(tier):
    steps = [
        dict(name="routing-model", argv=["conformance.py"]),
        # R mode (bounded, never counted as proved): the documented meaning, computed from the arguments given to the
        # constructors, against subclasscheck / isinstance of the real code over small type terms
        dict(name="native:c13", argv=["suite.py", "c13_search"], violation_on_fail=True),
        # a method declared on the plain class `type` (bare, as a string, Annotated) applies to class-valued arguments
        dict(name="native:c14", argv=["c14_types.py"], violation_on_fail=True),
        # "a method declared on T is applicable" presupposes that the function asked knows the method: methods registered on a
        # parent after a linked copy / variant was first used (bounded cross-check; the contracts are C05's / C16's)
        dict(name="native:c13linked", argv=["c13_linked.py"], violation_on_fail=True),
    ]
    return steps


def concretise(obname, detail, task_result, native):
    mm = re.search(r"meaning\[(\w+)\]", obname)
    if mm:
        argv = ["c13_search.py", "meaning", mm.group(1)]
    elif "reflexive[" in obname:
        argv = ["c13_search.py", "reflexive", re.search(r"reflexive\[(\w+)\]", obname).group(1)]
    elif "alias_covariant" in obname:
        argv = ["c13_search.py", "alias_covariant"]
    elif "class_vs_alias" in obname:
        argv = ["c13_search.py", "class_vs_alias"]
    elif obname.startswith("eq/"):
        argv = ["c13_search.py", "eq"]
    elif "transitive" in obname:
        argv = ["c13_search.py", "transitive"]
    else:
        return None
    r = native(argv, timeout=300)
    try:
        info = json.loads(r["out"].strip().splitlines()[-1])
    except Exception:
        return dict(error=(r["out"] + r["err"])[-500:])
    info["replay_cmd"] = argv
    info["bound"] = "type terms of depth <= 2 over the class DAG of native/typeterms.py"
    return info


MANIFEST = dict(
    category="proof",
    text="Every obligation is an unbounded deductive proof (z3) over the real AST of subclasscheck and the routed hook bodies: result = documented meaning per kind, reflexivity, class fragment = issubclass, generic covariance, transitivity on the class/generic fragment.",
    design_ref="6/C13",
    note="Trusted: routing table of the Python object protocol per kind (checked natively every run), purity of user predicates, z3. The value-level isinstance link and Deferred's module test are covered only through the ClassCheck abstraction.",
    technique="contract-based deductive verification: pyvc VC generation from the real AST + z3, induction on the rank of type terms",
)
