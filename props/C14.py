"""C14 - types passed as arguments dispatch on type[...] by subtype (DESIGN 6/C14)."""
import json

from contracts import mro_c

from . import _gen, _tm

ID = "C14"
LEVEL = "other"
EXPLANATION = (
    "U: subtler_type (real AST, loop-free) maps a generic alias, a typing union or a class t to type[t], typing.Any to type[object], every other value "
    "to its class; the generic rows of the subtype test and of the type order (alias_covariant, class_vs_alias, alias_argwise, alias_origin, proved "
    "in C12/C13) instantiated at origin `type` give: type[X] <= type[T] iff X <= T, the order of type[A] and type[B] follows A and B, type[A] is more "
    "specific than object (lemma type_alias_rows) - so by the level lemma the more specific type[...] annotation wins. I: every emitted entry point "
    "uses subtler_type exactly at the positions / keywords where some method is annotated type[...] and type elsewhere (shape family incl. type[...] "
    "on positional and keyword-only parameters). Normalisation of bare `type` / `Any` and rewritten call sites: R mode (native suite)."
)
ASSUMPTIONS = ["typing.Type[...] spellings are outside the property's domain", "ordinary values carry no __origin__ attribute"]
TRUSTED = ["routing model of contracts/universe.py", "compile/exec of emitted text"]
BOUNDS = {"I": "shape family of native/gen_dispatch.py"}


def tasks(tier):
    t = [_tm.T(f"subtler_type[{k}]", b) for k, b in mro_c.t_subtler_type().items()]
    t += [_tm.T("lemma.type_alias_rows", mro_c.t_type_alias_rows), _tm.T("subclasscheck/alias_covariant", mro_c.t_sc_alias_covariant), _tm.T("subclasscheck/class_vs_alias", mro_c.t_sc_class_vs_alias)]
    t += [_tm.T("typeorder/alias_origin", mro_c.t_alias_origin), _tm.T("typeorder/alias_argwise", mro_c.t_alias_argwise), _tm.T("typeorder/class_fragment", mro_c.t_class_fragment), _tm.T("Order.merge", mro_c.t_merge)]
    t += [_tm.T("lemma.levels_monotone", __import__("contracts.sort_c", fromlist=["t_levels_monotone"]).t_levels_monotone)]
    t += _gen.entry_tasks(tier)
    from . import _core

    t += _core.next_resolve_tasks()
    from contracts import norm_c

    t += [_tm.T(f"TypeNormalizer[{f}]", norm_c.t_normalize(f)) for f in ("bare_type", "Any", "missing", "type_alias", "string[bare_type]", "string[Any]", "Annotated[bare_type]", "Annotated[Any]")]
    return t


def conformance(tier):
    # class-valued parameters that arrive after the function has been used (scripts 7 / 8 of the register/unregister suite)
    return [dict(name="native:c14", argv=["c14_types.py"], violation_on_fail=True), dict(name="native:c14order", argv=["c14_order.py"], violation_on_fail=True), dict(name="native:c05", argv=["seq_suite.py", "c05"], violation_on_fail=True)]


def concretise(obname, detail, task_result, native):
    r = native(["c14_types.py"], timeout=300)
    try:
        info = json.loads(r["out"].strip().splitlines()[-1])
    except Exception:
        return dict(error=(r["out"] + r["err"])[-400:])
    if info.get("failing"):
        return dict(violations=info["failing"][0]["violations"], replay_cmd=["c14_types.py"])
    return dict(violations=[], searched=info.get("evaluations"))


MANIFEST = dict(
    category="other",
    text="subtler_type and the generic rows of the subtype test / type order proved unboundedly on the real ASTs, the per-position choice between type() and subtler_type() verified on every emitted entry point of the shape family; annotation normalisation and rewritten call sites only by the native suite.",
    design_ref="6/C14",
    note="Bounded over generated shapes; R mode for TypeNormalizer and NameConverter._make_lookup_call. Trusted: routing model (checked natively), z3.",
    technique="contract-based deductive verification (pyvc + z3) plus per-instance verification of generated entry points",
)
