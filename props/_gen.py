"""Shared: per-instance (mode I) tasks over code emitted by the real generators."""
from checklib.main import native
from contracts import dep_c, entry_c


def namedb_tasks():
    """utils.NameDatabase, the symbol table of every generated function (mode U, contracts/namedb_c.py)"""
    from contracts import namedb_c as n

    return [dict(name="NameDatabase.gensym", build=n.t_gensym, mode="U"), dict(name="NameDatabase.__getitem__", build=n.t_getitem, mode="U"), dict(name="lemma.symbols_of_distinct_objects", build=n.t_two_objects, mode="U")]


def valuetype_tasks():
    """the built-in value types against their documented meaning (mode U, contracts/valuetypes_c.py)"""
    from contracts import valuetypes_c as v

    return [dict(name=f"valuetype/{n}", build=b, mode="U") for n, b in v.TASKS]


def entry_tasks(tier):
    return namedb_tasks() + [dict(name="generate_dispatch.instances", build=entry_c.entry_task(tier, native), mode="F")]


def dep_tasks(tier):
    return namedb_tasks() + [dict(name="generate_dependent_dispatch.instances", build=dep_c.dep_task(tier, native), mode="F")]
