"""Shared: per-instance (mode I) tasks over code emitted by the real generators."""
from checklib.main import native
from contracts import dep_c, entry_c


def entry_tasks(tier):
    return [dict(name="generate_dispatch.instances", build=entry_c.entry_task(tier, native), mode="F")]


def dep_tasks(tier):
    return [dict(name="generate_dependent_dispatch.instances", build=dep_c.dep_task(tier, native), mode="F")]
