"""Shared task constructors for the typemap.py / mro.sort_types family (C01, C02, C04, C05, C06, C07, C20)."""
import json
import re

from contracts import sort_c, typemap_c
from pyvc import frames

SHAPES_Q = [("p",), ("p", "p"), ("p", "k"), ("k",), ("k", "j")]


def T(name, build, mode="U"):
    return dict(name=name, build=build, mode=mode)


def sort_types_tasks():
    return [T(f"sort_types/{c}", sort_c.t_sort_types(c)) for c in ("partition", "layered", "order_free")]


def typemap_tasks():
    return [T("TypeMap.register", sort_c.t_typemap_register), T("TypeMap.__missing__", sort_c.t_typemap_missing), T("lemma.levels_monotone", sort_c.t_levels_monotone)]


def mtm_missing_tasks(kinds=("plain", "coded", "empty")):
    return [T(f"MultiTypeMap.__missing__[{k}]", typemap_c.t_mtm_missing(k)) for k in kinds]


def resolve_tasks(tier):
    shapes = typemap_c.SHAPES if tier == "thorough" else [s for s in typemap_c.SHAPES if len(s) <= 2] + [[1, 1, 1], [1, 2, 1], [2, 1, 2]]
    return [T(f"resolve/writes{sh}", typemap_c.t_resolve_writes(sh), "B") for sh in shapes]


def e2e_tasks(clauses, tier, perm=False):
    out = []
    for c in clauses:
        shapes = [("p",)] if c == "sound_single_position" else SHAPES_Q
        for sh in shapes:
            for N in (1, 2, 3):
                if N == 3 and len(sh) > 1 and tier != "thorough":
                    continue
                if perm and N != 2:
                    continue  # every iteration order of every set, for 2 methods (3 methods: 11 000 paths per shape, 20 min - the order-free posts of sort_types / mro in mode U cover any number)
                out.append(T(f"e2e[{c}{',perm' if perm else ''},N={N},{'/'.join(sh)}]", typemap_c.t_e2e(N, sh, c, perm=perm), "B"))
    return out


def register_tasks():
    return [T(f"MultiTypeMap.register[{'/'.join(sh) or 'nullary'}]", typemap_c.t_mtm_register(sh), "B") for sh in [(), ("p",), ("p", "p"), ("p", "k"), ("p", "p", "k")]]


def register_unbounded_tasks():
    """MultiTypeMap.register for a signature with any number of entries (contracts/register_u_c.py)."""
    from contracts import register_u_c

    return [T("MultiTypeMap.register/any_number_of_entries", register_u_c.t_register_unbounded)]


def mro_unbounded_tasks():
    """MultiTypeMap.mro for any number of methods and entries (contracts/mropos_c.py)."""
    from contracts import mropos_c

    return [T("MultiTypeMap.mro/positions", mropos_c.t_positions), T("MultiTypeMap.mro._pull/first_group", mropos_c.t_pull_first_group), T("lemma.resolution_any_number_of_methods", mropos_c.t_resolution_lemma)]


def resolve_unbounded_tasks():
    """MultiTypeMap.resolve for any number of ranks and methods per rank (contracts/resolve_u_c.py)."""
    from contracts import resolve_u_c

    return [T("MultiTypeMap.resolve/any_number_of_ranks", resolve_u_c.t_resolve_unbounded)]


def candidate_tasks():
    return [T("Candidate.dominates", typemap_c.t_candidate), T("lemma.sum_of_levels", typemap_c.t_sum_lemma)]


def resolve_interrupt_tasks():
    return [T(f"resolve.interrupt{sh}", typemap_c.t_resolve_interrupt(sh), "B") for sh in ([1], [1, 1], [1, 1, 1], [1, 2])]


def wrap_tasks():
    return [T("MultiTypeMap.wrap_dependent", typemap_c.t_wrap_dependent)]


def frame_tasks():
    checks = [
        ("mro.reads_no_cache_field", "typemap:MultiTypeMap.mro", "reads_none_of", ["dict", "errors", "all"]),
        ("resolve.reads_no_cache_field", "typemap:MultiTypeMap.resolve", "reads_none_of", ["dict", "errors", "all"]),
        ("resolve.writes_only_cache_fields", "typemap:MultiTypeMap.resolve", "writes_within", ["dict", "errors"]),
        ("mro.writes_only_candidate_sets", "typemap:MultiTypeMap.mro", "writes_within", ["all"]),
        ("TypeMap.__missing__.reads_only_registration_tables", "typemap:TypeMap.__missing__", "reads_within", ["types", "entries"]),
        ("TypeMap.__missing__.writes_only_its_cache", "typemap:TypeMap.__missing__", "writes_within", ["dict"]),
        ("MultiTypeMap.__missing__.computes_only_through_resolve", "typemap:MultiTypeMap.__missing__", "calls_within", ["isinstance", "self.resolve", "self.key_error"]),
        ("MultiTypeMap.__missing__.writes_nothing_itself", "typemap:MultiTypeMap.__missing__", "writes_within", []),
    ]
    return [T("frames.typemap", frames.frame_task("frames.typemap", checks), "F")]


def state_tasks(modules=("typemap", "mro", "core", "recode", "types", "dependent", "utils", "abc")):
    from contracts import state_c

    return [T("frames.state", state_c.state_task(list(modules)), "F")]


def native_c02(perms=False):
    return dict(name="native:c02", argv=["c02_oracle.py", "suite"] + (["--perms"] if perms else []), violation_on_fail=True)


def concretise_c02(obname, detail, task_result, native):
    """Bounded native search with the independent oracle of native/c02_oracle.py (class DAG families x method sets)."""
    r = native(["c02_oracle.py", "suite", "--perms"], timeout=300)
    try:
        info = json.loads(r["out"].strip().splitlines()[-1])
    except Exception:
        return dict(error=(r["out"] + r["err"])[-400:])
    fresh = [f for f in info.get("failing", []) if "level_unfaithful" not in f["name"]]
    if not fresh:
        return dict(violations=[], searched=info.get("evaluations"), bound="scenario family of native/c02_oracle.py")
    return dict(violations=fresh[0]["violations"], replay_cmd=fresh[0].get("replay_cmd"), clause=fresh[0]["name"], searched=info.get("evaluations"), bound="scenario family of native/c02_oracle.py")
