"""C02 - static resolution follows the documented priority-then-specificity rule (DESIGN 6/C02)."""
from . import _tm

ID = "C02"
LEVEL = "other"
EXPLANATION = (
    "Mixed. Unbounded (U): sort_types (pair loop, topological layering, order-free dependency relation) and TypeMap.register/__missing__ by loop "
    "invariants over the real ASTs; the level lemmas (more specific => higher level; alone in the top level => below every applicable type); "
    "MultiTypeMap.__missing__ against W/E/A spec functions. Bounded-symbolic (B): the real ASTs of __missing__ -> resolve -> mro -> _pull -> "
    "Candidate.dominates/sort_key executed end to end for <= 3 methods and call shapes p / p,p / p,k with everything else symbolic, compared with "
    "the oracle taken from the property statement (complete, sound on one position, sound where the applicable registered types form chains); "
    "resolve's writes for <= 3 ranks x <= 2 methods. The unrestricted soundness clause fails on the pinned tree (F-lvl) and the tiebreak scope "
    "clause fails (F-tiebreak): open known findings with native witnesses. Native R-mode oracle suite as cross-check and concretiser."
)
ASSUMPTIONS = [
    'MultiTypeMap.resolve (mode U): every registered method is a function with its own code object (adapt_function / rename_code give each adapted method a fresh one)',
    'MultiTypeMap.resolve (mode U): mro returns non-empty groups and puts each method in exactly one group (guarantee side discharged per call of _pull: mro._pull/the_group_starts_with_that_candidate, mro._pull/no_member_of_the_group_can_be_yielded_by_the_recursive_call; composing them over the recursion is by induction on the list length, not mechanised)',
    
    'MultiTypeMap.mro (mode U): each handler occurs at most once in a per-entry table (guarantee side discharged: register.any_number_of_entries/one_registration_files_the_handler_under_at_most_one_class_per_table, given pairwise distinct keyword names - Python syntax - and MTInv: the handler is not registered yet)',
    'MultiTypeMap.mro (mode U): signatures have vararg=False (Signature.extract rejects *args; register creates the -1 table only for vararg signatures)',
    'MultiTypeMap.mro (mode U): the key is non-empty (__missing__ answers () before calling resolve)',
    "priorities are finite reals", "the type order restricted to the registered plain classes is a strict partial order (C12 class fragment) and the subtype test respects it (C13)"]
TRUSTED = ["list.sort stability", "graphlib.TopologicalSorter operational model"]
BOUNDS = {"e2e": "<=3 methods; call shapes (p), (p,p), (p,k); thorough adds 3 methods on 2 entries", "resolve": "<=3 ranks, <=2 methods per rank"}


def tasks(tier):
    t = _tm.mro_unbounded_tasks() + _tm.resolve_unbounded_tasks() + _tm.candidate_tasks() + _tm.sort_types_tasks() + _tm.typemap_tasks() + _tm.mtm_missing_tasks(("plain",)) + _tm.resolve_tasks(tier)
    from . import _core as _c0

    t += _c0.signature_tasks()
    t += _tm.e2e_tasks(["complete", "sound_single_position", "sound_chain", "sound_unrestricted", "tiebreak_scope"], tier)
    # "more specific" on plain classes is the subclass relation, with mutual subclasses (structurally identical protocols /
    # ABCs) tied: the class fragment of typeorder (shared with C12)
    from contracts import mro_c

    t += [_tm.T("typeorder/class_fragment", mro_c.t_class_fragment), _tm.T("typeorder/mirror[Class,Class]/outside", mro_c.t_mirror("Class", "Class", "outside"))]
    return t


def conformance(tier):
    # resolution must follow the rule on every call of a history, not only on the first one
    # ... and "applicable" in the rule is the documented meaning of the declared types (C13's bounded suite: special types such
    # as Dataclass / Deferred / Exactly next to plain classes)
    return [_tm.native_c02(perms=False), dict(name="native:c04", argv=["seq_suite.py", "c04"], violation_on_fail=True), dict(name="native:c13", argv=["suite.py", "c13_search"], violation_on_fail=True)]


concretise = _tm.concretise_c02

MANIFEST = dict(
    category="other",
    text="Deductive proofs (unbounded) of the level computation (sort_types, TypeMap) and of the table lookup, plus a bounded-symbolic end-to-end run of the real resolution code against the oracle from the property statement; the unrestricted soundness clause is an open finding (integer levels are not the subclass order), so not a proof of the whole property.",
    design_ref="6/C02",
    note="Bounded parts: <=3 methods, call shapes p / p,p / p,k (every value symbolic). Trusted: list.sort stability, graphlib model, TypeMap contract used at the mro call site (proved separately), z3. Ovld.resolve agreement only through the native oracle suite.",
    technique="contract-based deductive verification (pyvc + z3): loop invariants for sort_types/TypeMap, bounded-symbolic execution of mro/_pull/resolve against an independent oracle",
)
