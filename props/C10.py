"""C10 - value-dependent methods run exactly when their condition holds (DESIGN 6/C10)."""
import json

from contracts import mro_c

from . import _gen, _tm

ID = "C10"
LEVEL = "other"
EXPLANATION = (
    "U: a dependent type is applicable at the type level exactly when its bound is (subclasscheck through the real DependentType.__is_supertype__), is "
    "more specific than its bound (C12 dependent_below_bound, hence preferred by the level lemma), and __instancecheck__ evaluates the user's "
    "condition only under isinstance(value, bound). B: resolve wraps every rank that contains a dependent handler and its fall-through is the next "
    "rank (real AST, <=3 ranks); wrap_dependent generates from exactly this call's arguments. I: every dispatcher emitted by the real generator for an "
    "enumerated family (if-chain, lookup table and counting strategies; literals, predicates, regexps, products, unions/intersections, two "
    "positions) is executed symbolically for all argument values with value tests as uninterpreted atoms: a handler runs only if its condition holds "
    "and no other condition of the rank holds, fall-through only if none holds, the ambiguity error only if two hold, user checks only under their "
    "bound. Known findings: F-overlap, F-unionbound, F-depnext, F-product, F-kwonly."
)
ASSUMPTIONS = ["user predicates are pure and total on instances of their bound", "== between an argument and distinct literal values holds for at most one of them"]
TRUSTED = ["compile/exec of emitted text"]
BOUNDS = {"families": "native/gen_dependent.py: 1-5 handlers per rank, 1-2 dispatched positions (thorough: 7 handlers, 3 positions)", "resolve": "<=3 ranks x <=2 methods"}


def tasks(tier):
    t = _gen.dep_tasks(tier) + _gen.valuetype_tasks()
    t += [_tm.T(f"subclasscheck/dependent_applicable_iff_bound[{k}]", mro_c.t_sc_dependent(k)) for k in mro_c.DEP]
    t += [_tm.T("DependentType.__instancecheck__", mro_c.t_dep_instancecheck)]
    t += [_tm.T(f"typeorder/dependent_below_bound[{k}]/plain_bound", mro_c.t_dependent_below_bound(k, ["Class", "Alias", "Strict", "HasMethod", "ClassCheck"])) for k in mro_c.DEP]
    # "preferred over methods declared on the bound or its SUBCLASSES" (and on its supertypes)
    t += [_tm.T(f"typeorder/dependent_below_relatives[{k}]", mro_c.t_dependent_below_relatives(k)) for k in mro_c.DEP if k != "Product"]
    # two value-dependent methods that are not ordered (crossing wildcards, unrelated conditions) must stay unordered: the
    # order of value-dependent kinds (shared with C12), and the native mirror / order-free clauses over wildcard shapes
    for a, b in (("Equals", "Equals"), ("Equals", "FuncDep"), ("FuncDep", "FuncDep")):
        t += [_tm.T(f"typeorder/mirror[{a},{b}]/relative", mro_c.t_mirror(a, b, "relative", unfold=1))]
    t += [_tm.T("FuncDependentType.__lt__/wildcards", mro_c.t_funcdep_lt)]
    t += _tm.resolve_tasks(tier) + _tm.resolve_unbounded_tasks() + _tm.wrap_tasks() + _tm.register_unbounded_tasks()
    return t


def conformance(tier):
    return [dict(name="native:c10", argv=["c10_values.py"], violation_on_fail=True)]


def concretise(obname, detail, task_result, native):
    r = native(["c10_values.py"], timeout=300)
    try:
        info = json.loads(r["out"].strip().splitlines()[-1])
    except Exception:
        return dict(error=(r["out"] + r["err"])[-400:])
    fresh = [f for f in info.get("failing", []) if not f["name"].startswith(("overlap", "unionbound", "depnext", "product", "kwonly", "bound_first_value"))]
    if fresh:
        return dict(violations=fresh[0]["violations"], replay_cmd=["c10_values.py"])
    return dict(violations=[], searched=info.get("evaluations"))


MANIFEST = dict(
    category="other",
    text="Type-level contracts of dependent types proved unboundedly; every emitted dependent dispatcher of an enumerated family verified for all argument values against a contract computed from the declared types; resolve's wrapping checked on the real AST in bounded mode; five open findings.",
    design_ref="6/C10",
    note="Bounded over method-set families and ranks. Trusted: exec of emitted text, purity of user predicates, sanity of == on literal values, z3.",
    technique="contract-based deductive verification (pyvc + z3) of the hooks; per-instance symbolic verification of generated dispatchers",
)
