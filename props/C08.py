"""C08 - recurse always re-enters the overloaded function that was actually called (DESIGN 6/C08)."""
import json

from contracts import recode_c

from . import _core

ID = "C08"
LEVEL = "other"
EXPLANATION = (
    "U/B on the real ASTs: compile fills the table from the effective method table of the function being built and adapts EVERY inherited method "
    "for that function (Ovld.compile[*] over the derivation graphs, C16's defns fold); recode's tail binds, in the method's globals, the mangled "
    "entry-point / table names - injective functions of the function id, the same names that were handed to the rewriter - to that function's "
    "dispatch and map and re-binds them on every build; adapt_function searches for exactly (recurse, the function, its entry point). R (bounded "
    "stand-in): that the rewritten body looks those names up at each recurse / self-name site is the structural + behavioural contract on "
    "NameConverter (native/c09_rewrite.py over a grammar of bodies) and the derivation-graph suite native/c08_graphs.py (variants sharing a name, "
    "variants of variants, mixins, in-flight registration). Known finding F-twosyms (only the first name found is rewritten)."
)
ASSUMPTIONS = ["itertools.count is strictly increasing"]
TRUSTED = ["logging contracts for inspect/ast/compile/FunctionType inside recode"]
BOUNDS = {"graphs": "<=3 nodes (deductive), depth<=3 / fan-in<=2 (native)", "bodies": "grammar of native/c09_rewrite.py"}


def tasks(tier):
    from . import _gen

    # recurse(args) must behave like calling the function: the generated entry point and the rewritten call sites key the same
    # argument the same way (per-instance verification of the emitted entry points, shared with C03 / C14)
    return _gen.entry_tasks(tier) + _core.compile_tasks() + _core.defns_tasks()[:4] + [dict(name="recode.tail", build=recode_c.t_recode_tail, mode="U"), dict(name="adapt_function", build=recode_c.t_adapt_function, mode="U")]


def conformance(tier):
    return [dict(name="native:c08", argv=["c08_graphs.py"], violation_on_fail=True), dict(name="native:c09", argv=["c09_rewrite.py", tier], violation_on_fail=True), dict(name="native:c14", argv=["c14_types.py"], violation_on_fail=True), dict(name="native:names", argv=["names_seed.py"], violation_on_fail=True)]


def concretise(obname, detail, task_result, native):
    for argv in (["c08_graphs.py"], ["c09_rewrite.py"]):
        r = native(argv, timeout=300)
        try:
            info = json.loads(r["out"].strip().splitlines()[-1])
        except Exception:
            continue
        fresh = [f for f in info.get("failing", []) if not f["name"].startswith("known_")]
        if fresh:
            return dict(violations=fresh[0]["violations"], replay_cmd=argv, clause=fresh[0]["name"])
    return dict(violations=[])


MANIFEST = dict(
    category="other",
    text="The build re-adapts every inherited method for the function being built and binds per-function mangled names to that function's entry point and table (deductive, real ASTs); that rewritten bodies use those names at every recurse / self-name site is a bounded runtime contract over a body grammar and derivation graphs.",
    design_ref="6/C08",
    note="R mode (bounded) for the AST rewrite itself. Library plumbing inside recode is abstracted by logging contracts.",
    technique="contract-based verification of compile / recode tail (pyvc) plus bounded runtime contract checking of the rewrite",
)
