"""C12 - the specificity order is mirror-symmetric and matches subclassing (DESIGN 6/C12)."""
import re

from contracts import mro_c as m

ID = "C12"
LEVEL = "other"
NOHOOK = ["Class", "Alias", "Strict", "HasMethod", "ClassCheck"]
EXPLANATION = (
    "Unbounded deductive proof (mode U) by structural induction on rank(t1)+rank(t2): the real ASTs of typeorder, Order.opposite/merge "
    "and of every routed hook body (MetaMC, SingleFunctionHandler, Union, Intersection, Exactly, StrictSubclass, HasMethod, DependentType, "
    "FuncDependentType.__lt__, ProductType) are symbolically executed per pair of kinds; inner calls are the spec function TO with a decreases "
    "obligation. Pairs in which both sides carry a two-sided order hook are proved relative to the mirror symmetry of their components; the "
    "pairs that genuinely fail on the pinned tree are open known findings with native witnesses. Level is 'other' (not 'proof') because of "
    "those open findings and because the routing table of the Python object protocol is a checked-but-trusted model."
)
ASSUMPTIONS = [
    "Whatever / All are excluded from the universe (property statement excludes Whatever)",
    "plain classes carry no user-defined __type_order__/__is_supertype__ hooks; ABCs whose __subclasshook__ sniffs attributes are treated as plain classes",
    "typing unions (A | B objects) occur only as normaliser input, never as operands of typeorder",
    "Python == on type objects coincides with equality of type terms (extensionality per kind, mirrors the __eq__ methods; checked natively in C15)",
]
TRUSTED = ["graph of kinds/accessors of contracts/universe.py", "z3 4.x/5.x E-matching + MBQI"]


def _pairs():
    Ks = m.C12_KINDS
    for i, k1 in enumerate(Ks):
        for k2 in Ks[i:]:
            yield k1, k2


def tasks(tier):
    T = []

    def add(name, build, **kw):
        T.append(dict(name=name, build=build, mode="U", **kw))

    add("Order.opposite", m.t_opposite)
    add("Order.merge", m.t_merge)
    add("lemma.merge_mirror", m.t_merge_mirror)
    for k in m.C12_KINDS:
        add(f"typeorder/reflexive[{k}]", m.t_reflexive(k))
    add("typeorder/class_fragment", m.t_class_fragment)
    for k1, k2 in _pairs():
        both = k1 in m.TROUBLE and k2 in m.TROUBLE
        unfold = 1
        if (k1, k2) == ("Exactly", "Exactly"):
            add("typeorder/mirror[Exactly,Exactly]/relative.plain_bases", m.t_mirror(k1, k2, "relative", unfold=2, variant="plain_bases"))
            add("typeorder/mirror[Exactly,Exactly]/relative.same_base", m.t_mirror(k1, k2, "relative", unfold=2, variant="same_base"))
            add("typeorder/mirror[Exactly,Exactly]/relative.hooked_base", m.t_mirror(k1, k2, "relative", unfold=2, variant="hooked_base"))
        elif (k1, k2) == ("Alias", "Alias"):
            add("typeorder/mirror[Alias,Alias]/outside.some_args", m.t_mirror(k1, k2, "outside", variant="some_args"))
            add("typeorder/mirror[Alias,Alias]/outside.both_empty_args", m.t_mirror(k1, k2, "outside", variant="both_empty_args"))
        else:
            add(f"typeorder/mirror[{k1},{k2}]/{'relative' if both else 'outside'}", m.t_mirror(k1, k2, "relative" if both else "outside", unfold=unfold))
    add("FuncDependentType.__lt__/wildcards", m.t_funcdep_lt)
    for a in m.METAMC + m.DEP:  # SAME through the `t1 == t2` shortcut only for types with the same meaning
        for b in m.C12_KINDS:
            add(f"eq/sound[{a},{b}]", m.t_eq_sound(a, b))
    add("typeorder/union_above_members/plain_member", m.t_member_clause("union", NOHOOK, "union_above_members"))
    add("typeorder/union_above_members/hooked_member", m.t_member_clause("union", m.TROUBLE, "union_above_members"))
    add("typeorder/intersection_below_members/plain_member", m.t_member_clause("inter", NOHOOK, "intersection_below_members"))
    add("typeorder/intersection_below_members/hooked_member", m.t_member_clause("inter", m.TROUBLE, "intersection_below_members"))
    add("typeorder/alias_origin", m.t_alias_origin)
    add("typeorder/alias_argwise", m.t_alias_argwise)
    for k in m.DEP:
        add(f"typeorder/dependent_below_bound[{k}]/plain_bound", m.t_dependent_below_bound(k, NOHOOK))
        if k != "Product":  # the bound of tuple[...] is always the plain class tuple
            add(f"typeorder/dependent_below_bound[{k}]/hooked_bound", m.t_dependent_below_bound(k, m.TROUBLE))
    return T


def conformance(tier):
    return [
        dict(name="routing-model", argv=["conformance.py"]),
        # R mode (bounded, never counted as proved): every clause evaluated on the real code over small type terms
        dict(name="native:c12", argv=["suite.py", "c12_search"], violation_on_fail=True),
        dict(name="native:c14order", argv=["c14_order.py"], violation_on_fail=True),
    ]


def concretise(obname, detail, task_result, native):
    """Bounded native search (terms of depth <= 2 over a fixed class DAG) for a concrete input violating the
    clause whose obligation failed.  A stand-in for solving the counter-model: labelled bounded."""
    mm = re.search(r"mirror\[(\w+),(\w+)\]", obname)
    if mm:
        argv = ["c12_search.py", "mirror", mm.group(1), mm.group(2)]
    elif "reflexive[" in obname:
        argv = ["c12_search.py", "reflexive", re.search(r"reflexive\[(\w+)\]", obname).group(1)]
    elif "union_above_members" in obname:
        argv = ["c12_search.py", "union_above_members"]
    elif "intersection_below_members" in obname:
        argv = ["c12_search.py", "intersection_below_members"]
    elif "dependent_below_bound[" in obname:
        argv = ["c12_search.py", "dependent_below_bound", re.search(r"bound\[(\w+)\]", obname).group(1)]
    elif "alias_origin" in obname:
        argv = ["c12_search.py", "alias_origin"]
    elif "alias_argwise" in obname:
        argv = ["c12_search.py", "alias_argwise"]
    elif "class_fragment" in obname:
        argv = ["c12_search.py", "class_fragment"]
    elif "Order." in obname or "merge_mirror" in obname:
        argv = ["order_enum.py"]
    else:
        # decreases / routing obligations: any clause search over the kinds of the task
        kinds = (task_result or {}).get("meta", {}).get("kinds")
        if kinds and len(kinds) == 2:
            argv = ["c12_search.py", "mirror", *kinds]
        else:
            return None
    r = native(argv, timeout=300)
    import json

    try:
        info = json.loads(r["out"].strip().splitlines()[-1])
    except Exception:
        return dict(error=(r["out"] + r["err"])[-500:])
    info["replay_cmd"] = argv
    info["bound"] = "type terms of depth <= 2 over the class DAG of native/typeterms.py"
    return info

MANIFEST = dict(
    category="other",
    text="Deductive (unbounded, z3) proof of mirror symmetry, reflexivity, class fragment, alias and member clauses of the type order over the real ASTs of typeorder and its hooks, per pair of kinds by structural induction; pairs that genuinely fail on the pinned tree are open known findings with native witnesses, so the level is 'other' rather than 'proof'.",
    design_ref="6/C12",
    note="Trusted: routing table of the Python object protocol per kind (checked natively every run), type-term universe axioms, extensionality of ==, z3. Not covered: Whatever/All, user hooks on plain classes, typing unions as operands.",
    technique="contract-based deductive verification: own VC generator (pyvc) over the real AST + z3, structural induction per kind pair; bounded native search only to concretise failed obligations",
)
