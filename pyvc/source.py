"""Load the real ovld sources from the working tree and index functions / loops by stable names.

Nothing here is a copy of repository code: every run re-reads <root>/src/ovld/*.py with ast.parse.
What extraction drops (and nothing else): docstrings, comments, annotations, decorators (their
semantic effect is supplied by the routing tables in /verif/contracts and checked natively).
"""
import ast
import hashlib
import os
from pathlib import Path

REPO = Path(os.environ.get("OVLD_REPO", "/repo"))
SRC = REPO / "src" / "ovld"


class AnchorMissing(Exception):
    """A function / loop named by a contract no longer exists (verdict: undecided, exit 2)."""


class Module:
    def __init__(self, name):
        self.name = name
        self.path = SRC / f"{name}.py"
        self.text = self.path.read_text()
        self.tree = ast.parse(self.text)
        self.functions = {}  # qualname -> FunctionDef
        self.classes = {}  # qualname -> ClassDef
        self.imports = {}  # local name -> ("mod", modname) | ("from", modname, name)
        self._index(self.tree.body, "")

    def _index(self, body, prefix):
        for node in body:
            if isinstance(node, (ast.FunctionDef, ast.AsyncFunctionDef)):
                self.functions[prefix + node.name] = node
                self._index_nested(node, prefix + node.name + ".")
            elif isinstance(node, ast.ClassDef):
                self.classes[prefix + node.name] = node
                self._index(node.body, prefix + node.name + ".")
            elif isinstance(node, ast.Import) and not prefix:
                for a in node.names:
                    self.imports[a.asname or a.name.split(".")[0]] = ("mod", a.name)
            elif isinstance(node, ast.ImportFrom) and not prefix:
                for a in node.names:
                    self.imports[a.asname or a.name] = ("from", "." * node.level + (node.module or ""), a.name)
            elif isinstance(node, ast.Try) and not prefix:
                self._index(node.body, prefix)

    def _index_nested(self, fn, prefix):
        for node in ast.walk(fn):
            if node is fn:
                continue
            if isinstance(node, ast.FunctionDef) and prefix + node.name not in self.functions:
                self.functions[prefix + node.name] = node
            elif isinstance(node, ast.ClassDef) and prefix + node.name not in self.classes:
                self.classes[prefix + node.name] = node
                self._index(node.body, prefix + node.name + ".")


_cache = {}


def module(name):
    if name not in _cache:
        _cache[name] = Module(name)
    return _cache[name]


def reset():
    _cache.clear()


def function(qual):
    """qual = 'mro:typeorder' or 'typemap:Candidate.dominates'."""
    mod, _, fn = qual.partition(":")
    try:
        m = module(mod)
    except (OSError, SyntaxError) as e:
        raise AnchorMissing(f"module {mod}: {e}")
    if fn not in m.functions:
        raise AnchorMissing(f"function {qual} not found in {m.path}")
    return m.functions[fn]


def fn_source(qual):
    node = function(qual)
    return ast.get_source_segment(module(qual.partition(":")[0]).text, node) or ast.unparse(node)


def fn_sha(qual):
    return hashlib.sha256(ast.dump(function(qual)).encode()).hexdigest()[:16]


def strip_doc(body):
    if body and isinstance(body[0], ast.Expr) and isinstance(body[0].value, ast.Constant) and isinstance(body[0].value.value, str):
        return body[1:]
    return body


def loops(fn):
    """For/While nodes of fn in source order (depth-first, pre-order), not descending into nested defs."""
    out = []

    def visit(node):
        for child in ast.iter_child_nodes(node):
            if isinstance(child, (ast.FunctionDef, ast.Lambda, ast.ClassDef)):
                continue
            if isinstance(child, (ast.For, ast.While)):
                out.append(child)
            visit(child)

    visit(fn)
    return out
