"""pyvc: a symbolic executor for the Python subset used by ovld's algorithmic core.

It executes the *real* function ASTs (see source.py) over symbolic values backed by z3 terms,
exploring every path (replay-based forking), and emits named proof obligations:

  * requires of contracted callees at each call site,
  * loop invariants (init / preserve) for loops with a sidecar invariant,
  * ensures of the function under verification at each normal / exceptional exit,
  * `assert` statements,
  * "no unexpected exception".

Callees are never inlined unless the sidecar says so; otherwise their *contract model* is used.
Python semantics assumed by the encoding are listed in ASSUMPTIONS (reported in every evidence file).
"""
import ast
import time

import z3

from . import source

ASSUMPTIONS = [
    "Python ints are mathematical integers (exact in CPython); priorities are reals without NaN",
    "operands of chained comparisons and of comprehension element/filter expressions are side-effect free",
    "types that compare == are treated as identical objects (`is` on types is modelled as ==)",
    "partial correctness for loops over finite collections is immediate; recursion is checked by decreases obligations",
    "set iteration order is an arbitrary duplicate-free enumeration (order witness); dict iteration is insertion order",
]


class OutOfSubset(Exception):
    """The AST uses something the engine does not model: the function is UNDECIDED (exit 2), never 'proved'."""


class PyRaise(Exception):
    def __init__(self, exc):
        self.exc = exc  # ExcV


class PathEnd(Exception):
    pass


class StopExploration(Exception):
    """fail-fast: an obligation was not proved and the task asked to stop at the first such obligation."""


class _Return(Exception):
    def __init__(self, v):
        self.v = v


class _Break(Exception):
    pass


class _Continue(Exception):
    pass


# --------------------------------------------------------------------------------------------------
# values


class ZV:
    """A scalar symbolic value: z3 term + kind tag ('int', 'real', 'bool' or a domain tag)."""

    __slots__ = ("t", "k")

    def __init__(self, t, k):
        self.t = t
        self.k = k

    def __repr__(self):
        return f"<{self.k} {self.t}>"

    # engine protocol defaults ---------------------------------------------------------------
    def fresh_like(self, I, hint="v"):
        return type(self)(I.fresh(hint, self.t.sort()), self.k)

    def with_term(self, t):
        return type(self)(t, self.k)


class SymObj:
    """Base for domain-specific symbolic objects (see contracts/)."""

    def fresh_like(self, I, hint="o"):
        raise OutOfSubset(f"cannot havoc {type(self).__name__}")


class StarV:
    """`*value` of a symbolic sequence inside a tuple display (resolved by world.build_tuple)."""

    def __init__(self, value):
        self.value = value


class ExcV(SymObj):
    def __init__(self, cls, args=(), tag=None):
        self.cls = cls  # class name string
        self.args = args
        self.tag = tag

    def __repr__(self):
        return f"<exc {self.cls} {self.tag or ''}>"


class ExcClass(SymObj):
    def __init__(self, name, bases=()):
        self.name = name
        self.bases = bases

    def py_call(self, I, args, kwargs):
        return ExcV(self.name, tuple(args))


EXC_HIER = {
    "KeyError": ("LookupError", "Exception"),
    "IndexError": ("LookupError", "Exception"),
    "TypeError": ("Exception",),
    "ValueError": ("Exception",),
    "OSError": ("Exception",),
    "AssertionError": ("Exception",),
    "UsageError": ("Exception",),
    "CycleError": ("ValueError", "Exception"),
    "NotImplementedError": ("RuntimeError", "Exception"),
    "Exception": (),
    # not subclasses of Exception: `except Exception` does not catch them
    "KeyboardInterrupt": (),
    "SystemExit": (),
    "GeneratorExit": (),
    "BaseException": (),
    "RuntimeError": ("Exception",),
    "RecursionError": ("RuntimeError", "Exception"),
    "AttributeError": ("Exception",),
    "NameError": ("Exception",),
    "ImportError": ("Exception",),
}


def exc_matches(exc, clsname):
    return exc.cls == clsname or clsname in EXC_HIER.get(exc.cls, ("Exception",)) or clsname == "BaseException"


class Builtin(SymObj):
    def __init__(self, name, fn):
        self.name = name
        self.fn = fn

    def py_call(self, I, args, kwargs):
        try:
            import inspect

            inspect.signature(self.fn).bind(I, *args, **kwargs)
        except TypeError as e:
            # the model of this builtin does not cover the way it is called (more arguments, an unknown keyword): outside the
            # modelled subset, not an engine failure
            raise OutOfSubset(f"{self.name}(...) called in a way its model does not cover: {e}")
        except ValueError:
            pass
        return self.fn(I, *args, **kwargs)

    def __repr__(self):
        return f"<builtin {self.name}>"


class RepoFn(SymObj):
    """A function of the repository, identified by 'module:qualname'."""

    def __init__(self, qual, bound=None, closure=None):
        self.qual = qual
        self.bound = bound
        self.closure = closure

    def py_call(self, I, args, kwargs):
        if self.bound is not None:
            args = [self.bound, *args]
        return I.call_repo(self.qual, list(args), dict(kwargs), self.closure)

    def bind(self, obj):
        return RepoFn(self.qual, bound=obj, closure=self.closure)

    def __repr__(self):
        return f"<repofn {self.qual}>"


class Closure(SymObj):
    """A nested def / lambda evaluated in the interpreted program."""

    def __init__(self, node, env, modname, qual):
        self.node = node
        self.env = env
        self.modname = modname
        self.qual = qual

    def py_call(self, I, args, kwargs):
        pol = I.world._policy.get(self.qual)
        if callable(pol):  # a nested function put under contract (e.g. the recursive generator of MultiTypeMap.mro)
            return pol(I, list(args), dict(kwargs))
        return I.exec_function(self.node, self.modname, self.qual, list(args), dict(kwargs), self.env)


class RepoClass(SymObj):
    """A class of the repository. Calling it builds a Rec when it is a plain dataclass-like class."""

    def __init__(self, qual):
        self.qual = qual  # 'typemap:Candidate'

    @property
    def node(self):
        mod, _, name = self.qual.partition(":")
        return source.module(mod).classes[name]

    def fields(self):
        out = []
        for st in self.node.body:
            if isinstance(st, ast.AnnAssign) and isinstance(st.target, ast.Name):
                out.append((st.target.id, st.value))
        return out

    def py_getattr(self, I, name):
        mod, _, cname = self.qual.partition(":")
        m = source.module(mod)
        if f"{cname}.{name}" in m.functions:
            return RepoFn(f"{mod}:{cname}.{name}")
        over = I.class_attr(self.qual, name)
        if over is not None:
            return over
        raise OutOfSubset(f"class attribute {self.qual}.{name}")

    def py_call(self, I, args, kwargs):
        ctor = I.class_ctor(self.qual)
        if ctor is not None:
            return ctor(I, args, kwargs)
        fields = self.fields()
        vals = {}
        names = [n for n, _ in fields]
        for n, v in zip(names, args):
            vals[n] = v
        vals.update(kwargs)
        for n, d in fields:
            if n not in vals:
                if d is None:
                    raise OutOfSubset(f"missing field {n} constructing {self.qual}")
                vals[n] = I.eval_const_default(d)
        return Rec(self.qual, vals)

    def __repr__(self):
        return f"<repoclass {self.qual}>"


class Rec(SymObj):
    """Instance of a repository dataclass: named fields holding values."""

    def __init__(self, cls, fields):
        self.cls = cls
        self.f = fields

    def py_getattr(self, I, name):
        if name in self.f:
            return self.f[name]
        mod, _, cname = self.cls.partition(":")
        m = source.module(mod)
        if f"{cname}.{name}" in m.functions:
            return RepoFn(f"{mod}:{cname}.{name}", bound=self)
        raise OutOfSubset(f"attribute {name} of {self.cls}")

    def py_setattr(self, I, name, v):
        self.f[name] = v

    def fresh_like(self, I, hint="r"):
        return Rec(self.cls, {k: I.fresh_like(v, f"{hint}_{k}") for k, v in self.f.items()})

    def __repr__(self):
        return f"<{self.cls} {self.f}>"


class SymSeq(SymObj):
    """Sequence of symbolic length: len term + element function (Python callable on an Int term)."""

    def __init__(self, length, elem, tag="seq", dupfree_pos=None, mutable=False):
        self.length = length  # z3 Int term
        self.elem = elem  # callable: z3 Int term -> value
        self.tag = tag
        self.pos = dupfree_pos  # optional callable value -> z3 Int (inverse index) when duplicate-free
        self.mutable = mutable

    def py_len(self, I):
        return ZV(self.length, "int")

    def py_truth(self, I):
        return self.length > 0

    def py_getitem(self, I, key):
        if isinstance(key, slice):
            lo = 0 if key.start is None else I.int_term(key.start)
            if key.step is not None:
                raise OutOfSubset("slice step")
            if key.stop is None:
                n = z3.If(self.length - lo >= 0, self.length - lo, 0)
                return SymSeq(n, lambda i, lo=lo: self.elem(i + lo), self.tag, None)
            hi = I.int_term(key.stop)
            hi = z3.If(hi < self.length, hi, self.length)
            n = z3.If(hi - lo >= 0, hi - lo, 0)
            return SymSeq(n, lambda i, lo=lo: self.elem(i + lo), self.tag, None)
        i = I.int_term(key)
        I.require(z3.And(i >= -self.length, i < self.length), "index_in_range", exc="IndexError")
        if z3.is_int_value(z3.simplify(i)) and z3.simplify(i).as_long() < 0:
            return self.elem(self.length + i)
        I.note_assumed_nonneg(i)
        return self.elem(i)

    def stream(self, I):
        st = Stream(self.length, None, [], self.elem)
        st.src = self  # gives loop invariants access to the inverse index of a duplicate-free sequence
        return st

    def py_eq(self, I, other):
        if isinstance(other, SymSeq):
            i = I.fresh("qi", z3.IntSort())
            return z3.And(self.length == other.length, z3.ForAll([i], z3.Implies(z3.And(0 <= i, i < self.length), I.eq_term(self.elem(i), other.elem(i)))))
        if isinstance(other, (tuple, list)):
            n = len(other)
            return z3.And(self.length == n, *[I.eq_term(self.elem(z3.IntVal(j)), other[j]) for j in range(n)])
        return NotImplemented

    def py_iter(self, I):
        return self.stream(I)

    def py_contains(self, I, x):
        i = I.fresh("ci", z3.IntSort())
        return z3.Exists([i], z3.And(i >= 0, i < self.length, I.eq_term(self.elem(i), x)))

    def fresh_like(self, I, hint="s"):
        raise OutOfSubset("havoc of SymSeq needs a factory in the loop spec")


class Stream(SymObj):
    """A lazily described sub-sequence: indices 0..length-1 of a source, kept where all guards hold.

    `guards` are callables i -> z3 Bool; `elem` a callable i -> value. Order is the source order.
    Consumers translate to quantified formulas over the *source* index (virtual sequence).  Guards and
    elements are evaluated under a binder (index variable + range/guard condition) so that obligations
    and assumptions generated while evaluating them are universally quantified over the index."""

    def __init__(self, length, _unused, guards, elem):
        self.length = length
        self.guards = list(guards)
        self.elem = elem
        self.oneshot = False  # zip / map / enumerate / reversed / generator expressions are exhausted by their first consumer
        self.consumed = False

    def consume(self):
        """Called once by every consumer; returns the view that consumer iterates over: the stream itself for a
        re-iterable sequence, a snapshot for a one-shot iterator (empty if it was consumed before)."""
        if not self.oneshot:
            return self
        snap = Stream(z3.IntVal(0) if self.consumed else self.length, None, self.guards, self.elem)
        if hasattr(self, "src"):
            snap.src = self.src
        self.consumed = True
        return snap

    def guard_at(self, I, i):
        cond = z3.And(i >= 0, i < self.length)
        for g in self.guards:
            I.path.binders.append(([i], cond))
            try:
                gi = g(i)
            finally:
                I.path.binders.pop()
            cond = z3.And(cond, gi)
        return cond

    def elem_at(self, I, i, cond=None):
        if cond is None:
            cond = self.guard_at(I, i)
        I.path.binders.append(([i], cond))
        try:
            return self.elem(i)
        finally:
            I.path.binders.pop()

    def probe(self, I):
        I.quiet += 1
        try:
            return self.elem(z3.Int("probe!i"))
        finally:
            I.quiet -= 1

    def py_iter(self, I):
        return self

    def py_truth(self, I):
        if self.oneshot:
            return True  # an iterator object is truthy whatever it contains
        i = I.fresh("si", z3.IntSort())
        return z3.Exists([i], self.guard_at(I, i))

    def exists(self, I, pred):
        if self.oneshot:
            return self.consume().exists(I, pred)
        i = I.fresh("si", z3.IntSort())
        g = self.guard_at(I, i)
        return z3.Exists([i], z3.And(g, pred(self.elem_at(I, i, g), i)))

    def forall(self, I, pred):
        if self.oneshot:
            return self.consume().forall(I, pred)
        i = I.fresh("si", z3.IntSort())
        g = self.guard_at(I, i)
        return z3.ForAll([i], z3.Implies(g, pred(self.elem_at(I, i, g), i)))

    def py_contains(self, I, x):
        return self.exists(I, lambda e, i: I.eq_term(e, x))

    def py_getattr(self, I, name):
        return I.world.stream_attr(I, self, name)

    def py_getitem(self, I, key):
        return I.world.materialize(I, self).py_getitem(I, key)


class OneShotList(SymObj):
    """A one-shot iterator over concretely many items (generator expression / zip / map over concrete lists)."""

    def __init__(self, items):
        self.items = list(items)
        self.consumed = False

    def py_iter(self, I):
        if self.consumed:
            return []
        self.consumed = True
        return list(self.items)

    def py_truth(self, I):
        return True

    def py_contains(self, I, x):
        # `x in iterator` consumes the iterator (up to the first match; modelled as exhausted): a second test finds nothing
        items = self.py_iter(I)
        return I.disj([I.eq(x, y) for y in items])


class SymSet(SymObj):
    """Set given by a membership predicate (callable value-term -> z3 Bool) over elements of one kind."""

    def __init__(self, member, wrap, sort, mutable=True):
        self.member = member  # callable z3 term -> Bool
        self.wrap = wrap  # callable z3 term -> value
        self.sort = sort

    def py_contains(self, I, x):
        return self.member(I.term(x))

    def py_truth(self, I):
        x = I.fresh("sx", self.sort)
        return z3.Exists([x], self.member(x))

    def py_len(self, I):
        n = I.fresh("card", z3.IntSort())
        x = I.fresh("sx", self.sort)
        I.assume(z3.And(n >= 0, (n > 0) == z3.Exists([x], self.member(x))))
        return ZV(n, "int")

    def fresh_like(self, I, hint="S"):
        f = I.fresh_fn(hint, [self.sort], z3.BoolSort())
        return SymSet(lambda x: f(x), self.wrap, self.sort)

    def py_iter(self, I):
        # order witness: a duplicate-free enumeration A[0..n-1] with inverse index pos
        n = I.fresh("n", z3.IntSort())
        A = I.fresh_fn("A", [z3.IntSort()], self.sort)
        pos = I.fresh_fn("pos", [self.sort], z3.IntSort())
        p = I.fresh("p", z3.IntSort())
        x = I.fresh("x", self.sort)
        I.assume(n >= 0)
        I.assume(z3.ForAll([p], z3.Implies(z3.And(0 <= p, p < n), z3.And(self.member(A(p)), pos(A(p)) == p))))
        I.assume(z3.ForAll([x], z3.Implies(self.member(x), z3.And(0 <= pos(x), pos(x) < n, A(pos(x)) == x))))
        seq = SymSeq(n, lambda i: self.wrap(A(i)), "setiter", dupfree_pos=lambda v: pos(I.term(v)))
        seq.A, seq.posf = A, pos
        return seq.stream(I)

    def add(self, I, x):
        old, t = self.member, I.term(x)
        self.member = lambda y: z3.Or(y == t, old(y))

    def py_getattr(self, I, name):
        if name == "add":
            return Builtin("set.add", lambda I, x: self.add(I, x))
        raise OutOfSubset(f"set.{name} on SymSet")


# --------------------------------------------------------------------------------------------------


class Obligation:
    __slots__ = ("name", "fn", "pc", "goal", "status", "time", "model", "path", "note")

    def __init__(self, name, fn, pc, goal, path):
        self.name, self.fn, self.pc, self.goal, self.path = name, fn, pc, goal, path
        self.status = None
        self.time = 0.0
        self.model = None
        self.note = ""


class Path:
    def __init__(self, dec):
        self.dec = list(dec)
        self.pos = 0
        self.pc = []
        self.alts = []
        self.counter = {}
        self.outcome = None
        self.binders = []  # [(vars, cond)]
        self.assumed = []  # facts assumed (assume / branch decisions), without the goals of require


class LoopSpec:
    def __init__(self, invariant, modifies=(), havoc=None, variant=None, skip_names=()):
        def guarded(I, env, k, seq=None, _inv=invariant):
            # an invariant speaks about the loop's variables by name: when the code under it was rewritten (a local renamed, a
            # collection of another shape) the anchor is lost - undecided, not an engine error
            try:
                return _inv(I, env, k, seq)
            except (KeyError, AttributeError, TypeError) as e:
                raise OutOfSubset(f"anchor lost: the loop invariant no longer fits the loop ({type(e).__name__}: {e})")

        self.invariant = guarded  # (I, env, k, seq) -> z3 Bool / list
        self.modifies = tuple(modifies)
        self.havoc = havoc or {}
        self.variant = variant
        self.skip_names = tuple(skip_names)


class Frame:
    def __init__(self, qual, modname, env):
        self.qual = qual
        self.modname = modname
        self.env = env
        self.yields = None


class Env:
    def __init__(self, parent=None):
        self.d = {}
        self.parent = parent

    def get(self, k):
        e = self
        while e is not None:
            if k in e.d:
                return e.d[k]
            e = e.parent
        raise KeyError(k)

    def has(self, k):
        try:
            self.get(k)
            return True
        except KeyError:
            return False

    def set(self, k, v):
        self.d[k] = v

    def set_nonlocal(self, k, v):
        e = self
        while e is not None:
            if k in e.d:
                e.d[k] = v
                return
            e = e.parent
        self.d[k] = v


class Interp:
    def __init__(self, world, timeout_ms=20000):
        self.world = world  # provides globals models, callee policies, loop specs, axioms
        self.timeout_ms = timeout_ms
        self.obligations = []
        self.paths = []
        self.path = None
        self.solver = None
        self.frames = []
        self.pure = 0
        self.depth = 0
        self.solver_time = 0.0
        self.checks = 0
        self.current_fn = "?"
        self.max_paths = 4000
        self.feas_timeout_ms = 400
        self.quiet = 0
        self.mbqi = False
        self.xcheck = None  # thorough tier: callable(smt2 text) -> {backend: answer}
        self.xchecked = set()
        self.xresults = []
        self.fail_fast = False
        self.retry_factor = 2
        self.stopped = False

    # ---------------------------------------------------------------- symbols
    def fresh(self, hint, sort):
        c = self.path.counter
        c[hint] = c.get(hint, 0) + 1
        return z3.Const(f"{hint}!{c[hint]}", sort)

    def fresh_fn(self, hint, dom, rng):
        c = self.path.counter
        c[hint] = c.get(hint, 0) + 1
        return z3.Function(f"{hint}!{c[hint]}", *dom, rng)

    def fresh_like(self, v, hint="v"):
        if isinstance(v, bool):
            return ZV(self.fresh(hint, z3.BoolSort()), "bool")
        if isinstance(v, int):
            return ZV(self.fresh(hint, z3.IntSort()), "int")
        if isinstance(v, (ZV, SymObj)):
            return v.fresh_like(self, hint)
        if isinstance(v, tuple):
            return tuple(self.fresh_like(x, hint) for x in v)
        if v is None:
            return None
        raise OutOfSubset(f"cannot havoc {type(v).__name__} ({hint}); give a factory in the loop spec")

    # ---------------------------------------------------------------- exploring paths
    def explore(self, thunk, name):
        """Run thunk on every feasible path; returns list of Paths with outcomes."""
        self.current_fn = name
        work = [[]]
        done = []
        while work:
            if len(done) > self.max_paths:
                raise OutOfSubset(f"path explosion in {name}")
            dec = work.pop()
            p = Path(dec)
            self.path = p
            self.solver = z3.SolverFor("UF") if False else z3.Solver()
            self.solver.set("timeout", self.timeout_ms)
            self.solver.set("smt.mbqi", self.mbqi)
            self.solver.set("smt.auto_config", False)
            for ax in self.world.axioms(self):
                self.solver.add(ax)
            self.frames = []
            self.pure = 0
            try:
                out = thunk(self)
                p.outcome = ("return", out)
            except PyRaise as e:
                p.outcome = ("raise", e.exc)
            except PathEnd as e:
                p.outcome = ("stop", str(e))
            except StopExploration:
                p.outcome = ("stop", "fail-fast")
                self.stopped = True
                done.append(p)
                break
            work.extend(p.alts)
            done.append(p)
        self.paths.extend(done)
        return done

    def cover(self, path, timeout_ms=10000):
        """Vacuity guard: are the premises of this path (axioms + assumptions + branch decisions) satisfiable?
        Uses MBQI (can build models for the quantified background); returns 'sat' | 'unsat' | 'unknown'."""
        axs = list(self.world.axioms(self))
        # canary: with the same instantiation engine the proofs use (E-matching), `false` must not be derivable from the premises
        c = z3.Solver()
        c.set("timeout", timeout_ms)
        c.set("smt.mbqi", False)
        c.set("smt.auto_config", False)
        for f in axs + list(path.assumed):
            c.add(f)
        t = time.time()
        if c.check() == z3.unsat:
            self.solver_time += time.time() - t
            return "unsat"
        s = z3.Solver()
        s.set("timeout", timeout_ms)
        for f in axs + list(path.assumed):
            s.add(f)
        r = s.check()
        self.solver_time += time.time() - t
        return str(r) if r != z3.unknown else "unknown(canary-passed)"

    def _check(self, extra, timeout=None):
        s = self.solver
        s.push()
        if timeout:
            s.set("timeout", timeout)
        for e in extra:
            s.add(e)
        t = time.time()
        r = s.check()
        m = None
        if r == z3.sat:
            try:
                m = s.model()
            except z3.Z3Exception:
                m = None
        self.solver_time += time.time() - t
        self.checks += 1
        s.pop()
        if timeout:
            s.set("timeout", self.timeout_ms)
        return r, m

    def feasible(self, cond):
        r, _ = self._check([cond], timeout=self.feas_timeout_ms)
        return r != z3.unsat

    def branch(self, c):
        """Decide a (possibly symbolic) condition; forks the exploration when both sides are feasible."""
        if isinstance(c, bool):
            return c
        if isinstance(c, ZV):
            c = self.truth(c)
            if isinstance(c, bool):
                return c
        c = z3.simplify(c)
        if z3.is_true(c):
            return True
        if z3.is_false(c):
            return False
        if self.pure:
            raise OutOfSubset("symbolic branch inside a quantified (comprehension) context")
        p = self.path
        if p.pos < len(p.dec):
            d = p.dec[p.pos]
        else:
            ft = self.feasible(c)
            ff = self.feasible(z3.Not(c))
            if ft and ff:
                d = 1
                p.alts.append(p.dec[: p.pos] + [0])
            elif ft:
                d = 1
            elif ff:
                d = 0
            else:
                raise PathEnd("infeasible")
            p.dec.append(d)
        p.pos += 1
        fact = c if d else z3.Not(c)
        p.pc.append(fact)
        p.assumed.append(fact)
        self.solver.add(fact)
        return bool(d)

    def choose(self, n):
        p = self.path
        if p.pos < len(p.dec):
            d = p.dec[p.pos]
        else:
            d = 0
            for alt in range(1, n):
                p.alts.append(p.dec[: p.pos] + [alt])
            p.dec.append(d)
        p.pos += 1
        return d

    def _wrap_binders(self, f, assume=False):
        for vars_, cond in reversed(self.path.binders):
            f = z3.ForAll(vars_, z3.Implies(cond, f))
        return f

    def assume(self, fact):
        if self.quiet:
            return
        if isinstance(fact, (list, tuple)):
            for f in fact:
                self.assume(f)
            return
        if isinstance(fact, bool):
            if not fact:
                raise PathEnd("assume false")
            return
        fact = self._wrap_binders(fact)
        self.path.pc.append(fact)
        self.path.assumed.append(fact)
        self.solver.add(fact)

    def require(self, goal, tag, exc=None, fn=None):
        """Emit a proof obligation: goal must hold on the current path."""
        if self.quiet:
            return None
        if isinstance(goal, (list, tuple)):
            for i, g in enumerate(goal):
                self.require(g, f"{tag}.{i}", exc, fn)
            return
        if isinstance(goal, bool):
            goal = z3.BoolVal(goal)
        goal = self._wrap_binders(goal)
        ob = Obligation(f"{fn or self.current_fn}/{tag}", fn or self.current_fn, list(self.path.pc), goal, list(self.path.dec[: self.path.pos]))
        g = z3.simplify(goal)
        if z3.is_true(g):
            ob.status = "proved"
            ob.note = "trivial"
        else:
            t = time.time()
            r, m = self._check([z3.Not(goal)])
            if r == z3.unknown:
                # E-matching only could not decide: retry with model-based quantifier instantiation,
                # which can also produce a counter-model
                s2 = z3.Solver()
                s2.set("timeout", self.timeout_ms * max(1, self.retry_factor))
                for a in self.solver.assertions():
                    s2.add(a)
                s2.add(z3.Not(goal))
                r = s2.check()
                m = None
                if r == z3.sat:
                    try:
                        m = s2.model()
                    except z3.Z3Exception:
                        m = None
                self.checks += 1
            ob.time = time.time() - t
            if r == z3.unsat:
                ob.status = "proved"
            elif r == z3.sat:
                ob.status = "refuted"
                ob.model = self.world.describe_model(self, m) if m is not None else ""
            else:
                ob.status = "unknown"
                import os

                if os.environ.get("PYVC_DUMP"):
                    self.solver.push()
                    self.solver.add(z3.Not(goal))
                    try:
                        open(os.path.join(os.environ["PYVC_DUMP"], f"unknown_{len(self.obligations)}_{tag.replace('/', '_')[:60]}.smt2"), "w").write(self.solver.to_smt2())
                    finally:
                        self.solver.pop()
        if ob.status == "proved" and ob.note != "trivial" and self.xcheck is not None and ob.name not in self.xchecked:
            self.xchecked.add(ob.name)
            self.solver.push()
            self.solver.add(z3.Not(goal))
            try:
                smt2 = self.solver.to_smt2()
            finally:
                self.solver.pop()
            self.xresults.append((ob.name, self.xcheck(smt2)))
        self.obligations.append(ob)
        if ob.status != "proved" and self.fail_fast:
            raise StopExploration()
        if ob.status == "proved":  # later obligations may use it; an unproved goal is not assumed (it could make the rest vacuous)
            self.path.pc.append(goal)
            self.solver.add(goal)
        return ob

    def note_assumed_nonneg(self, i):
        pass

    # ---------------------------------------------------------------- value helpers
    def term(self, v):
        if isinstance(v, z3.ExprRef):
            return v
        if isinstance(v, ZV):
            return v.t
        if isinstance(v, bool):
            return z3.BoolVal(v)
        if isinstance(v, int):
            return z3.IntVal(v)
        if isinstance(v, float):
            if v == float("inf"):
                raise OutOfSubset("inf as term")
            return z3.RealVal(v)
        t = self.world.term_of(self, v)
        if t is None:
            raise OutOfSubset(f"no z3 term for {v!r}")
        return t

    def int_term(self, v):
        if isinstance(v, ZV) and v.k in ("int",):
            return v.t
        if isinstance(v, bool):
            return z3.IntVal(int(v))
        if isinstance(v, int):
            return z3.IntVal(v)
        if isinstance(v, ZV) and v.k == "bool":
            return z3.If(v.t, 1, 0)
        raise OutOfSubset(f"expected int, got {v!r}")

    def truth(self, v):
        """Python truthiness as bool or z3 Bool."""
        if isinstance(v, (ZV, SymObj)) and hasattr(v, "py_truth"):
            return v.py_truth(self)
        if isinstance(v, ZV):
            if v.k == "bool":
                s = z3.simplify(v.t)
                if z3.is_true(s):
                    return True
                if z3.is_false(s):
                    return False
                return v.t
            if v.k in ("int", "real"):
                return v.t != 0
            r = self.world.truth_of(self, v)
            if r is None:
                raise OutOfSubset(f"truthiness of {v!r}")
            return r
        if isinstance(v, SymObj):
            if hasattr(v, "py_truth"):
                return v.py_truth(self)
            return True
        if v is NotImplemented:
            return True
        return bool(v)

    def eq_term(self, a, b):
        r = self.eq(a, b)
        return z3.BoolVal(r) if isinstance(r, bool) else r

    def eq(self, a, b):
        if isinstance(a, ZV) and hasattr(a, "py_eq"):
            r = a.py_eq(self, b)
            if r is not NotImplemented:
                return r
        if isinstance(a, ZV) and isinstance(b, ZV):
            if a.t.sort() == b.t.sort():
                return a.t == b.t
            if a.k in ("int", "real") and b.k in ("int", "real"):
                return z3.ToReal(a.t) == z3.ToReal(b.t) if a.k != b.k else a.t == b.t
            r = self.world.eq_mixed(self, a, b)
            return False if r is None else r
        if isinstance(a, ZV) or isinstance(b, ZV):
            z, o = (a, b) if isinstance(a, ZV) else (b, a)
            if z.k in ("int", "real") and isinstance(o, (int, float)) and not isinstance(o, bool):
                return z.t == o
            if z.k == "int" and isinstance(o, bool):
                return z.t == int(o)
            if z.k == "bool" and isinstance(o, bool):
                return z.t == o
            if z.k == "bool" and isinstance(o, int):
                return z3.If(z.t, 1, 0) == o
            r = self.world.eq_mixed(self, z, o)
            return False if r is None else r
        if isinstance(a, SymObj) and hasattr(a, "py_eq"):
            r = a.py_eq(self, b)
            if r is not NotImplemented:
                return r
        if isinstance(b, SymObj) and hasattr(b, "py_eq"):
            r = b.py_eq(self, a)
            if r is not NotImplemented:
                return r
        if isinstance(a, (tuple, list)) and isinstance(b, (tuple, list)) and type(a) is type(b):
            if len(a) != len(b):
                return False
            parts = [self.eq(x, y) for x, y in zip(a, b)]
            if any(p is False for p in parts):
                return False
            parts = [p for p in parts if p is not True]
            return True if not parts else z3.And(*parts)
        if isinstance(a, SymObj) or isinstance(b, SymObj):
            if getattr(a, "concrete_identity", False) and getattr(b, "concrete_identity", False):
                return bool(a == b)  # identity unless the token class defines a structural __eq__ (e.g. signatures)
            return a is b
        try:
            return a == b
        except Exception:
            return a is b

    def is_(self, a, b):
        if a is None or b is None or a is NotImplemented or b is NotImplemented:
            for x, y in ((a, b), (b, a)):
                if y is None and isinstance(x, (SymObj, ZV)) and hasattr(x, "py_is_none"):
                    return x.py_is_none(self)  # the value of a variable that may still hold None (havocked by a loop)
            if isinstance(a, ZV) or isinstance(b, ZV):
                z = a if isinstance(a, ZV) else b
                r = self.world.is_singleton(self, z, b if z is a else a)
                return False if r is None else r
            return a is b
        if isinstance(a, (ZV,)) or isinstance(b, (ZV,)):
            for x, y in ((a, b), (b, a)):
                if isinstance(x, ZV) and hasattr(x, "py_is"):
                    r = x.py_is(self, y)
                    if r is not NotImplemented:
                        return r
            return self.eq(a, b)
        if isinstance(a, SymObj) or isinstance(b, SymObj):
            if hasattr(a, "py_is"):
                return a.py_is(self, b)
            if hasattr(b, "py_is"):
                return b.py_is(self, a)
            return a is b
        if isinstance(a, (int, str, bool, float)) and isinstance(b, (int, str, bool, float)):
            return type(a) is type(b) and a == b
        return a is b

    def neg(self, b):
        return (not b) if isinstance(b, bool) else z3.Not(b)

    def conj(self, parts):
        if any(p is False for p in parts):
            return False
        parts = [p for p in parts if p is not True]
        if not parts:
            return True
        return z3.And(*parts) if len(parts) > 1 else parts[0]

    def disj(self, parts):
        if any(p is True for p in parts):
            return True
        parts = [p for p in parts if p is not False]
        if not parts:
            return False
        return z3.Or(*parts) if len(parts) > 1 else parts[0]

    def boolval(self, b):
        return b if isinstance(b, bool) else ZV(b, "bool")

    # ---------------------------------------------------------------- calls into the repository
    def call_repo(self, qual, args, kwargs, closure=None):
        pol = self.world.policy(self, qual)
        if pol is None:
            raise OutOfSubset(f"no contract or inline permission for callee {qual}")
        if pol == "inline":
            mod = qual.partition(":")[0]
            return self.exec_function(source.function(qual), mod, qual, args, kwargs, closure)
        return pol(self, args, kwargs)

    def class_attr(self, qual, name):
        return self.world.class_attr(self, qual, name)

    def class_ctor(self, qual):
        return self.world.class_ctor(self, qual)

    def eval_const_default(self, node):
        if isinstance(node, ast.Constant):
            return node.value
        if isinstance(node, ast.Name) and node.id == "NotImplemented":
            return NotImplemented
        raise OutOfSubset("non-constant dataclass default")

    def exec_function(self, node, modname, qual, args, kwargs, closure=None, preset=None):
        if self.depth > 40:
            raise OutOfSubset("inline depth")
        env = Env(closure)
        a = node.args
        params = [p.arg for p in a.posonlyargs + a.args]
        defaults = a.defaults
        nd = len(defaults)
        args = list(args)
        if len(args) > len(params) and a.vararg is None:
            raise PyRaise(ExcV("TypeError", tag="binding: too many positional arguments"))
        npo = len(a.posonlyargs)
        for i, p in enumerate(params):
            if i < len(args):
                if i >= npo and p in kwargs:
                    raise PyRaise(ExcV("TypeError", tag=f"binding: multiple values for argument {p}"))
                env.set(p, args[i])
            elif p in kwargs and i < npo and a.kwarg is None:
                raise PyRaise(ExcV("TypeError", tag=f"binding: positional-only argument {p} passed as keyword"))
            elif p in kwargs and i >= npo:
                env.set(p, kwargs.pop(p))
            else:
                di = i - (len(params) - nd)
                if di < 0:
                    raise PyRaise(ExcV("TypeError", tag=f"binding: missing argument {p}"))
                env.set(p, self.eval(defaults[di], Env(None), modname))
        if a.vararg is not None:
            env.set(a.vararg.arg, tuple(args[len(params):]))
        for p, d in zip(a.kwonlyargs, a.kw_defaults):
            if p.arg in kwargs:
                env.set(p.arg, kwargs.pop(p.arg))
            elif d is not None:
                env.set(p.arg, self.eval(d, Env(None), modname))
            else:
                raise PyRaise(ExcV("TypeError", tag=f"binding: missing kw argument {p.arg}"))
        if a.kwarg is not None:
            env.set(a.kwarg.arg, dict(kwargs))
        elif kwargs:
            raise PyRaise(ExcV("TypeError", tag=f"binding: unexpected keyword {list(kwargs)}"))
        if preset:
            for k, v in preset.items():
                env.set(k, v)
        fr = Frame(qual, modname, env)
        is_gen = any(isinstance(n, (ast.Yield, ast.YieldFrom)) for n in _walk_local(node))
        if is_gen:
            fr.yields = []
        self.frames.append(fr)
        self.depth += 1
        try:
            body = node.body if isinstance(node, ast.Lambda) else source.strip_doc(node.body)
            if isinstance(node, ast.Lambda):
                return self.eval(body, env, modname)
            try:
                self.exec_block(body, env, modname)
                rv = None
            except _Return as r:
                rv = r.v
            if is_gen:
                return self.world.generator_result(self, qual, fr.yields)
            return rv
        finally:
            self.depth -= 1
            self.frames.pop()

    # ---------------------------------------------------------------- statements
    def exec_block(self, stmts, env, mod):
        for st in stmts:
            self.exec_stmt(st, env, mod)

    def exec_stmt(self, st, env, mod):
        hook = self.world.stmt_hook
        if hook is not None:
            hook(self, st, env)
        m = getattr(self, "st_" + type(st).__name__, None)
        if m is None:
            raise OutOfSubset(f"statement {type(st).__name__} at line {st.lineno}")
        return m(st, env, mod)

    def st_Pass(self, st, env, mod):
        pass

    def st_Expr(self, st, env, mod):
        self.eval(st.value, env, mod)

    def st_Return(self, st, env, mod):
        raise _Return(None if st.value is None else self.eval(st.value, env, mod))

    def st_Break(self, st, env, mod):
        raise _Break()

    def st_Continue(self, st, env, mod):
        raise _Continue()

    def st_ImportFrom(self, st, env, mod):
        for a in st.names:
            env.set(a.asname or a.name, self.world.global_value(self, ("." * st.level + (st.module or "")).lstrip("."), a.name))

    def st_Assign(self, st, env, mod):
        v = self.eval(st.value, env, mod)
        for tgt in st.targets:
            self.assign(tgt, v, env, mod)

    def st_AnnAssign(self, st, env, mod):
        if st.value is not None:
            self.assign(st.target, self.eval(st.value, env, mod), env, mod)

    def st_AugAssign(self, st, env, mod):
        tgt = st.target
        if isinstance(tgt, ast.Name):
            cur = self.lookup(tgt.id, env, mod)
            new = self.binop(st.op, cur, self.eval(st.value, env, mod), inplace=True)
            env.set_nonlocal(tgt.id, new) if not _is_local(tgt.id, env) else env.set(tgt.id, new)
        elif isinstance(tgt, ast.Attribute):
            obj = self.eval(tgt.value, env, mod)
            cur = self.getattr(obj, tgt.attr)
            new = self.binop(st.op, cur, self.eval(st.value, env, mod), inplace=True)
            self.setattr(obj, tgt.attr, new)
        elif isinstance(tgt, ast.Subscript):
            obj = self.eval(tgt.value, env, mod)
            key = self.eval_slice(tgt.slice, env, mod)
            cur = self.getitem(obj, key)
            new = self.binop(st.op, cur, self.eval(st.value, env, mod), inplace=True)
            self.setitem(obj, key, new)
        else:
            raise OutOfSubset("augassign target")

    def assign(self, tgt, v, env, mod):
        if isinstance(tgt, ast.Name):
            env.set(tgt.id, v)
        elif isinstance(tgt, (ast.Tuple, ast.List)):
            star = [i for i, e in enumerate(tgt.elts) if isinstance(e, ast.Starred)]
            vals = self.unpack(v, len(tgt.elts) if not star else None)
            if star:
                si = star[0]
                n_after = len(tgt.elts) - si - 1
                if len(vals) < len(tgt.elts) - 1:
                    raise PyRaise(ExcV("ValueError", tag="not enough values to unpack"))
                for e, x in zip(tgt.elts[:si], vals[:si]):
                    self.assign(e, x, env, mod)
                self.assign(tgt.elts[si].value, list(vals[si: len(vals) - n_after]), env, mod)
                for e, x in zip(tgt.elts[si + 1:], vals[len(vals) - n_after:]):
                    self.assign(e, x, env, mod)
            else:
                for e, x in zip(tgt.elts, vals):
                    self.assign(e, x, env, mod)
        elif isinstance(tgt, ast.Attribute):
            self.setattr(self.eval(tgt.value, env, mod), tgt.attr, v)
        elif isinstance(tgt, ast.Subscript):
            self.setitem(self.eval(tgt.value, env, mod), self.eval_slice(tgt.slice, env, mod), v)
        else:
            raise OutOfSubset(f"assignment target {type(tgt).__name__}")

    def unpack(self, v, n):
        if isinstance(v, (tuple, list)):
            if n is not None and len(v) != n:
                raise PyRaise(ExcV("ValueError", tag="unpack length"))
            return list(v)
        if hasattr(v, "py_unpack"):
            return v.py_unpack(self, n)
        raise OutOfSubset(f"unpack of {v!r}")

    def st_Delete(self, st, env, mod):
        for tgt in st.targets:
            if isinstance(tgt, ast.Subscript):
                obj = self.eval(tgt.value, env, mod)
                key = self.eval_slice(tgt.slice, env, mod)
                if isinstance(obj, SymObj) and hasattr(obj, "py_delitem"):
                    obj.py_delitem(self, key)
                elif isinstance(obj, (dict, list)) and not isinstance(key, (ZV, SymObj)):
                    try:
                        del obj[key]
                    except (KeyError, IndexError) as e:
                        raise PyRaise(ExcV(type(e).__name__))
                else:
                    raise OutOfSubset("del of a subscript on this object")
            elif isinstance(tgt, ast.Name):
                if tgt.id in env.d:
                    del env.d[tgt.id]
                else:
                    raise OutOfSubset("del of a non-local name")
            else:
                raise OutOfSubset(f"del target {type(tgt).__name__}")

    def st_If(self, st, env, mod):
        c = self.truth(self.eval(st.test, env, mod))
        if self.branch(c):
            self.exec_block(st.body, env, mod)
        else:
            self.exec_block(st.orelse, env, mod)

    def st_Assert(self, st, env, mod):
        c = self.truth(self.eval(st.test, env, mod))
        if getattr(self.world, "asserts_raise", False):
            # the contract at hand speaks about the AssertionError as an outcome (default: an assert is an obligation)
            if not self.branch(c):
                raise PyRaise(ExcV("AssertionError"))
            return
        self.require(c, f"assert@{self._site(st)}")

    def st_Raise(self, st, env, mod):
        if st.exc is None:
            if getattr(self, "handling", None):
                raise PyRaise(self.handling[-1])  # re-raise the exception being handled
            raise OutOfSubset("bare raise outside an except block")
        v = self.eval(st.exc, env, mod)
        if isinstance(v, ExcClass):
            v = ExcV(v.name)
        if not isinstance(v, ExcV):
            v = self.world.as_exception(self, v)
        raise PyRaise(v)

    def st_Try(self, st, env, mod):
        if st.finalbody:
            try:
                self._try_core(st, env, mod)
            except (PyRaise, _Return, _Break, _Continue):
                self.exec_block(st.finalbody, env, mod)  # an exception raised by the finally block replaces the pending one
                raise
            self.exec_block(st.finalbody, env, mod)
            return
        self._try_core(st, env, mod)

    def _try_core(self, st, env, mod):
        try:
            self.exec_block(st.body, env, mod)
        except PyRaise as e:
            for h in st.handlers:
                names = []
                if h.type is None:
                    names = ["BaseException"]
                elif isinstance(h.type, ast.Tuple):
                    names = [self._excname(x, env, mod) for x in h.type.elts]
                else:
                    names = [self._excname(h.type, env, mod)]
                if any(exc_matches(e.exc, n) for n in names):
                    if h.name:
                        env.set(h.name, e.exc)
                    if not hasattr(self, "handling"):
                        self.handling = []
                    self.handling.append(e.exc)
                    try:
                        self.exec_block(h.body, env, mod)
                    finally:
                        self.handling.pop()
                    return
            raise
        else:
            self.exec_block(st.orelse, env, mod)

    def _excname(self, node, env, mod):
        v = self.eval(node, env, mod)
        if isinstance(v, ExcClass):
            return v.name
        raise OutOfSubset("except clause type")

    def st_FunctionDef(self, st, env, mod):
        fr = self.frames[-1] if self.frames else None
        qual = (fr.qual + "." if fr else mod + ":") + st.name
        env.set(st.name, Closure(st, env, mod, qual))

    def st_Global(self, st, env, mod):
        raise OutOfSubset("global statement")

    def st_Nonlocal(self, st, env, mod):
        pass  # set_nonlocal is used for AugAssign; plain assignment to nonlocal names not needed so far

    def _site(self, node):
        # stable site id: ordinal of this node among nodes of the same type in its function
        fr = self.frames[-1] if self.frames else None
        if fr is None:
            return str(getattr(node, "lineno", 0))
        try:
            fn = source.function(fr.qual)
        except Exception:
            return str(getattr(node, "lineno", 0))
        k = 0
        for n in ast.walk(fn):
            if type(n) is type(node):
                if n is node:
                    return str(k)
                k += 1
        return str(getattr(node, "lineno", 0))

    # ---------------------------------------------------------------- loops
    def _loop_spec(self, node):
        fr = self.frames[-1]
        try:
            fn = source.function(fr.qual)
        except source.AnchorMissing:
            return None, None
        # loops that are spelled-out comprehensions (see _summarise_loop) need no invariant and are not counted: inserting or
        # removing one does not move the anchors of the others
        ls = [n for n in source.loops(fn) if not self._summarisable(n)]
        for i, n in enumerate(ls):
            if n is node:
                return self.world.loop_spec(self, fr.qual, i), i
        return None, None

    def _summarisable(self, st):
        """syntactic part of _summarise_loop"""
        if not isinstance(st, ast.For) or st.orelse:
            return False
        body = list(st.body)
        n_assign = 0
        while body and isinstance(body[0], ast.Assign) and len(body[0].targets) == 1 and isinstance(body[0].targets[0], ast.Name):
            body.pop(0)
            n_assign += 1
        if n_assign > 1 or len(body) != 1:
            return False
        stmt = body[0]
        inner = list(stmt.body) if (isinstance(stmt, ast.If) and not stmt.orelse) else [stmt]
        is_if = isinstance(stmt, ast.If) and not stmt.orelse
        if is_if and len(inner) == 1 and isinstance(inner[0], ast.Return):
            return True
        if is_if and inner and isinstance(inner[0], ast.Assign) and len(inner[0].targets) == 1 and isinstance(inner[0].targets[0], ast.Name) and (len(inner) == 1 or (len(inner) == 2 and isinstance(inner[1], ast.Break))):
            return True
        if len(inner) == 1 and isinstance(inner[0], ast.Expr) and isinstance(inner[0].value, ast.Call):
            c = inner[0].value
            return isinstance(c.func, ast.Attribute) and c.func.attr == "append" and isinstance(c.func.value, ast.Name) and len(c.args) == 1 and not c.keywords
        return False

    def _assigned_names(self, body):
        names = []
        for st in body:
            for n in _walk_local(st):
                if isinstance(n, ast.Name) and isinstance(n.ctx, ast.Store) and n.id not in names:
                    names.append(n.id)
        return names

    def _havoc(self, spec, node, env, tag):
        names = self._assigned_names(node.body)
        if isinstance(node, ast.For):
            for n in ast.walk(node.target):
                if isinstance(n, ast.Name) and n.id in names:
                    names.remove(n.id)
        for nm in list(names) + [m for m in spec.modifies if m not in names]:
            if nm in spec.skip_names:
                continue
            if nm in spec.havoc:
                env.set_nonlocal(nm, spec.havoc[nm](self, env))
            elif env.has(nm):
                env.set_nonlocal(nm, self.fresh_like(env.get(nm), f"{nm}_{tag}"))

    def st_For(self, st, env, mod):
        it = self.eval(st.iter, env, mod)
        seq = self.iterable(it)
        if isinstance(seq, list):
            for x in seq:
                self.assign(st.target, x, env, mod)
                try:
                    self.exec_block(st.body, env, mod)
                except _Break:
                    return
                except _Continue:
                    continue
            self.exec_block(st.orelse, env, mod)
            return
        # symbolic iteration: needs an invariant
        if self._summarisable(st) and self._summarise_loop(st, env, mod):
            return
        spec, ordinal = self._loop_spec(st)
        if spec is None:
            raise OutOfSubset(f"loop over symbolic collection without invariant ({self.frames[-1].qual} loop {ordinal})")
        if not isinstance(seq, Stream):
            raise OutOfSubset("for over unsupported iterable")
        seq = seq.consume()
        if seq.guards:
            seq = self.world.materialize(self, seq).stream(self)
        tag = f"loop{ordinal}"
        fn = self.frames[-1].qual
        self.require(spec.invariant(self, env, ZV(z3.IntVal(0), "int"), seq), f"{tag}.inv_init", fn=fn)
        alt = self.choose(2)
        self._havoc(spec, st, env, tag)
        if alt == 0:
            k = self.fresh(f"k_{tag}", z3.IntSort())
            self.assume(z3.And(k >= 0, k < seq.length))
            self.assume(spec.invariant(self, env, ZV(k, "int"), seq))
            self.assign(st.target, seq.elem(k), env, mod)
            try:
                self.exec_block(st.body, env, mod)
            except _Continue:
                pass
            except _Break:
                return
            self.require(spec.invariant(self, env, ZV(k + 1, "int"), seq), f"{tag}.inv_preserved", fn=fn)
            raise PathEnd("loop body done")
        else:
            self.assume(spec.invariant(self, env, ZV(seq.length, "int"), seq))
            if not self.feasible(z3.BoolVal(True)):
                raise PathEnd("the loop cannot end without a break on this path")
            self.exec_block(st.orelse, env, mod)

    def _summarise_loop(self, st, env, mod):
        """Loops that are spelled-out comprehensions need no invariant: they are executed as the comprehension they stand for
        (the body's tests must be pure, exactly as inside a comprehension - anything else leaves the subset).
            for x in it: [v = e;] if c: return K            ==  if any(c for x in it): return K        (K independent of x, v)
            for x in it: [v = e;] if c: flag = K [; break]  ==  if any(c for x in it): flag = K
            for x in it: [v = e;] [if c:] acc.append(r)     ==  acc = [r for x in it if c]             (acc == [] before the loop)
        """
        if st.orelse:
            return False
        body = list(st.body)
        assigns = []
        while body and isinstance(body[0], ast.Assign) and len(body[0].targets) == 1 and isinstance(body[0].targets[0], ast.Name):
            assigns.append(body.pop(0))
        if len(assigns) > 1 or len(body) != 1:
            return False
        loopvars = {n.id for n in ast.walk(st.target) if isinstance(n, ast.Name)} | {a.targets[0].id for a in assigns}

        def free_of_loopvars(e):
            return not any(isinstance(n, ast.Name) and n.id in loopvars for n in ast.walk(e))

        def with_walrus(cond):
            """the test with the first use of the assigned local replaced by (local := its expression)"""
            if not assigns:
                return cond
            name, expr = assigns[0].targets[0].id, assigns[0].value
            done = [False]

            class R(ast.NodeTransformer):
                def visit_Name(self, n):
                    if n.id == name and isinstance(n.ctx, ast.Load) and not done[0]:
                        done[0] = True
                        return ast.NamedExpr(target=ast.Name(id=name, ctx=ast.Store()), value=expr)
                    return n

            import copy

            out = R().visit(copy.deepcopy(cond))
            return out if done[0] else None

        def quantified(cond):
            gen = ast.GeneratorExp(elt=cond, generators=[ast.comprehension(target=st.target, iter=st.iter, ifs=[], is_async=0)])
            call = ast.Call(func=ast.Name(id="any", ctx=ast.Load()), args=[gen], keywords=[])
            return ast.fix_missing_locations(ast.copy_location(call, st))

        stmt = body[0]
        cond = None
        if isinstance(stmt, ast.If) and not stmt.orelse:
            cond = with_walrus(stmt.test)
            if cond is None:
                return False
            inner = list(stmt.body)
        else:
            inner = [stmt]
        # search loop / flag loop
        if cond is not None and len(inner) == 1 and isinstance(inner[0], ast.Return) and (inner[0].value is None or free_of_loopvars(inner[0].value)):
            if self.branch(self.truth(self.eval(quantified(cond), env, mod))):
                raise _Return(None if inner[0].value is None else self.eval(inner[0].value, env, mod))
            return True
        if cond is not None and inner and isinstance(inner[0], ast.Assign) and len(inner[0].targets) == 1 and isinstance(inner[0].targets[0], ast.Name) and free_of_loopvars(inner[0].value) and inner[0].targets[0].id not in loopvars and (len(inner) == 1 or (len(inner) == 2 and isinstance(inner[1], ast.Break))):
            if self.branch(self.truth(self.eval(quantified(cond), env, mod))):
                self.assign(inner[0].targets[0], self.eval(inner[0].value, env, mod), env, mod)
            return True
        # collecting loop
        if len(inner) == 1 and isinstance(inner[0], ast.Expr) and isinstance(inner[0].value, ast.Call):
            c = inner[0].value
            if isinstance(c.func, ast.Attribute) and c.func.attr == "append" and isinstance(c.func.value, ast.Name) and len(c.args) == 1 and not c.keywords and c.func.value.id not in loopvars:
                acc = c.func.value.id
                if not (env.has(acc) and isinstance(env.get(acc), list) and not env.get(acc)):
                    return False
                elt = c.args[0]
                if cond is None and assigns:
                    elt = with_walrus(elt)
                    if elt is None:
                        return False
                comp = ast.ListComp(elt=elt, generators=[ast.comprehension(target=st.target, iter=st.iter, ifs=[cond] if cond is not None else [], is_async=0)])
                comp = ast.fix_missing_locations(ast.copy_location(comp, st))
                env.set_nonlocal(acc, self.eval(comp, env, mod))
                return True
        return False

    def st_While(self, st, env, mod):
        spec, ordinal = self._loop_spec(st)
        if spec is None:
            # unwind concretely while the guard is concrete
            n = 0
            while True:
                c = self.truth(self.eval(st.test, env, mod))
                if not isinstance(c, bool):
                    raise OutOfSubset(f"while loop with symbolic guard and no invariant ({self.frames[-1].qual} loop {ordinal})")
                if not c:
                    break
                n += 1
                if n > 64:
                    raise OutOfSubset("while unwinding limit")
                try:
                    self.exec_block(st.body, env, mod)
                except _Break:
                    return
                except _Continue:
                    continue
            self.exec_block(st.orelse, env, mod)
            return
        tag = f"loop{ordinal}"
        fn = self.frames[-1].qual
        self.require(spec.invariant(self, env, None, None), f"{tag}.inv_init", fn=fn)
        alt = self.choose(2)
        self._havoc(spec, st, env, tag)
        self.assume(spec.invariant(self, env, None, None))
        c = self.truth(self.eval(st.test, env, mod))
        if alt == 0:
            self.assume(c)
            v0 = spec.variant(self, env) if spec.variant else None
            try:
                self.exec_block(st.body, env, mod)
            except _Continue:
                pass
            except _Break:
                return
            self.require(spec.invariant(self, env, None, None), f"{tag}.inv_preserved", fn=fn)
            if v0 is not None:
                v1 = spec.variant(self, env)
                self.require(z3.And(v0 >= 0, v1 < v0), f"{tag}.variant_decreases", fn=fn)
            raise PathEnd("loop body done")
        else:
            self.assume(self.neg(c))
            self.exec_block(st.orelse, env, mod)

    def iterable(self, it):
        """Normalise an iterable value to a Python list (concrete length) or a Stream (symbolic)."""
        if isinstance(it, (list, tuple)):
            return list(it)
        if isinstance(it, (set, frozenset)):
            return list(it)
        if isinstance(it, dict):
            return list(it.keys())
        import collections.abc as _abc

        if isinstance(it, _abc.Mapping):
            return list(it.keys())
        if isinstance(it, Stream):
            return it
        if isinstance(it, (SymObj, ZV)) and hasattr(it, "py_iter"):
            r = it.py_iter(self)
            if isinstance(r, (list, tuple)):
                return list(r)
            return r
        if isinstance(it, str):
            return list(it)
        raise OutOfSubset(f"iteration over {it!r}")

    # ---------------------------------------------------------------- expressions
    def eval(self, e, env, mod):
        m = getattr(self, "ex_" + type(e).__name__, None)
        if m is None:
            raise OutOfSubset(f"expression {type(e).__name__} at line {getattr(e, 'lineno', '?')}")
        return m(e, env, mod)

    def lookup(self, name, env, mod):
        try:
            return env.get(name)
        except KeyError:
            pass
        return self.world.global_value(self, mod, name)

    def ex_Name(self, e, env, mod):
        return self.lookup(e.id, env, mod)

    def ex_Constant(self, e, env, mod):
        if e.value is Ellipsis:
            raise OutOfSubset("Ellipsis")
        return e.value

    def ex_Tuple(self, e, env, mod):
        elts = self._elts(e.elts, env, mod)
        if any(isinstance(x, StarV) for x in elts):
            return self.world.build_tuple(self, elts)
        return tuple(elts)

    def ex_List(self, e, env, mod):
        return list(self._elts(e.elts, env, mod))

    def ex_Set(self, e, env, mod):
        elts = self._elts(e.elts, env, mod)
        return self.world.make_set(self, elts)

    def ex_Dict(self, e, env, mod):
        if not e.keys:
            return self.world.empty_dict(self)
        d = {}
        for k, v in zip(e.keys, e.values):
            if k is None:
                x = self.eval(v, env, mod)
                if not isinstance(x, dict):
                    raise OutOfSubset("** of non-concrete dict")
                d.update(x)
            else:
                kk = self.eval(k, env, mod)
                if isinstance(kk, (ZV, SymObj)):
                    return self.world.make_dict(self, [(self.eval(k2, env, mod), self.eval(v2, env, mod)) for k2, v2 in zip(e.keys, e.values)])
                d[kk] = self.eval(v, env, mod)
        return d

    def _elts(self, elts, env, mod):
        out = []
        for x in elts:
            if isinstance(x, ast.Starred):
                sv = self.eval(x.value, env, mod)
                if hasattr(sv, "py_star"):
                    out.append(StarV(sv))
                    continue
                v = self.iterable(sv)
                if not isinstance(v, list):
                    raise OutOfSubset("starred symbolic sequence")
                out.extend(v)
            else:
                out.append(self.eval(x, env, mod))
        return out

    def ex_Attribute(self, e, env, mod):
        return self.getattr(self.eval(e.value, env, mod), e.attr)

    def getattr(self, obj, name):
        if isinstance(obj, (ZV, SymObj)):
            if hasattr(obj, "py_getattr"):
                return obj.py_getattr(self, name)
            raise OutOfSubset(f"attribute {name} of {obj!r}")
        r = self.world.concrete_attr(self, obj, name)
        if r is not None:
            return r
        raise OutOfSubset(f"attribute {name} of concrete {type(obj).__name__}")

    def setattr(self, obj, name, v):
        if isinstance(obj, SymObj) and hasattr(obj, "py_setattr"):
            return obj.py_setattr(self, name, v)
        raise OutOfSubset(f"setattr {name} on {obj!r}")

    def hasattr_(self, obj, name):
        if isinstance(obj, (ZV, SymObj)) and hasattr(obj, "py_hasattr"):
            return obj.py_hasattr(self, name)
        if isinstance(obj, (tuple, list, dict, str, int, float, bool, set, frozenset)) or obj is None:
            return hasattr(obj, name)  # concrete Python containers / scalars
        raise OutOfSubset(f"hasattr({obj!r}, {name})")

    def ex_Subscript(self, e, env, mod):
        obj = self.eval(e.value, env, mod)
        key = self.eval_slice(e.slice, env, mod)
        return self.getitem(obj, key)

    def eval_slice(self, s, env, mod):
        if isinstance(s, ast.Slice):
            return slice(
                None if s.lower is None else self.eval(s.lower, env, mod),
                None if s.upper is None else self.eval(s.upper, env, mod),
                None if s.step is None else self.eval(s.step, env, mod),
            )
        return self.eval(s, env, mod)

    def getitem(self, obj, key):
        if isinstance(obj, (ZV, SymObj)):
            if hasattr(obj, "py_getitem"):
                return obj.py_getitem(self, key)
            raise OutOfSubset(f"subscript of {obj!r}")
        if isinstance(obj, (list, tuple, str)):
            if isinstance(key, slice):
                parts = [key.start, key.stop, key.step]
                if all(p is None or isinstance(p, int) for p in parts):
                    return obj[key]
                # symbolic slice bound on a concrete list: enumerate feasible concrete values
                cs = []
                for p in parts:
                    cs.append(p if (p is None or isinstance(p, int)) else self.concretize_int(p, -len(obj) - 1, len(obj) + 1))
                return obj[slice(*cs)]
            if isinstance(key, ZV):
                key = self.concretize_int(key, -len(obj), len(obj) - 1, exc="IndexError")
            if isinstance(key, int) and not isinstance(key, bool) or isinstance(key, bool):
                try:
                    return obj[key]
                except IndexError:
                    raise PyRaise(ExcV("IndexError"))
        if isinstance(obj, dict):
            if isinstance(key, (ZV, SymObj)) and not _hashable_concrete(key):
                raise OutOfSubset("symbolic key into concrete dict")
            if key in obj:
                return obj[key]
            raise PyRaise(ExcV("KeyError", (key,)))
        raise OutOfSubset(f"subscript of {type(obj).__name__}")

    def concretize_int(self, v, lo, hi, exc=None):
        """Case-split a symbolic int over [lo, hi] (used for small concrete containers)."""
        t = self.int_term(v)
        s = z3.simplify(t)
        if z3.is_int_value(s):
            return s.as_long()
        for c in range(lo, hi + 1):
            if self.branch(t == c):
                return c
        if exc:
            raise PyRaise(ExcV(exc))
        raise PathEnd("index outside the modelled range")

    def setitem(self, obj, key, v):
        if isinstance(obj, SymObj) and hasattr(obj, "py_setitem"):
            return obj.py_setitem(self, key, v)
        if isinstance(obj, dict):
            if isinstance(key, (ZV, SymObj)) and not _hashable_concrete(key):
                raise OutOfSubset("symbolic key into concrete dict")
            obj[key] = v
            return
        if isinstance(obj, list) and isinstance(key, int):
            obj[key] = v
            return
        raise OutOfSubset(f"setitem on {obj!r}")

    def ex_NamedExpr(self, e, env, mod):
        v = self.eval(e.value, env, mod)
        # PEP 572: binds in the enclosing function scope even inside comprehensions
        tgt = env
        while getattr(tgt, "is_comp", False) and tgt.parent is not None:
            tgt = tgt.parent
        tgt.set(e.target.id, v)
        if tgt is not env:
            env.set(e.target.id, v)
        return v

    def ex_IfExp(self, e, env, mod):
        c = self.truth(self.eval(e.test, env, mod))
        if isinstance(c, bool):
            return self.eval(e.body if c else e.orelse, env, mod)
        if self.pure:
            a = self.eval(e.body, env, mod)
            b = self.eval(e.orelse, env, mod)
            return self.merge(c, a, b)
        if self.branch(c):
            return self.eval(e.body, env, mod)
        return self.eval(e.orelse, env, mod)

    def merge(self, c, a, b):
        if isinstance(a, ZV) and isinstance(b, ZV) and a.t.sort() == b.t.sort():
            return a.with_term(z3.If(c, a.t, b.t))
        if isinstance(a, (ZV, int, bool)) and isinstance(b, (ZV, int, bool)):
            ta, tb = self.term(a), self.term(b)
            if ta.sort() == tb.sort():
                k = a.k if isinstance(a, ZV) else b.k if isinstance(b, ZV) else ("bool" if isinstance(a, bool) else "int")
                return ZV(z3.If(c, ta, tb), k)
        r = self.world.merge(self, c, a, b)
        if r is None:
            raise OutOfSubset(f"cannot merge {a!r} / {b!r}")
        return r

    def ex_BoolOp(self, e, env, mod):
        is_and = isinstance(e.op, ast.And)
        vals = e.values
        v = self.eval(vals[0], env, mod)
        for nxt in vals[1:]:
            t = self.truth(v)
            if isinstance(t, bool):
                if t != is_and:
                    return v
                v = self.eval(nxt, env, mod)
                continue
            if self.pure or _pure_expr(nxt):
                w = self.eval(nxt, env, mod)
                tw = self.truth(w)
                tb = tw if not isinstance(tw, bool) else z3.BoolVal(tw)
                v = ZV(z3.And(t, tb) if is_and else z3.Or(t, tb), "bool") if _boolish(v) and _boolish(w) else self._boolop_general(is_and, t, v, w)
                continue
            if self.branch(t) != is_and:
                return v
            v = self.eval(nxt, env, mod)
        return v

    def _boolop_general(self, is_and, t, v, w):
        # value-level semantics: (v if not truth(v) else w) for and
        try:
            return self.merge(t, w, v) if is_and else self.merge(t, v, w)
        except OutOfSubset:
            tw = self.truth(w)
            tb = tw if not isinstance(tw, bool) else z3.BoolVal(tw)
            return ZV(z3.And(t, tb) if is_and else z3.Or(t, tb), "bool")

    def ex_UnaryOp(self, e, env, mod):
        v = self.eval(e.operand, env, mod)
        if isinstance(e.op, ast.Not):
            return self.boolval(self.neg(self.truth(v)))
        if isinstance(e.op, ast.USub):
            if isinstance(v, ZV):
                return ZV(-v.t, v.k)
            return -v
        raise OutOfSubset("unary op")

    def ex_BinOp(self, e, env, mod):
        return self.binop(e.op, self.eval(e.left, env, mod), self.eval(e.right, env, mod))

    def binop(self, op, a, b, inplace=False):
        if isinstance(a, SymObj) and hasattr(a, "py_binop"):
            r = a.py_binop(self, op, b, inplace)
            if r is not NotImplemented:
                return r
        if isinstance(b, SymObj) and hasattr(b, "py_rbinop"):
            r = b.py_rbinop(self, op, a)
            if r is not NotImplemented:
                return r
        num = lambda x: isinstance(x, (int, float)) or (isinstance(x, ZV) and x.k in ("int", "real", "bool"))
        if num(a) and num(b) and (isinstance(a, ZV) or isinstance(b, ZV)):
            ta = self.int_term(a) if not (isinstance(a, ZV) and a.k == "real") and not isinstance(a, float) else self.term(a)
            tb = self.int_term(b) if not (isinstance(b, ZV) and b.k == "real") and not isinstance(b, float) else self.term(b)
            k = "real" if (ta.sort() == z3.RealSort() or tb.sort() == z3.RealSort()) else "int"
            if isinstance(op, ast.Add):
                return ZV(ta + tb, k)
            if isinstance(op, ast.Sub):
                return ZV(ta - tb, k)
            if isinstance(op, ast.Mult):
                return ZV(ta * tb, k)
            raise OutOfSubset(f"arithmetic {type(op).__name__}")
        if isinstance(a, (ZV, SymObj)) or isinstance(b, (ZV, SymObj)):
            r = self.world.binop(self, op, a, b)
            if r is None:
                raise OutOfSubset(f"binop {type(op).__name__} on {a!r}, {b!r}")
            return r
        import operator as o

        table = {ast.Add: o.add, ast.Sub: o.sub, ast.Mult: o.mul, ast.BitAnd: o.and_, ast.BitOr: o.or_, ast.BitXor: o.xor, ast.Mod: o.mod, ast.FloorDiv: o.floordiv}
        if type(op) not in table:
            raise OutOfSubset(f"binop {type(op).__name__}")
        if isinstance(a, (set, frozenset, dict, list)) and any(isinstance(x, (ZV, SymObj)) for x in list(a) + list(b) if True):
            r = self.world.binop(self, op, a, b)
            if r is not None:
                return r
        if inplace and isinstance(a, list) and isinstance(op, ast.Add):
            a.extend(b)
            return a
        return table[type(op)](a, b)

    def ex_Compare(self, e, env, mod):
        left = self.eval(e.left, env, mod)
        parts = []
        for op, rn in zip(e.ops, e.comparators):
            right = self.eval(rn, env, mod)
            parts.append(self.compare(op, left, right))
            left = right
        return self.boolval(self.conj(parts))

    def compare(self, op, a, b):
        if isinstance(op, ast.Eq):
            return self.eq(a, b)
        if isinstance(op, ast.NotEq):
            return self.neg(self.eq(a, b))
        if isinstance(op, ast.Is):
            return self.is_(a, b)
        if isinstance(op, ast.IsNot):
            return self.neg(self.is_(a, b))
        if isinstance(op, ast.In):
            return self.contains(b, a)
        if isinstance(op, ast.NotIn):
            return self.neg(self.contains(b, a))
        if isinstance(a, (SymObj, ZV)) and hasattr(a, "py_compare"):
            r = a.py_compare(self, op, b)
            if r is not NotImplemented:
                return r
        inf = float("inf")
        if b == inf if isinstance(b, float) else False:
            return {ast.Lt: True, ast.LtE: True, ast.Gt: False, ast.GtE: False}[type(op)]
        num = lambda x: (isinstance(x, (int, float)) and not isinstance(x, bool)) or isinstance(x, bool) or (isinstance(x, ZV) and x.k in ("int", "real", "bool"))
        if num(a) and num(b):
            if not isinstance(a, ZV) and not isinstance(b, ZV):
                import operator as o

                return {ast.Lt: o.lt, ast.LtE: o.le, ast.Gt: o.gt, ast.GtE: o.ge}[type(op)](a, b)
            ta = self.term(a) if not (isinstance(a, ZV) and a.k == "bool") else self.int_term(a)
            tb = self.term(b) if not (isinstance(b, ZV) and b.k == "bool") else self.int_term(b)
            if isinstance(a, bool):
                ta = z3.IntVal(int(a))
            if isinstance(b, bool):
                tb = z3.IntVal(int(b))
            if isinstance(op, ast.Lt):
                return ta < tb
            if isinstance(op, ast.LtE):
                return ta <= tb
            if isinstance(op, ast.Gt):
                return ta > tb
            if isinstance(op, ast.GtE):
                return ta >= tb
        r = self.world.compare(self, op, a, b)
        if r is None:
            raise OutOfSubset(f"compare {type(op).__name__} on {a!r}, {b!r}")
        return r

    def contains(self, coll, x):
        if isinstance(coll, (SymObj, ZV)) and hasattr(coll, "py_contains"):
            return coll.py_contains(self, x)
        if isinstance(coll, (list, tuple, set, frozenset)):
            return self.disj([self.eq(x, y) for y in coll])
        if isinstance(coll, dict):
            return self.disj([self.eq(x, y) for y in coll.keys()])
        raise OutOfSubset(f"membership in {coll!r}")

    def ex_Call(self, e, env, mod):
        if isinstance(e.func, ast.Name) and e.func.id == "super" and not e.args and not e.keywords and self.frames:
            fr = self.frames[-1]
            fnode = None
            try:
                m_, q_ = fr.qual.split(":")
                fnode = source.module(m_).functions.get(q_)
            except Exception:
                fnode = None
            if fnode is not None and fnode.args.args:
                return self.world.super_of(self, fr.env.get(fnode.args.args[0].arg), fr.qual)
            raise OutOfSubset("super() outside a method")
        fn = self.eval(e.func, env, mod)
        args = self._elts(e.args, env, mod)
        kwargs = {}
        for kw in e.keywords:
            if kw.arg is None:
                d = self.eval(kw.value, env, mod)
                if not isinstance(d, dict):
                    raise OutOfSubset("** of symbolic mapping")
                kwargs.update(d)
            else:
                kwargs[kw.arg] = self.eval(kw.value, env, mod)
        return self.call(fn, args, kwargs)

    def call(self, fn, args, kwargs=None):
        kwargs = kwargs or {}
        if isinstance(fn, SymObj) and hasattr(fn, "py_call"):
            return fn.py_call(self, args, kwargs)
        if isinstance(fn, ZV) and hasattr(fn, "py_call"):
            return fn.py_call(self, args, kwargs)
        raise OutOfSubset(f"call of {fn!r}")

    def ex_Lambda(self, e, env, mod):
        fr = self.frames[-1] if self.frames else None
        return Closure(e, env, mod, (fr.qual if fr else mod) + ".<lambda>")

    def ex_JoinedStr(self, e, env, mod):
        return self.world.fstring(self, e, env, mod)

    def ex_Yield(self, e, env, mod):
        fr = self.frames[-1]
        v = None if e.value is None else self.eval(e.value, env, mod)
        self.world.on_yield(self, fr, v)
        return None

    def ex_YieldFrom(self, e, env, mod):
        fr = self.frames[-1]
        v = self.eval(e.value, env, mod)
        seq = self.iterable(v) if v is not None else []
        if not isinstance(seq, list):
            raise OutOfSubset("yield from symbolic")
        for x in seq:
            self.world.on_yield(self, fr, x)
        return None

    # comprehensions ------------------------------------------------------------------------
    def _comp(self, e, env, mod, elt_fn):
        """Evaluate a comprehension; returns a Python list (concrete sources) or a Stream."""
        gens = e.generators
        if len(gens) != 1:
            return self._comp_concrete(e, gens, env, mod, elt_fn)
        g = gens[0]
        src = self.iterable(self.eval(g.iter, env, mod))
        if isinstance(src, list):
            return self._comp_concrete(e, gens, env, mod, elt_fn, first=src)
        src = src.consume()  # a comprehension exhausts a one-shot iterator it draws from
        # symbolic source: build a Stream in pure mode, indexed by the source index
        cenv = Env(env)
        cenv.is_comp = True
        walrus = {}

        def at(i):
            ce = Env(env)
            ce.is_comp = True
            ce.walrus_sink = walrus
            self.assign(g.target, src.elem(i), ce, mod)
            return ce

        def guard_i(i):
            ce = at(i)
            self.pure += 1
            try:
                cs = [self.truth(self.eval(c, ce, mod)) for c in g.ifs]
            finally:
                self.pure -= 1
            return self.term(self.boolval(self.conj(cs))) if cs else z3.BoolVal(True)

        def elem_i(i):
            ce = at(i)
            self.pure += 1
            try:
                for c in g.ifs:  # re-evaluate filters for walrus bindings
                    self.eval(c, ce, mod)
                return elt_fn(ce)
            finally:
                self.pure -= 1

        guards = list(src.guards) + ([guard_i] if g.ifs else [])
        st = Stream(src.length, None, guards, elem_i)
        if hasattr(src, "src"):
            st.src = src.src  # same index space as the source: keeps the inverse index of a duplicate-free source reachable
        return st

    def _comp_concrete(self, e, gens, env, mod, elt_fn, first=None):
        out = []

        def rec(gi, cenv):
            if gi == len(gens):
                out.append(elt_fn(cenv))
                return
            g = gens[gi]
            src = first if (gi == 0 and first is not None) else self.iterable(self.eval(g.iter, cenv, mod))
            if not isinstance(src, list):
                raise OutOfSubset("nested comprehension over symbolic source")
            for x in src:
                ce = Env(cenv)
                ce.is_comp = True
                self.assign(g.target, x, ce, mod)
                ok = True
                for c in g.ifs:
                    if not self.branch(self.truth(self.eval(c, ce, mod))):
                        ok = False
                        break
                if ok:
                    rec(gi + 1, ce)

        rec(0, env)
        return out

    def ex_ListComp(self, e, env, mod):
        r = self._comp(e, env, mod, lambda ce: self.eval(e.elt, ce, mod))
        return r

    def ex_GeneratorExp(self, e, env, mod):
        r = self._comp(e, env, mod, lambda ce: self.eval(e.elt, ce, mod))
        if isinstance(r, Stream):
            r.oneshot = True
        elif isinstance(r, list):
            r = OneShotList(r)
        return r

    def ex_SetComp(self, e, env, mod):
        r = self._comp(e, env, mod, lambda ce: self.eval(e.elt, ce, mod))
        return self.world.make_set(self, r)

    def ex_DictComp(self, e, env, mod):
        r = self._comp(e, env, mod, lambda ce: (self.eval(e.key, ce, mod), self.eval(e.value, ce, mod)))
        return self.world.make_dict(self, r)


def _walk_local(node):
    """ast.walk that does not descend into nested function definitions / lambdas (other scopes)."""
    stack = [node]
    first = True
    while stack:
        n = stack.pop()
        yield n
        for c in ast.iter_child_nodes(n):
            if isinstance(c, (ast.FunctionDef, ast.Lambda, ast.ClassDef)) and not (first and False):
                continue
            stack.append(c)
        first = False


def _is_local(name, env):
    return name in env.d


def _hashable_concrete(k):
    """Symbolic objects whose *identity* is concrete (bounded mode: a fixed set of distinct handler objects)."""
    return getattr(k, "concrete_identity", False)


def _boolish(v):
    return isinstance(v, bool) or (isinstance(v, ZV) and v.k == "bool")


def _pure_expr(node):
    """Syntactically side-effect-free and exception-free: names, constants, comparisons, not, bool ops, and
    attributes of the module-level enum/namespace objects only (attribute access on arbitrary objects may raise)."""
    for n in ast.walk(node):
        if isinstance(n, (ast.Call, ast.NamedExpr, ast.Yield, ast.YieldFrom, ast.Await, ast.Subscript, ast.ListComp, ast.GeneratorExp, ast.SetComp, ast.DictComp, ast.Lambda)):
            return False
        if isinstance(n, ast.Attribute) and not (isinstance(n.value, ast.Name) and n.value.id in ("Order", "inspect", "math")):
            return False
    return True
