"""Task layer: run one verification unit (a function against its contract, or a lemma harness over
contracts) and return plain-data results, so that units can be farmed out to a process pool."""
import ast
import time
import traceback

import z3

from . import source
from .interp import ASSUMPTIONS, Interp, OutOfSubset, PathEnd, PyRaise, ZV


class TaskResult:
    def __init__(self, name):
        self.name = name
        self.obligations = []  # dicts
        self.status = "ok"  # ok | undecided | error
        self.detail = ""
        self.paths = 0
        self.solver_s = 0.0
        self.wall_s = 0.0
        self.functions = []  # repo functions whose AST was executed (with sha)
        self.trusted = []
        self.cover = None  # premises satisfiable?
        self.mode = "U"
        self.meta = {}

    def to_dict(self):
        return self.__dict__


def _collect(I, res):
    for ob in I.obligations:
        res.obligations.append(
            dict(name=ob.name, status=ob.status, time=round(ob.time, 4), model=ob.model, note=ob.note, path="".join(map(str, ob.path)), goal=str(ob.goal)[:300])
        )
    res.paths = len(I.paths)
    res.solver_s = round(I.solver_time, 3)


class Tracking:
    """Records which repository functions were symbolically executed."""

    def __init__(self):
        self.seen = {}


def run_task(name, build, mode="U"):
    """build() -> (world, thunk(I), meta).  Executes thunk on every path."""
    res = TaskResult(name)
    res.mode = mode
    t0 = time.time()
    try:
        source.reset()
        world, thunk, meta = build()
        res.meta = meta or {}
        I = Interp(world, timeout_ms=int(res.meta.get("timeout_ms", 20000)))
        I.fail_fast = bool(res.meta.get("fail_fast", False))
        import os

        if os.environ.get("VERIF_XCHECK"):
            I.xcheck = external_backends
        I.retry_factor = int(res.meta.get("retry_factor", 2))
        executed = {}
        orig = I.exec_function

        def tracking_exec(node, modname, qual, *a, **k):
            if ":" in qual and not qual.startswith("harness"):
                try:
                    executed[qual] = source.fn_sha(qual)
                except Exception:
                    pass
            return orig(node, modname, qual, *a, **k)

        I.exec_function = tracking_exec
        paths = I.explore(thunk, name)
        _collect(I, res)
        res.functions = sorted(executed.items())
        res.trusted = sorted(set(world.trusted))
        outcomes = {}
        for p in paths:
            outcomes[p.outcome[0]] = outcomes.get(p.outcome[0], 0) + 1
        res.meta["outcomes"] = outcomes
        if I.xresults:
            tally, disagree = {}, []
            for nm, ans in I.xresults:
                for be, a in ans.items():
                    tally.setdefault(be, {}).setdefault(a, 0)
                    tally[be][a] += 1
                    if a == "sat":
                        disagree.append(f"{nm}: {be} answers sat where z3-{z3.get_version_string()} proved unsat")
            res.meta["xcheck"] = tally
            if disagree:
                res.status = "error"
                res.detail = "back ends disagree: " + "; ".join(disagree[:5])
        # vacuity guard: at least one path must reach the end with satisfiable premises
        live = [p for p in paths if p.outcome[0] in ("return", "raise") or (p.outcome[0] == "stop" and "loop body done" in p.outcome[1])]
        res.cover = bool(live)
        res.meta["stopped_early"] = I.stopped
        # premises must be satisfiable on at least one complete path (contradictory axioms / requires prove anything)
        cov = []
        for pth in [p for p in live if p.outcome[0] != "stop"][:1] or live[:1]:
            I.path = pth
            cov.append(I.cover(pth, int(res.meta.get("cover_timeout_ms", 2500))))
        res.meta["cover"] = cov
        if cov and all(c == "unsat" for c in cov):
            res.status = "undecided"
            res.detail = "vacuous: the premises of every checked path are unsatisfiable (contradictory axioms or assumptions)"
        if not live and not I.stopped and all(o.status == "proved" for o in I.obligations):
            res.status = "undecided"
            res.detail = "vacuous: no feasible path reaches an exit (premises unsatisfiable?)"
        if not res.obligations and res.status == "ok":
            res.status = "undecided"
            res.detail = "no obligations generated"
    except source.AnchorMissing as e:
        res.status = "undecided"
        res.detail = f"anchor missing: {e}"
    except OutOfSubset as e:
        res.status = "undecided"
        res.detail = f"out of subset: {e}"
        import os

        if os.environ.get("PYVC_DEBUG"):
            res.detail += "\n" + traceback.format_exc()[-900:]
    except RecursionError as e:
        res.status = "undecided"
        res.detail = f"recursion limit in engine: {e}"
    except Exception as e:  # engine error: exit 3, never a verdict
        tb = traceback.extract_tb(e.__traceback__)
        where = tb[-1].filename if tb else ""
        if isinstance(e, (KeyError, AttributeError, TypeError, IndexError, ValueError)) and ("/contracts/" in where or "/props/" in where):
            # the Python code of a CONTRACT tripped over the shape of what the code under it produced (a local renamed, a value of
            # another kind): the contract no longer fits the code - undecided, like a lost anchor; on the unchanged tree this
            # cannot happen without the check being reported as broken
            res.status = "undecided"
            res.detail = f"contract no longer fits the code: {type(e).__name__}: {e} at {where.rsplit('/', 1)[-1]}:{tb[-1].lineno}"
        else:
            res.status = "error"
            res.detail = f"{type(e).__name__}: {e}\n{traceback.format_exc()[-1500:]}"
    res.wall_s = round(time.time() - t0, 3)
    return res


def external_backends(smt2, timeout_s=10):
    """Re-run one proved query (SMT-LIB 2 dump) on the other installed solvers."""
    import os
    import subprocess
    import tempfile

    out = {}
    with tempfile.NamedTemporaryFile("w", suffix=".smt2", delete=False) as f:
        f.write(smt2)
        path = f.name
    try:
        for be, cmd in (("z3-4.8.12", ["/usr/bin/z3", "-smt2", f"-T:{timeout_s}", path]), ("cvc5-1.0", ["/usr/bin/cvc5", f"--tlimit={timeout_s * 1000}", path])):
            try:
                p = subprocess.run(cmd, capture_output=True, text=True, timeout=timeout_s + 5)
                first = (p.stdout.strip().splitlines() or ["error"])[0].strip()
                out[be] = first if first in ("sat", "unsat", "unknown") else ("unknown" if "timeout" in first or "interrupted" in p.stdout + p.stderr else "error")
            except Exception:
                out[be] = "unknown"
    finally:
        os.unlink(path)
    return out


def harness(src, modname, name=None):
    """Parse a lemma harness (verification scaffolding, *not* repository code). It is interpreted by the
    same engine in the namespace of repository module `modname`, so the names it uses (typeorder, ...) are
    the real repository functions."""
    tree = ast.parse(src)
    fn = tree.body[0]

    def call(I, *args, **kwargs):
        return I.exec_function(fn, modname, f"harness:{name or fn.name}", list(args), dict(kwargs))

    return call


def ensure_return(I, thunk, post, tag="ensures", allowed_exc=None):
    """Run thunk; on normal return require post(I, result); on exception require it is allowed."""
    try:
        r = thunk()
    except PyRaise as e:
        if allowed_exc is not None:
            ok = allowed_exc(I, e.exc)
            I.require(ok, f"{tag}.exception[{e.exc.cls}]")
            return None
        I.require(False, f"no_unexpected_exception[{e.exc.cls}:{e.exc.tag or ''}]")
        return None
    I.require(post(I, r), tag)
    return r
