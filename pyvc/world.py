"""Base 'world': models of Python built-ins and concrete containers, resolution of module globals,
and the registry through which sidecar contracts plug in (callee policies, loop specs, axioms).
"""
import ast

import z3

from . import source
from .interp import (
    OneShotList,
    Builtin,
    Closure,
    ExcClass,
    ExcV,
    LoopSpec,
    OutOfSubset,
    PyRaise,
    Rec,
    RepoClass,
    RepoFn,
    Stream,
    SymObj,
    SymSeq,
    SymSet,
    ZV,
)


class ModuleV(SymObj):
    def __init__(self, name, attrs):
        self.name = name
        self.attrs = attrs

    def py_getattr(self, I, name):
        if name in self.attrs:
            return self.attrs[name]
        raise OutOfSubset(f"{self.name}.{name}")


class BoundMethod(SymObj):
    def __init__(self, name, fn):
        self.name = name
        self.fn = fn

    def py_call(self, I, args, kwargs):
        return self.fn(I, *args, **kwargs)


class World:
    stmt_hook = None

    def __init__(self):
        self._policy = {}
        self._loops = {}
        self._globals = {}  # (mod, name) -> value
        self._class_attr = {}
        self._class_ctor = {}
        self._axioms = []
        self.trusted = []  # descriptions of assumed contracts / models actually used
        self.used_policies = set()
        self.builtins = self._make_builtins()

    # ---------------------------------------------------------------- registration API
    def contract(self, qual, model):
        self._policy[qual] = model

    def inline(self, *quals):
        for q in quals:
            self._policy[q] = "inline"

    def loop(self, qual, ordinal, spec):
        self._loops[(qual, ordinal)] = spec

    def set_global(self, mod, name, value):
        self._globals[(mod, name)] = value

    def axiom(self, f):
        self._axioms.append(f)

    # ---------------------------------------------------------------- hooks used by Interp
    def axioms(self, I):
        out = []
        for a in self._axioms:
            out.extend(a(I) if callable(a) else [a])
        return out

    inline_prefixes = ()

    def policy(self, I, qual):
        self.used_policies.add(qual)
        pol = self._policy.get(qual)
        if pol is None and any(qual.startswith(p) for p in self.inline_prefixes):
            return "inline"
        if pol is None:
            # a helper that did not exist when the contracts were written (baseline/functions.json) has no contract of its own:
            # it is part of its caller's body (extract-function refactorings leave the verified text the same up to a call)
            from .frames import _known

            if not _known(qual):
                return "inline"
        return pol

    def loop_spec(self, I, qual, ordinal):
        return self._loops.get((qual, ordinal))

    def class_attr(self, I, qual, name):
        return self._class_attr.get((qual, name))

    def class_ctor(self, I, qual):
        return self._class_ctor.get(qual)

    def describe_model(self, I, m):
        try:
            decls = sorted(m.decls(), key=lambda d: d.name())
            parts = []
            for d in decls[:80]:
                parts.append(f"{d.name()} = {m[d]}")
            return "; ".join(parts)[:4000]
        except Exception as e:  # pragma: no cover
            return f"<model unavailable: {e}>"

    def term_of(self, I, v):
        return None

    def truth_of(self, I, v):
        return None

    def eq_mixed(self, I, a, b):
        return None

    def is_singleton(self, I, z, other):
        return None

    def merge(self, I, c, a, b):
        return None

    def binop(self, I, op, a, b):
        return None

    def compare(self, I, op, a, b):
        return None

    def as_exception(self, I, v):
        raise OutOfSubset(f"raise of {v!r}")

    def fstring(self, I, e, env, mod):
        """f-strings over concrete parts are evaluated; anything symbolic makes the whole string opaque."""
        parts = []
        for v in e.values:
            if isinstance(v, ast.Constant):
                parts.append(str(v.value))
            elif isinstance(v, ast.FormattedValue):
                x = I.eval(v.value, env, mod)
                if isinstance(x, (str, int, bool, float)) and v.format_spec is None and v.conversion == -1:
                    parts.append(format(x))
                else:
                    return OpaqueStr()
            else:
                return OpaqueStr()
        return "".join(parts)

    def on_yield(self, I, frame, v):
        if frame.yields is None:
            raise OutOfSubset("yield outside generator frame")
        frame.yields.append(v)

    def generator_result(self, I, qual, yields):
        return list(yields)

    def materialize(self, I, stream):
        """A filtered Stream as a proper sequence B (fresh), with the list semantics as assumed facts."""
        if not stream.guards and getattr(stream, "src", None) is not None:
            return stream.src
        raise OutOfSubset("materialize needs a typed world")

    def make_set(self, I, elts):
        if isinstance(elts, list) and all(not isinstance(x, (ZV, SymObj)) for x in elts):
            return set(elts)
        raise OutOfSubset("set of symbolic elements needs a typed world")

    def make_dict(self, I, pairs):
        if isinstance(pairs, list):
            d = {}
            for k, v in pairs:
                if isinstance(k, ZV) or (isinstance(k, SymObj) and not getattr(k, "concrete_identity", False)):
                    raise OutOfSubset("dict with symbolic keys needs a typed world")
                d[k] = v
            return d
        raise OutOfSubset("dict from a symbolic stream needs a typed world")

    # ---------------------------------------------------------------- globals
    def global_value(self, I, mod, name):
        if (mod, name) in self._globals:
            return self._globals[(mod, name)]
        try:
            m = source.module(mod)
        except Exception:
            m = None
        if m is not None:
            for stn in m.tree.body:  # module-level constants: NAME = <literal>
                if isinstance(stn, ast.Assign) and len(stn.targets) == 1 and isinstance(stn.targets[0], ast.Name) and stn.targets[0].id == name and isinstance(stn.value, ast.Constant):
                    return stn.value.value
            if name in m.functions:
                return RepoFn(f"{mod}:{name}")
            if name in m.classes:
                return RepoClass(f"{mod}:{name}")
            if name in m.imports:
                imp = m.imports[name]
                if imp[0] == "from" and imp[1].startswith(".") and imp[1].count(".") == 1:
                    return self.global_value(I, imp[1][1:], imp[2])
                if imp[0] == "from":
                    key = (imp[1], imp[2])
                    if key == ("collections", "ChainMap"):
                        import collections

                        def chainmap(I, *maps):
                            if not all(isinstance(m_, (dict, collections.ChainMap)) for m_ in maps):
                                raise OutOfSubset("ChainMap over symbolic mappings")
                            return collections.ChainMap(*maps)

                        return Builtin("ChainMap", chainmap)
                    if key in self.ext and self.ext[key] is not None:
                        return self.ext[key]
                    raise OutOfSubset(f"external name {imp[1]}.{imp[2]} has no model")
                if imp[0] == "mod":
                    if imp[1] in self.ext_modules:
                        return self.ext_modules[imp[1]]
                    raise OutOfSubset(f"external module {imp[1]} has no model")
        if name in self.builtins:
            return self.builtins[name]
        raise OutOfSubset(f"unknown global {name} in module {mod}")

    ext = {("collections", "ChainMap"): None}
    ext_modules = {}

    # ---------------------------------------------------------------- builtins
    def _make_builtins(self):
        B = {}

        def reg(name):
            def deco(f):
                B[name] = Builtin(name, f)
                return f

            return deco

        for en in ["KeyError", "TypeError", "ValueError", "IndexError", "Exception", "OSError", "AssertionError", "NotImplementedError", "LookupError"]:
            B[en] = ExcClass(en)
        B["NotImplemented"] = NotImplemented
        B["None"] = None
        B["True"] = True
        B["False"] = False
        B["object"] = PyClassToken("object")
        B["type"] = PyClassToken("type")
        B["tuple"] = PyClassToken("tuple")
        B["int"] = PyClassToken("int")
        B["str"] = PyClassToken("str")
        B["bool"] = PyClassToken("bool")
        B["float"] = PyClassToken("float")
        B["dict"] = PyClassToken("dict")
        B["list"] = PyClassToken("list")
        B["set"] = PyClassToken("set")
        B["frozenset"] = PyClassToken("frozenset")

        @reg("len")
        def _len(I, x):
            if isinstance(x, (list, tuple, dict, set, frozenset, str)):
                return len(x)
            if isinstance(x, SymObj) and hasattr(x, "py_len"):
                return x.py_len(I)
            if isinstance(x, Stream):
                if not x.guards:
                    return ZV(x.length, "int")  # an unfiltered comprehension over a sequence has the sequence's length
                return self.materialize(I, x).py_len(I)  # typed worlds give the filtered list its list semantics
            raise OutOfSubset(f"len({x!r})")

        @reg("isinstance")
        def _isinstance(I, x, cls):
            return I.boolval(self.isinstance_(I, x, cls))

        @reg("issubclass")
        def _issubclass(I, a, b):
            return I.boolval(self.issubclass_(I, a, b))

        @reg("hasattr")
        def _hasattr(I, x, name):
            return I.boolval(I.hasattr_(x, name))

        @reg("getattr")
        def _getattr(I, x, name, *default):
            if default:
                h = I.hasattr_(x, name)
                if isinstance(h, bool):
                    return I.getattr(x, name) if h else default[0]
                if I.pure:
                    I.quiet += 1  # the attribute is read under the guard h; its definedness obligation is the guard itself
                    try:
                        v = I.getattr(x, name)
                    finally:
                        I.quiet -= 1
                    return I.merge(h, v, default[0])
                if I.branch(h):
                    return I.getattr(x, name)
                return default[0]
            return I.getattr(x, name)

        @reg("enumerate")
        def _enumerate(I, x, start=0):
            seq = I.iterable(x)
            if isinstance(seq, list):
                return OneShotList([(i + start, v) for i, v in enumerate(seq)])
            if seq.guards:
                seq = self.materialize(I, seq).stream(I)
            seq = seq.consume()
            r = Stream(seq.length, None, [], lambda i: (ZV(i + start, "int"), seq.elem_at(I, i)))
            r.oneshot = True
            return r

        @reg("zip")
        def _zip(I, *xs):
            seqs = [I.iterable(x) for x in xs]
            if all(isinstance(s, list) for s in seqs):
                return OneShotList([tuple(t) for t in zip(*seqs)])
            ss = []
            for s in seqs:
                if isinstance(s, list):
                    raise OutOfSubset("zip of concrete and symbolic")
                if s.guards:
                    s = self.materialize(I, s).stream(I)
                ss.append(s)
            ss = [s.consume() for s in ss]
            n = ss[0].length
            for s in ss[1:]:
                n = z3.If(s.length < n, s.length, n)
            r = Stream(n, None, [], lambda i: tuple(s.elem_at(I, i) for s in ss))
            r.oneshot = True
            return r

        @reg("filter")
        def _filter(I, fn, x):
            """filter(fn, iterable): a one-shot iterator over the elements for which fn (or truthiness) holds."""
            seq = I.iterable(x)
            if isinstance(seq, list):
                keep = []
                for v in seq:
                    c = I.truth(v if fn is None else I.call(fn, [v], {}))
                    if I.branch(c):
                        keep.append(v)
                return OneShotList(keep)
            seq = seq.consume()

            def guard(i):
                I.pure += 1
                try:
                    v = seq.elem(i)
                    c = I.truth(v if fn is None else I.call(fn, [v], {}))
                finally:
                    I.pure -= 1
                return _bt(c)

            r = Stream(seq.length, None, list(seq.guards) + [guard], seq.elem)
            if hasattr(seq, "src"):
                r.src = seq.src
            r.oneshot = True
            return r

        @reg("reversed")
        def _reversed(I, x):
            seq = I.iterable(x)
            if isinstance(seq, list):
                return OneShotList(list(reversed(seq)))
            if seq.guards:
                seq = self.materialize(I, seq).stream(I)
            seq = seq.consume()
            n = seq.length
            r = Stream(n, None, [], lambda i: seq.elem_at(I, n - 1 - i))
            r.oneshot = True
            return r

        @reg("list")
        def _list(I, x=()):
            seq = I.iterable(x)
            if isinstance(seq, list):
                return list(seq)
            return self.materialize(I, seq.consume())

        @reg("tuple")
        def _tuple(I, x=()):
            seq = I.iterable(x)
            if isinstance(seq, list):
                return tuple(seq)
            return self.materialize(I, seq.consume())

        @reg("set")
        def _set(I, x=()):
            seq = I.iterable(x)
            return self.make_set(I, seq.consume() if isinstance(seq, Stream) else seq)

        @reg("frozenset")
        def _frozenset(I, x=()):
            seq = I.iterable(x)
            if isinstance(seq, list) and all(not isinstance(v, ZV) and (not isinstance(v, SymObj) or getattr(v, "concrete_identity", False)) for v in seq):
                return frozenset(seq)
            raise OutOfSubset("frozenset of symbolic elements")

        @reg("all")
        def _all(I, x):
            seq = I.iterable(x)
            if isinstance(seq, list):
                return I.boolval(I.conj([I.truth(v) for v in seq]))
            return I.boolval(seq.forall(I, lambda e, i: _bt(I.truth(e))))

        @reg("any")
        def _any(I, x):
            seq = I.iterable(x)
            if isinstance(seq, list):
                return I.boolval(I.disj([I.truth(v) for v in seq]))
            return I.boolval(seq.exists(I, lambda e, i: _bt(I.truth(e))))

        @reg("sum")
        def _sum(I, x, start=0):
            seq = I.iterable(x)
            if isinstance(seq, list):
                acc = start
                for v in seq:
                    acc = I.binop(ast.Add(), acc, v)
                return acc
            return self.sum_stream(I, seq.consume())

        @reg("sorted")
        def _sorted(I, x, key=None, reverse=False):
            seq = I.iterable(x)
            if isinstance(seq, list) and key is None and all(isinstance(v, (int, str)) for v in seq):
                return sorted(seq, reverse=reverse)
            return self.sorted_(I, seq, key, reverse)

        @reg("map")
        def _map(I, f, x, *more):
            if more:  # map(f, a, b, ...) == (f(*t) for t in zip(a, b, ...))
                z = _zip(I, x, *more)
                zs = I.iterable(z)
                if isinstance(zs, list):
                    return OneShotList([I.call(f, list(t)) for t in zs])
                zs = zs.consume()
                r = Stream(zs.length, None, zs.guards, lambda i: I.call(f, list(zs.elem(i))))
                r.oneshot = True
                return r
            seq = I.iterable(x)
            if isinstance(seq, list):
                return OneShotList([I.call(f, [v]) for v in seq])
            seq = seq.consume()
            r = Stream(seq.length, None, seq.guards, lambda i: I.call(f, [seq.elem(i)]))
            r.oneshot = True
            return r

        @reg("bool")
        def _bool(I, x=False):
            return I.boolval(I.truth(x))

        @reg("id")
        def _id(I, x):
            raise OutOfSubset("id()")

        @reg("next")
        def _next(I, x):
            if hasattr(x, "py_next"):
                return x.py_next(I)
            raise OutOfSubset("next()")

        @reg("print")
        def _print(I, *a, **k):
            return None

        B["dict"] = Builtin("dict", lambda I, *a, **k: self.dict_ctor(I, *a, **k))
        return B

    def dict_ctor(self, I, *a, **k):
        if not a:
            return dict(k)
        seq = I.iterable(a[0]) if not isinstance(a[0], dict) else None
        if isinstance(a[0], dict):
            return dict(a[0], **k)
        if isinstance(seq, list):
            d = {}
            for kk, vv in seq:
                d[kk] = vv
            return d
        raise OutOfSubset("dict() of symbolic stream")

    def empty_dict(self, I):
        return {}

    def build_tuple(self, I, elts):
        raise OutOfSubset("tuple display with a starred symbolic sequence")

    def super_of(self, I, obj, qual):
        """`super()` inside method `qual` called on obj: an object whose attribute access continues after the class."""
        raise OutOfSubset(f"super() in {qual}")

    def type_of(self, I, x):
        raise OutOfSubset("type(x) needs a typed world")

    def class_getitem(self, I, cls, key):
        raise OutOfSubset(f"{cls!r}[...] needs a typed world")

    def sum_stream(self, I, seq):
        raise OutOfSubset("sum over symbolic stream needs a typed world")

    def sorted_(self, I, seq, key, reverse):
        raise OutOfSubset("sorted over symbolic values needs a typed world")

    def isinstance_(self, I, x, cls):
        if isinstance(cls, tuple):
            return I.disj([self.isinstance_(I, x, c) for c in cls])
        if isinstance(cls, Builtin) and cls.name in ("tuple", "list", "set", "dict", "bool", "frozenset"):
            cls = PyClassToken(cls.name)  # the builtin classes double as conversion functions
        if isinstance(x, (ZV, SymObj)) and hasattr(x, "py_isinstance"):
            r = x.py_isinstance(I, cls)
            if r is not NotImplemented:
                return r
        if isinstance(cls, PyClassToken):
            table = {"tuple": tuple, "int": int, "str": str, "bool": bool, "float": float, "dict": dict, "list": list, "set": set, "object": object}
            if cls.name in table and not isinstance(x, (ZV, SymObj)):
                return isinstance(x, table[cls.name])
            if cls.name in ("tuple", "list", "dict", "set", "str") and isinstance(x, ZV) and x.k not in ("int", "bool", "real"):
                r = self.truth_of(I, x)  # domain values (types, handlers, ...) are not containers
                return False
            if cls.name == "object":
                return True
            if cls.name == "type" and not isinstance(x, (ZV, SymObj)):
                return isinstance(x, type)
            if isinstance(x, ZV):
                if cls.name == "int":
                    return x.k in ("int", "bool")
                if cls.name == "bool":
                    return x.k == "bool"
                if cls.name in ("tuple", "str", "dict", "list", "set", "float"):
                    if x.k in ("int", "bool"):
                        return False
            if isinstance(x, OpaqueStr):
                return cls.name == "str"
            if isinstance(x, (SymSeq, Stream)) and cls.name in ("str", "int", "dict"):
                return False
        if isinstance(cls, RepoClass) and isinstance(x, Rec):
            return x.cls == cls.qual
        if isinstance(cls, RepoClass) and not isinstance(x, (ZV, SymObj)):
            return False
        raise OutOfSubset(f"isinstance({x!r}, {cls!r})")

    def issubclass_(self, I, a, b):
        raise OutOfSubset("issubclass needs a typed world")

    # attribute access on concrete python containers ----------------------------------------
    def concrete_attr(self, I, obj, name):
        if isinstance(obj, list):
            if name == "append":
                return BoundMethod("append", lambda I, x: obj.append(x))
            if name == "extend":
                return BoundMethod("extend", lambda I, x: obj.extend(_aslist(I, x)))
            if name == "reverse":
                return BoundMethod("reverse", lambda I: obj.reverse())
            if name == "insert":
                return BoundMethod("insert", lambda I, i, x: obj.insert(i, x))
            if name == "pop":
                return BoundMethod("pop", lambda I, *a: obj.pop(*a))
            if name == "sort":
                return BoundMethod("sort", lambda I, key=None, reverse=False: self.list_sort(I, obj, key, reverse))
            if name == "copy":
                return BoundMethod("copy", lambda I: list(obj))
        import collections.abc as _abc

        if isinstance(obj, _abc.Mapping) and not isinstance(obj, dict):
            if name == "items":
                return BoundMethod("items", lambda I: list(obj.items()))
            if name == "keys":
                return BoundMethod("keys", lambda I: list(obj.keys()))
            if name == "values":
                return BoundMethod("values", lambda I: list(obj.values()))
            if name == "get":
                return BoundMethod("get", lambda I, k, d=None: obj.get(k, d))
        if isinstance(obj, dict):
            if name == "get":
                return BoundMethod("get", lambda I, k, d=None: obj.get(k, d))
            if name == "items":
                return BoundMethod("items", lambda I: list(obj.items()))
            if name == "keys":
                return BoundMethod("keys", lambda I: self.make_set(I, list(obj.keys())))
            if name == "values":
                return BoundMethod("values", lambda I: list(obj.values()))
            if name == "update":
                return BoundMethod("update", lambda I, o=(), **kw: obj.update(o if isinstance(o, dict) else dict(_aslist(I, o)), **kw))
            if name == "setdefault":
                return BoundMethod("setdefault", lambda I, k, d=None: obj.setdefault(k, d))
            if name == "clear":
                return BoundMethod("clear", lambda I: obj.clear())
            if name == "pop":
                return BoundMethod("pop", lambda I, k, *d: obj.pop(k, *d))
        if isinstance(obj, set):
            if name == "add":
                return BoundMethod("add", lambda I, x: obj.add(x))
            if name == "update":
                return BoundMethod("update", lambda I, x: obj.update(_aslist(I, x)))
            if name == "difference_update":
                return BoundMethod("difference_update", lambda I, x: obj.difference_update(_aslist(I, x)))
            if name == "intersection_update":
                return BoundMethod("intersection_update", lambda I, x: obj.intersection_update(_aslist(I, x)))
            if name == "discard":
                return BoundMethod("discard", lambda I, x: obj.discard(x))
            if name == "remove":
                return BoundMethod("remove", lambda I, x: obj.remove(x))
            if name == "copy":
                return BoundMethod("copy", lambda I: set(obj))
            if name in ("difference", "union", "intersection"):
                return BoundMethod(name, lambda I, x, _n=name: getattr(obj, _n)(_aslist(I, x)))
        if isinstance(obj, str):
            if name == "startswith":
                return BoundMethod("startswith", lambda I, p: obj.startswith(p))
        return None

    def stream_attr(self, I, stream, name):
        raise OutOfSubset(f"attribute {name} of a symbolic list")

    def list_sort(self, I, lst, key, reverse):
        raise OutOfSubset("list.sort needs a typed world")


def _aslist(I, x):
    s = I.iterable(x)
    if not isinstance(s, list):
        raise OutOfSubset("symbolic stream where a concrete one is needed")
    return s


def _bt(b):
    return z3.BoolVal(b) if isinstance(b, bool) else b


class PyClassToken(SymObj):
    """A builtin class used only as an isinstance/is target."""

    def __init__(self, name):
        self.name = name

    def py_is(self, I, other):
        return isinstance(other, PyClassToken) and other.name == self.name

    def py_call(self, I, args, kwargs):
        if self.name == "type" and len(args) == 1:
            return I.world.type_of(I, args[0])
        raise OutOfSubset(f"call of builtin class {self.name}")

    def py_getitem(self, I, key):
        return I.world.class_getitem(I, self, key)

    def py_hasattr(self, I, name):
        return name not in ("__origin__", "__args__", "__type_order__", "__is_supertype__", "__is_subtype__", "codegen", "with_bound")

    def py_eq(self, I, other):
        if isinstance(other, PyClassToken):
            return other.name == self.name
        return NotImplemented

    def __repr__(self):
        return f"<class {self.name}>"


class OpaqueStr(SymObj):
    """Result of an f-string / str(): contents not modelled."""

    def py_truth(self, I):
        raise OutOfSubset("truthiness of opaque string")
