"""Run verification tasks in a fork-based process pool (z3 contexts are per process)."""
import multiprocessing as mp
import os

from .verify import run_task

_TASKS = []


def _run(i):
    name, build, mode = _TASKS[i]
    if mode == "F":  # syntactic frame obligations (pyvc.frames): build() computes the result directly
        return build().to_dict()
    return run_task(name, build, mode).to_dict()


def run_all(tasks, procs=None):
    """tasks: list of (name, build, mode). Returns list of result dicts in order."""
    global _TASKS
    _TASKS = list(tasks)
    procs = procs or min(16, max(1, (os.cpu_count() or 2)))
    if len(tasks) <= 1 or procs == 1:
        return [_run(i) for i in range(len(tasks))]
    ctx = mp.get_context("fork")
    with ctx.Pool(min(procs, len(tasks))) as pool:
        return pool.map(_run, range(len(tasks)), chunksize=1)
