"""Read / write / call frames computed syntactically from the real ASTs (DESIGN C04(a), C20, C15(1)).

A frame obligation is decidable on the AST: "function f reads no field of `self` outside R", "writes none outside
W", "calls nothing outside C".  They are emitted in the same result format as solver obligations, with the
back end recorded as 'ast-frame'.
"""
import ast
import time

from . import source
from .verify import TaskResult


def _self_attr(node, selfname="self"):
    return isinstance(node, ast.Attribute) and isinstance(node.value, ast.Name) and node.value.id == selfname


def analyse(qual, selfname="self"):
    """Returns dict(reads=set, writes=set, calls=set, dict_reads=bool, dict_writes=bool) for function qual.
    Fields are attribute names of `self`; 'dict' denotes the dict part of a dict subclass (self[...], in self)."""
    fn = source.function(qual)
    parents = {}
    for n in ast.walk(fn):
        for c in ast.iter_child_nodes(n):
            parents[c] = n
    reads, writes, calls = set(), set(), set()
    MUTATORS = {"clear", "add", "update", "setdefault", "append", "pop", "remove", "discard", "extend", "insert", "sort", "reverse", "register"}
    for n in ast.walk(fn):
        if _self_attr(n, selfname):
            p = parents.get(n)
            name = n.attr
            if isinstance(n.ctx, ast.Store):
                writes.add(name)
            elif isinstance(p, ast.Subscript) and p.value is n and isinstance(p.ctx, (ast.Store, ast.Del)):
                writes.add(name)  # self.x[k] = v
            elif isinstance(p, ast.Attribute) and p.value is n and p.attr in MUTATORS and isinstance(parents.get(p), ast.Call) and parents[p].func is p:
                writes.add(name)
                if p.attr in ("setdefault", "pop"):
                    reads.add(name)
            elif isinstance(p, ast.AugAssign) and p.target is n:
                writes.add(name)
                reads.add(name)
            elif isinstance(p, ast.Call) and p.func is n:
                calls.add(f"self.{name}")
            else:
                reads.add(name)
        elif isinstance(n, ast.Name) and n.id == selfname:
            p = parents.get(n)
            if isinstance(p, ast.Subscript) and p.value is n:
                (writes if isinstance(p.ctx, (ast.Store, ast.Del)) else reads).add("dict")
            elif isinstance(p, ast.Compare) and n in p.comparators:
                reads.add("dict")
        elif isinstance(n, ast.Call):
            f = n.func
            if isinstance(f, ast.Name):
                calls.add(f.id)
            elif isinstance(f, ast.Attribute) and not _self_attr(f, selfname):
                calls.add(ast.unparse(f))
    return dict(reads=reads, writes=writes, calls=calls)


def frame_task(name, checks):
    """checks: list of (obligation name, qual, kind, allowed set | forbidden set, mode) with kind in
    reads_within / writes_within / reads_none_of / calls_within."""

    def run():
        res = TaskResult(name)
        res.mode = "U"
        t0 = time.time()
        try:
            source.reset()
            for obname, qual, kind, names in checks:
                a = analyse(qual)
                res.functions.append((qual, source.fn_sha(qual)))
                if kind == "reads_within":
                    bad = a["reads"] - set(names)
                elif kind == "writes_within":
                    bad = a["writes"] - set(names)
                elif kind == "reads_none_of":
                    bad = a["reads"] & set(names)
                elif kind == "writes_none_of":
                    bad = a["writes"] & set(names)
                elif kind == "calls_within":
                    bad = a["calls"] - set(names)
                elif kind == "calls_none_of":
                    bad = a["calls"] & set(names)
                else:
                    raise ValueError(kind)
                res.obligations.append(
                    dict(name=f"{name}/{obname}", status="proved" if not bad else "refuted", time=0.0, model=(f"offending: {sorted(bad)}; computed {kind.split('_')[0]} = {sorted(a[kind.split('_')[0]])}" if bad else None), note="ast-frame", path="", goal=f"{kind}({qual}) {sorted(names)}")
                )
            res.cover = True
            res.meta = {"backend": "ast-frame", "cover": ["n/a"]}
        except source.AnchorMissing as e:
            res.status = "undecided"
            res.detail = f"anchor missing: {e}"
        except Exception as e:
            res.status = "error"
            res.detail = f"{type(e).__name__}: {e}"
        res.wall_s = round(time.time() - t0, 3)
        return res

    return run
