"""Read / write / call frames computed syntactically from the real ASTs (DESIGN C04(a), C20, C15(1)).

A frame obligation is decidable on the AST: "function f reads no field of `self` outside R", "writes none outside
W", "calls nothing outside C".  They are emitted in the same result format as solver obligations, with the
back end recorded as 'ast-frame'.
"""
import ast
import time

from . import source
from .verify import TaskResult


def _self_attr(node, selfname="self"):
    return isinstance(node, ast.Attribute) and isinstance(node.value, ast.Name) and node.value.id == selfname


def analyse(qual, selfname="self"):
    """Returns dict(reads=set, writes=set, calls=set, dict_reads=bool, dict_writes=bool) for function qual.
    Fields are attribute names of `self`; 'dict' denotes the dict part of a dict subclass (self[...], in self)."""
    fn = source.function(qual)
    parents = {}
    for n in ast.walk(fn):
        for c in ast.iter_child_nodes(n):
            parents[c] = n
    reads, writes, calls = set(), set(), set()
    MUTATORS = {"clear", "add", "update", "setdefault", "append", "pop", "remove", "discard", "extend", "insert", "sort", "reverse", "register"}
    for n in ast.walk(fn):
        if _self_attr(n, selfname):
            p = parents.get(n)
            name = n.attr
            if isinstance(n.ctx, ast.Store):
                writes.add(name)
            elif isinstance(p, ast.Subscript) and p.value is n and isinstance(p.ctx, (ast.Store, ast.Del)):
                writes.add(name)  # self.x[k] = v
            elif isinstance(p, ast.Attribute) and p.value is n and p.attr in MUTATORS and isinstance(parents.get(p), ast.Call) and parents[p].func is p:
                writes.add(name)
                if p.attr in ("setdefault", "pop"):
                    reads.add(name)
            elif isinstance(p, ast.AugAssign) and p.target is n:
                writes.add(name)
                reads.add(name)
            elif isinstance(p, ast.Call) and p.func is n:
                calls.add(f"self.{name}")
            else:
                reads.add(name)
        elif isinstance(n, ast.Name) and n.id == selfname:
            p = parents.get(n)
            if isinstance(p, ast.Subscript) and p.value is n:
                (writes if isinstance(p.ctx, (ast.Store, ast.Del)) else reads).add("dict")
            elif isinstance(p, ast.Compare) and n in p.comparators:
                reads.add("dict")
        elif isinstance(n, ast.Call):
            f = n.func
            if isinstance(f, ast.Name):
                calls.add(f.id)
            elif isinstance(f, ast.Attribute) and not _self_attr(f, selfname):
                calls.add(ast.unparse(f))
    return dict(reads=reads, writes=writes, calls=calls)


_INVENTORY = None


def _known(qual):
    """functions that existed when the contracts were written (baseline/functions.json) have their own frames / contracts;
    only helpers introduced by a change are folded into their caller's frame"""
    global _INVENTORY
    if _INVENTORY is None:
        import json
        from pathlib import Path

        try:
            _INVENTORY = json.loads((Path(__file__).resolve().parent.parent / "baseline" / "functions.json").read_text())
        except Exception:
            _INVENTORY = {}
    mod, _, q = qual.partition(":")
    return q in set(_INVENTORY.get(mod, []))


def closure(qual, keep_calls=(), _seen=None):
    """The frame of `qual` including the frames of the private helpers it calls on `self` (methods of the same class defined in
    the same module): extracting a helper method does not change the frame. A callee that the obligation names explicitly
    (keep_calls, e.g. `self.resolve`) stays a call - it has its own contract."""
    seen = _seen if _seen is not None else set()
    seen.add(qual)
    a = analyse(qual)
    out = dict(reads=set(a["reads"]), writes=set(a["writes"]), calls=set())
    mod, _, q = qual.partition(":")
    cls = q.rsplit(".", 1)[0] if "." in q else None
    for c in a["calls"]:
        callee = f"{mod}:{cls}.{c[5:]}" if (cls and c.startswith("self.")) else None
        if callee and c not in keep_calls and callee not in seen and c[5:] != q.rsplit(".", 1)[-1] and not _known(callee):
            try:
                source.function(callee)
            except Exception:
                out["calls"].add(c)
                continue
            sub = closure(callee, keep_calls, seen)
            for k in ("reads", "writes", "calls"):
                out[k] |= sub[k]
        else:
            out["calls"].add(c)
    return out


def frame_task(name, checks):
    """checks: list of (obligation name, qual, kind, allowed set | forbidden set, mode) with kind in
    reads_within / writes_within / reads_none_of / calls_within."""

    def run():
        res = TaskResult(name)
        res.mode = "U"
        t0 = time.time()
        try:
            source.reset()
            for obname, qual, kind, names in checks:
                a = closure(qual, keep_calls=set(names) if kind.startswith("calls") else set())
                res.functions.append((qual, source.fn_sha(qual)))
                if kind == "reads_within":
                    bad = a["reads"] - set(names)
                elif kind == "writes_within":
                    bad = a["writes"] - set(names)
                elif kind == "reads_none_of":
                    bad = a["reads"] & set(names)
                elif kind == "writes_none_of":
                    bad = a["writes"] & set(names)
                elif kind == "calls_within":
                    bad = a["calls"] - set(names)
                elif kind == "calls_none_of":
                    bad = a["calls"] & set(names)
                else:
                    raise ValueError(kind)
                res.obligations.append(
                    dict(name=f"{name}/{obname}", status="proved" if not bad else "refuted", time=0.0, model=(f"offending: {sorted(bad)}; computed {kind.split('_')[0]} = {sorted(a[kind.split('_')[0]])}" if bad else None), note="ast-frame", path="", goal=f"{kind}({qual}) {sorted(names)}")
                )
            res.cover = True
            res.meta = {"backend": "ast-frame", "cover": ["n/a"]}
        except source.AnchorMissing as e:
            res.status = "undecided"
            res.detail = f"anchor missing: {e}"
        except Exception as e:
            res.status = "error"
            res.detail = f"{type(e).__name__}: {e}"
        res.wall_s = round(time.time() - t0, 3)
        return res

    return run
