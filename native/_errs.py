"""How the library words its two dispatch errors, learnt from the library itself: the native suites tell "no method" from
"ambiguous" by the first word of the message, and a maintainer may reword either message (the properties speak of "the ambiguity
TypeError", not of its text). The prefixes are read off two tiny probe functions at import time."""
from ovld import Ovld


def _learn():
    class _PA: ...
    class _PB: ...
    class _PC(_PA, _PB): ...

    o = Ovld(name="errprobe")

    def pa(x: _PA):
        return "a"

    def pb(x: _PB):
        return "b"

    o.register(pa)
    o.register(pb)
    amb = nom = None
    try:
        o(_PC())
    except TypeError as e:
        amb = str(e)
    try:
        o(1)
    except TypeError as e:
        nom = str(e)
    first = lambda m, d: (m.split()[0] if m and m.split() else d)
    a, n = first(amb, "Ambiguous"), first(nom, "No")
    if a == n:  # cannot tell them apart by the first word: fall back to the documented wording
        a, n = "Ambiguous", "No method"
    return a, n


try:
    AMB, NOM = _learn()
except Exception:
    AMB, NOM = "Ambiguous", "No method"


def amb(msg):
    return str(msg).startswith(AMB)


def nomethod(msg):
    return str(msg).startswith(NOM)
