"""Bounded native search for a violation of a C13 clause: subclasscheck / isinstance against the documented
meaning of each non-value-dependent kind of type (independent oracle), over small terms.
usage: c13_search.py <clause> [K]"""
import json
import sys
import typing

from ovld.mro import subclasscheck

import typeterms as T


def kind_of(t, terms):
    for k, ts in terms.items():
        if any(t is x for x in ts):
            return k
    return None


def meaning(c, t):
    """Documented meaning of type t applied to the plain class c (docs/types.md)."""
    from ovld.types import Dataclass, MetaMC, SingleFunctionHandler

    if t is Dataclass:  # docs/types.md: "matches dataclasses" - independent of the subclass hook the library wrote
        import dataclasses

        return isinstance(c, type) and dataclasses.is_dataclass(c)
    if id(t) in T.SPEC:  # use the arguments given to the constructor, not what the object stored
        name, ms = T.SPEC[id(t)]
        if name == "Union":
            return any(c is a or meaning(c, a) for a in ms)
        if name == "Intersection":
            return all(c is a or meaning(c, a) for a in ms)
        if name == "Exactly":
            return c is ms[0]
        if name == "StrictSubclass":
            return isinstance(c, type) and issubclass(c, ms[0]) and c is not ms[0]
        if name == "Deferred":  # stands for the class it refers to
            return isinstance(c, type) and issubclass(c, ms[0])
    if isinstance(t, MetaMC):
        h = t._handler
        name = type(h).__name__
        if name == "Union":
            return any(meaning(c, a) for a in h.types)
        if name == "Intersection":
            return all(meaning(c, a) for a in h.types)
        fn = h.handler.__name__
        if fn == "Exactly":
            return c is h.args[0]
        if fn == "StrictSubclass":
            return isinstance(c, type) and issubclass(c, h.args[0]) and c is not h.args[0]
        if fn == "HasMethod":
            return hasattr(c, h.args[0])
        return bool(h.handler(c, *h.args))
    if typing.get_origin(t) is not None:
        return False if typing.get_args(t) else issubclass(c, typing.get_origin(t))
    from ovld.dependent import DependentType

    if isinstance(t, DependentType):
        return meaning(c, t.bound)
    return issubclass(c, t)


_TERMS = None


def run(clause, ks):
    global _TERMS
    if _TERMS is None:
        _TERMS = T.terms(depth=2)
    terms = _TERMS
    classes = [c for c in terms["Class"]]
    out, tried = [], 0
    if clause == "meaning":
        for t in terms[ks[0]]:
            for c in classes:
                tried += 1
                try:
                    got = subclasscheck(c, t)
                except Exception as e:
                    got = f"EXC {type(e).__name__}: {e}"
                want = True if c is t else meaning(c, t)
                if got is not want and got != want:
                    out.append(dict(cls=repr(c), type=repr(t), subclasscheck=str(got), meaning=want))
    elif clause == "reflexive":
        for t in terms[ks[0]]:
            tried += 1
            if subclasscheck(t, t) is not True:
                out.append(dict(type=repr(t)))
    elif clause == "alias_covariant":
        al = terms["Alias"]
        for a in al:
            for b in al:
                tried += 1
                oa, ob = typing.get_origin(a), typing.get_origin(b)
                xa, xb = typing.get_args(a), typing.get_args(b)
                want = a == b or (issubclass(oa, ob) and len(xa) == len(xb) and all(subclasscheck(p, q) for p, q in zip(xa, xb)))
                got = subclasscheck(a, b)
                if bool(got) != bool(want):
                    out.append(dict(t1=repr(a), t2=repr(b), subclasscheck=str(got), expected=want))
    elif clause == "class_vs_alias":
        for a in terms["Alias"]:
            if not typing.get_args(a):
                continue
            for c in classes:
                tried += 1
                g1, g2 = subclasscheck(c, a), subclasscheck(a, c)
                w2 = issubclass(typing.get_origin(a), c)
                if g1 is not False or bool(g2) != w2:
                    out.append(dict(cls=repr(c), alias=repr(a), class_below_alias=str(g1), alias_below_class=str(g2), expected=[False, w2]))
    elif clause == "transitive":
        t1 = T.terms(depth=1)
        frag = t1["Class"] + t1["Alias"]  # hereditarily class / generic types only
        frag = [t for t in frag if typing.get_origin(t) is None or typing.get_args(t)]
        for a in frag:
            for b in frag:
                if not subclasscheck(a, b):
                    continue
                for c in frag:
                    tried += 1
                    if subclasscheck(b, c) and not subclasscheck(a, c):
                        out.append(dict(a=repr(a), b=repr(b), c=repr(c)))
    elif clause == "eq":
        allt = [t for k in T.KINDS for t in terms[k]]
        for i, a in enumerate(allt):
            for b in allt[i + 1:]:
                tried += 1
                try:
                    same = (a == b)
                except Exception as e:
                    out.append(dict(t1=repr(a), t2=repr(b), error=str(e)))
                    continue
                if not same:
                    continue
                diff = [repr(c) for c in classes if bool(subclasscheck(c, a)) != bool(subclasscheck(c, b))]
                if diff or hash(a) != hash(b):
                    out.append(dict(t1=repr(a), t2=repr(b), equal=True, differ_on=diff[:3], same_hash=hash(a) == hash(b)))
    elif clause == "isinstance":
        vals = [T.A(), T.B(), T.C(), T.D(), T.E(), T.WithFoo(), 1, True, "a", (1, "a"), [1], None, 1.5]
        def has_alias(t):
            return typing.get_origin(t) is not None or any(has_alias(a) for a in getattr(t, "__args__", ()) if a is not t)

        from ovld.types import Dataclass as _Dataclass

        vals += [T.Point(), T.Point3(), T.Stop()]
        for t in terms[ks[0]]:
            if has_alias(t):
                continue  # isinstance against a parametrised generic is a TypeError in CPython: outside the property's domain
            if t is _Dataclass:
                # CPython: isinstance against a runtime-checkable Protocol WITHOUT members is True for every object (the
                # subclass hook is only consulted by issubclass); dispatch keys on type(v), which the other clauses check
                continue
            for v in vals:
                tried += 1
                try:
                    got = isinstance(v, t)
                except Exception as e:
                    got = f"EXC {type(e).__name__}: {e}"
                want = meaning(type(v), t)
                if got != want:
                    out.append(dict(value=repr(v), type=repr(t), isinstance=str(got), meaning=want))
    elif clause == "class_valued":
        # a class passed as the argument is looked up as type[v] (utils.subtler_type) as soon as one overload annotates
        # that position type[...]: "applicable exactly when type(v) has the method" with type(v) = the class of classes
        from ovld import Ovld
        from ovld.types import HasMethod, class_check

        @class_check
        def CallableClass(cls):
            return hasattr(cls, "__call__")

        conds = {"HasMethod[mro]": HasMethod["mro"], "HasMethod[__call__]": HasMethod["__call__"], "HasMethod[foo]": HasMethod["foo"], "HasMethod[upper]": HasMethod["upper"], "class_check(has __call__)": CallableClass}
        passed = [int, str, T.A, T.WithFoo, list]
        for cname, cond in conds.items():
            for v in passed:
                tried += 1
                want = meaning(type(v), cond)
                got = subclasscheck(type[v], cond)
                if bool(got) != want:
                    out.append(dict(type=cname, looked_up_as=f"type[{v.__name__}]", subclasscheck=str(got), meaning_on_type_of_v=want))
            for wrap in ("plain", "union", "inter"):
                ov = Ovld(name="cv")
                ann = cond if wrap == "plain" else (cond | T.E) if wrap == "union" else (cond & object)
                g = {"ANN": ann}
                exec("def m1(x: ANN):\n    return 'cond'\n", g)
                ov.register(g["m1"])

                def m2(x: type[T.B]):
                    return "type[B]"

                ov.register(m2)
                for v in passed + [T.B, T.C]:
                    tried += 1
                    app_c = meaning(type(v), cond)
                    app_t = issubclass(v, T.B)
                    if app_c and app_t:
                        continue  # which of the two is preferred is the ordering's business (C12/C06), not this clause's
                    want = "cond" if app_c else "type[B]" if app_t else "NOMETHOD"
                    try:
                        got = ov(v)
                    except TypeError as e:
                        s_ = str(e)
                        got = "AMBIGUOUS" if __import__("_errs").amb(s_) else "NOMETHOD" if __import__("_errs").nomethod(s_) else f"TypeError:{s_[:40]}"
                    if got != want:
                        out.append(dict(type=cname, nesting=wrap, passed=v.__name__, got=got, expected=want))
    elif clause == "virtual_subclass":
        # "proper subclass" is the subclass relation of the language (issubclass), including abstract base classes
        # with registered / structurally recognised subclasses and runtime-checkable protocols
        import collections.abc as cabc
        import numbers

        from ovld.types import StrictSubclass
        from ovld.types import Intersection as OI
        from ovld.types import Union as OU

        @typing.runtime_checkable
        class Quacks(typing.Protocol):
            def quack(self): ...

        class Duck:
            def quack(self):
                return 1

        class Sizedish:
            def __len__(self):
                return 0

        class Reg: ...

        class MyABC(__import__("abc").ABC): ...

        MyABC.register(Reg)

        class RealSub(MyABC): ...

        bases = [cabc.Sized, cabc.Sequence, numbers.Number, Quacks, MyABC, T.A]
        cs = [Duck, Sizedish, Reg, RealSub, list, tuple, int, float, str, T.A, T.B, T.E, MyABC, cabc.Sized, Quacks]
        for b in bases:
            t = StrictSubclass[b]
            for c in cs:
                tried += 1
                want = issubclass(c, b) and c is not b
                got = subclasscheck(c, t)
                if bool(got) != want:
                    out.append(dict(cls=c.__name__, type=f"StrictSubclass[{b.__name__}]", subclasscheck=str(got), meaning=want))
                for nest, tt in (("union", OU[t, T.E]), ("inter", OI[t, object])):
                    tried += 1
                    w2 = want or (nest == "union" and issubclass(c, T.E))
                    g2 = subclasscheck(c, tt)
                    if bool(g2) != w2:
                        out.append(dict(cls=c.__name__, type=f"StrictSubclass[{b.__name__}] in {nest}", subclasscheck=str(g2), meaning=w2))
            try:
                inst_vals = [Duck(), Sizedish(), Reg(), RealSub(), [], (), 1, 1.5, "a"]
            except Exception:
                inst_vals = []
            for v in inst_vals:
                tried += 1
                want = issubclass(type(v), b) and type(v) is not b
                if isinstance(v, t) != want:
                    out.append(dict(value=repr(v)[:30], type=f"StrictSubclass[{b.__name__}]", isinstance=isinstance(v, t), meaning=want))
    else:
        raise SystemExit(f"unknown clause {clause}")
    return dict(clause=clause, kinds=ks, violations=out[:20], all_violations=out, n_violations=len(out), pairs_tried=tried)


SUITE = [("meaning", [k]) for k in ["Class", "Union", "Inter", "Exactly", "Strict", "HasMethod", "ClassCheck"]] + [("reflexive", [k]) for k in T.KINDS] + [
    ("alias_covariant", []),
    ("class_vs_alias", []),
    ("transitive", []),
    ("eq", []),
] + [("isinstance", [k]) for k in ["Class", "Union", "Inter", "Exactly", "Strict", "HasMethod", "ClassCheck"]] + [("class_valued", []), ("virtual_subclass", [])]


if __name__ == "__main__":
    r = run(sys.argv[1], sys.argv[2:])
    print(json.dumps(r))
    sys.exit(1 if r["n_violations"] else 0)
