"""C02 (and C06/C01) in R mode: the documented resolution rule as an independent oracle, evaluated against the
real ovld on an enumerated family of small scenarios (class DAGs x method sets x calls).  Bounded stand-in,
never counted as proved; also the concretiser for failed e2e obligations.

usage: c02_oracle.py suite [--perms]      -> JSON line {"evaluations", "failing": [...]}; exit 1 if any failing
       c02_oracle.py scenario '<json>'     -> replays one scenario
"""
import itertools
import json
import sys

from ovld import Ovld

# ---------------------------------------------------------------------------------------------------
# class DAG families (name -> bases); "object" is implicit
DAGS = {
    "chain": {"A": [], "B": ["A"], "C": ["B"]},
    "diamond": {"A": [], "B": ["A"], "C": ["A"], "D": ["B", "C"]},
    "vee": {"A": [], "B": [], "C": ["A", "B"]},
    "deepvee": {"A": [], "A2": ["A"], "B": [], "C": ["A2", "B"]},
    "two": {"P": [], "Q": ["P"]},
    "deep_and_shallow": {"A": [], "B": ["A"], "C": ["B"], "X": [], "D": ["C", "X"]},
    "side_branch": {"A": [], "B": ["A"], "X": [], "D": ["A", "X"], "Y": ["X"]},  # B / Y never apply to a D
}


def build_classes(dag):
    ns = {"object": object}
    for name, bases in dag.items():
        ns[name] = type(name, tuple(ns[b] for b in bases) or (object,), {})
    return ns


def make_fn(name, params):
    """params: list of dict(name, kind 'pos'|'kw', type, default bool)."""
    pos = [p for p in params if p["kind"] == "pos"]
    kw = [p for p in params if p["kind"] == "kw"]
    parts = [f"{p['name']}: T_{p['type']}" + (" = None" if p.get("default") else "") for p in pos]
    if kw:
        parts.append("*")
        parts += [f"{p['name']}: T_{p['type']}" + (" = None" if p.get("default") else "") for p in kw]
    src = f"def {name}({', '.join(parts)}):\n    return {name!r}\n"
    return src


def run_scenario(sc, order=None):
    ns = build_classes(sc["classes"])
    env = {f"T_{k}": v for k, v in ns.items()}
    ov = Ovld(name="f")
    fns = {}
    methods = sc["methods"]
    idx = list(range(len(methods))) if order is None else list(order)
    for i in idx:
        m = methods[i]
        g = dict(env)
        exec(make_fn(m["name"], m["params"]), g)
        fns[m["name"]] = g[m["name"]]
        ov.register(g[m["name"]], priority=m.get("priority", 0))
    args = [ns[c]() for c in sc["call"]["pos"]]
    kwargs = {k: ns[c]() for k, c in sc["call"].get("kw", {}).items()}
    try:
        r = ov(*args, **kwargs)
        out = ("run", r)
    except TypeError as e:
        s = str(e)
        out = ("ambiguous",) if __import__("_errs").amb(s) else ("nomethod",) if __import__("_errs").nomethod(s) else ("error", s[:100])
    except Exception as e:
        out = ("error", f"{type(e).__name__}: {e}"[:100])
    res = None
    if not kwargs:
        try:
            h = ov.resolve(*args)
            res = ("run", h(*args))  # the selected method, identified by what it returns
        except TypeError as e:
            s = str(e)
            res = ("ambiguous",) if __import__("_errs").amb(s) else ("nomethod",) if __import__("_errs").nomethod(s) else ("error", s[:100])
        except Exception as e:
            res = ("error", f"{type(e).__name__}: {e}"[:100])
    return out, res


def oracle(sc):
    """Outcome per the statement of C02, from issubclass on the declared classes only."""
    ns = build_classes(sc["classes"])
    call = sc["call"]
    npos = len(call["pos"])
    names = set(call.get("kw", {}))

    def sig(m):
        pos = [p for p in m["params"] if p["kind"] == "pos"]
        kw = {p["name"]: p for p in m["params"] if p["kind"] == "kw"}
        return pos, kw

    def applicable(m):
        pos, kw = sig(m)
        req = sum(1 for p in pos if not p.get("default"))
        if not (req <= npos <= len(pos)):
            return False
        if any(k not in kw for k in names):
            return False
        if any(not p.get("default") and k not in names for k, p in kw.items()):
            return False
        for p, c in zip(pos, call["pos"]):
            if not issubclass(ns[c], ns[p["type"]]):
                return False
        for k, c in call.get("kw", {}).items():
            if not issubclass(ns[c], ns[kw[k]["type"]]):
                return False
        return True

    def types_at(m):
        pos, kw = sig(m)
        return [ns[p["type"]] for p in pos[:npos]] + [ns[kw[k]["type"]] for k in sorted(names)]

    def same_sig(a, b):
        return [(p["name"] if p["kind"] == "kw" else None, p["kind"], p["type"], bool(p.get("default"))) for p in a["params"]] == [(p["name"] if p["kind"] == "kw" else None, p["kind"], p["type"], bool(p.get("default"))) for p in b["params"]] and a.get("priority", 0) == b.get("priority", 0)

    methods = sc["methods"]
    app = [m for m in methods if applicable(m)]

    def beats(a, b):
        pa, pb = a.get("priority", 0), b.get("priority", 0)
        if pa > pb:
            return True
        if pa < pb:
            return False
        if same_sig(a, b):
            return methods.index(a) > methods.index(b)  # most recently registered wins
        return all(x is y or issubclass(x, y) for x, y in zip(types_at(a), types_at(b)))

    if not app:
        return ("nomethod",), dict(chain=True)
    winners = [m for m in app if all(beats(m, o) for o in app if o is not m)]
    # pattern of the known finding F-lvl: at some supplied position two applicable *registered* types are unrelated
    by_type_app = [m for m in methods if all(issubclass(ns[c], t) for c, t in zip(call["pos"], [ns[p["type"]] for p in m["params"] if p["kind"] == "pos"][:npos])) and len([p for p in m["params"] if p["kind"] == "pos"]) >= npos]
    chain = True
    for i in range(npos):
        ts = []
        for m in methods:
            pos = [p for p in m["params"] if p["kind"] == "pos"]
            if i < len(pos) and issubclass(ns[call["pos"][i]], ns[pos[i]["type"]]):
                ts.append(ns[pos[i]["type"]])
        for a, b in itertools.combinations(ts, 2):
            if not (issubclass(a, b) or issubclass(b, a)):
                chain = False
    for k in names:
        ts = []
        for m in methods:
            kw = {p["name"]: p for p in m["params"] if p["kind"] == "kw"}
            if k in kw and issubclass(ns[call["kw"][k]], ns[kw[k]["type"]]):
                ts.append(ns[kw[k]["type"]])
        for a, b in itertools.combinations(ts, 2):
            if not (issubclass(a, b) or issubclass(b, a)):
                chain = False
    if len(winners) == 1:
        return ("run", winners[0]["name"]), dict(chain=chain)
    return ("ambiguous",), dict(chain=chain)


def scenarios():
    """Enumerated family: 1-2 positional parameters (+ optionally one keyword-only), 1-3 methods, priorities 0/1."""
    for dname, dag in DAGS.items():
        cl = ["object"] + list(dag)
        # single position
        for k in (1, 2, 3):
            for types in itertools.combinations(cl, k):
                for prios in ([0] * k, [1] + [0] * (k - 1)):
                    for c in dag:
                        methods = [dict(name=f"m{i}", params=[dict(name="x", kind="pos", type=t)], priority=p) for i, (t, p) in enumerate(zip(types, prios))]
                        yield dict(classes=dag, methods=methods, call=dict(pos=[c]), family=f"{dname}/1pos")
    # two positions over vee x two, and a keyword-only typed parameter
    dag = dict(DAGS["vee"], **DAGS["two"])
    for t1, t2 in itertools.product([("A", "P"), ("B", "Q"), ("A", "Q"), ("B", "P"), ("C", "P"), ("object", "Q"), ("object", "object")], repeat=2):
        if t1 == t2:
            continue
        for call in (["C", "Q"], ["A", "Q"], ["C", "P"]):
            methods = [dict(name="m0", params=[dict(name="x", kind="pos", type=t1[0]), dict(name="y", kind="pos", type=t1[1])]), dict(name="m1", params=[dict(name="x", kind="pos", type=t2[0]), dict(name="y", kind="pos", type=t2[1])])]
            yield dict(classes=dag, methods=methods, call=dict(pos=call), family="vee2/2pos")
            methods = [dict(name="m0", params=[dict(name="x", kind="pos", type=t1[0]), dict(name="k", kind="kw", type=t1[1])]), dict(name="m1", params=[dict(name="x", kind="pos", type=t2[0]), dict(name="k", kind="kw", type=t2[1])])]
            yield dict(classes=dag, methods=methods, call=dict(pos=call[:1], kw={"k": call[1]}), family="vee2/pos+kw")
    # calls made with keyword arguments only; further methods needing an extra keyword / positional arguments
    dag = DAGS["chain"]
    kwm = lambda name, *ps: dict(name=name, params=[dict(name=n_, kind=k_, type=t_) for n_, k_, t_ in ps])
    for t0, t1 in itertools.product(["A", "B", "object"], repeat=2):
        for c in ("A", "B", "C"):
            yield dict(classes=dag, methods=[kwm("m0", ("k", "kw", t0)), kwm("m1", ("k", "kw", t1), ("j", "kw", "object"))], call=dict(pos=[], kw={"k": c}), family="kwonly/extra_required_keyword")
            yield dict(classes=dag, methods=[kwm("m0", ("k", "kw", t0)), kwm("m1", ("x", "pos", "object"), ("k", "kw", t1))], call=dict(pos=[], kw={"k": c}), family="kwonly/extra_positional")
            yield dict(classes=dag, methods=[kwm("m0", ("k", "kw", t0), ("j", "kw", t1)), kwm("m1", ("k", "kw", t1)), kwm("m2", ("j", "kw", t0))], call=dict(pos=[], kw={"k": c, "j": c}), family="kwonly/two_keywords")
    # a keyword every method declares, optional in one of them, omitted by the call
    def kwd(name, *ps):
        return dict(name=name, params=[dict(name=n_, kind=k_, type=t_, **({"default": True} if d_ else {})) for n_, k_, t_, d_ in ps])

    for t0, t1 in itertools.product(["A", "B", "object"], repeat=2):
        for c in ("A", "B", "C"):
            yield dict(classes=dag, methods=[kwd("m0", ("x", "pos", t0, False), ("k", "kw", "object", True)), kwd("m1", ("x", "pos", t1, False), ("k", "kw", "object", False))], call=dict(pos=[c]), family="kw/declared_by_all_optional_in_one")
            yield dict(classes=dag, methods=[kwd("m0", ("x", "pos", t0, False), ("k", "kw", "object", True)), kwd("m1", ("x", "pos", t1, False), ("k", "kw", "object", True))], call=dict(pos=[c]), family="kw/optional_in_all")
    # the same signature registered again under another parameter name: the most recent registration wins
    for t0 in ("A", "B"):
        for c in ("B", "C"):
            yield dict(classes=dag, methods=[kwm("m0", ("x", "pos", t0)), kwm("m1", ("y", "pos", t0))], call=dict(pos=[c]), family="repeated-signature/renamed")
            yield dict(classes=dag, methods=[kwm("m0", ("x", "pos", t0), ("z", "pos", "object")), kwm("m1", ("y", "pos", t0), ("z", "pos", "object"))], call=dict(pos=[c, "A"]), family="repeated-signature/renamed2")
    # optional trailing parameter / repeated signature / arity-filtered third method (F-lvl variant)
    dag = DAGS["deepvee"]
    yield dict(classes=dag, methods=[dict(name="m0", params=[dict(name="x", kind="pos", type="A")]), dict(name="m1", params=[dict(name="x", kind="pos", type="B")]), dict(name="m2", params=[dict(name="x", kind="pos", type="A2"), dict(name="k", kind="kw", type="object")])], call=dict(pos=["C"]), family="arity-filtered")
    yield dict(classes=DAGS["chain"], methods=[dict(name="m0", params=[dict(name="x", kind="pos", type="A")]), dict(name="m1", params=[dict(name="x", kind="pos", type="A")])], call=dict(pos=["B"]), family="repeated-signature")
    yield dict(classes=DAGS["chain"], methods=[dict(name="m0", params=[dict(name="x", kind="pos", type="A")]), dict(name="m1", params=[dict(name="x", kind="pos", type="B"), dict(name="y", kind="pos", type="object", default=True)])], call=dict(pos=["C"]), family="optional")


def classify(sc, perms=False):
    want, info = oracle(sc)
    out, res = run_scenario(sc)
    probs = []
    if out != want:
        if want[0] == "run" and out[0] != "run":
            probs.append("complete")
        elif want[0] == "nomethod" or out[0] == "nomethod":
            probs.append("nomethod")
        elif out[0] == "error":
            probs.append("error")
        else:
            single = len(sc["call"]["pos"]) == 1 and not sc["call"].get("kw") and len({m.get("priority", 0) for m in sc["methods"]}) == 1 and all(len(m["params"]) == 1 for m in sc["methods"])
            # one dispatched position, equal priorities, every method accepts the call: sound by the layering lemma, not F-lvl
            probs.append("sound.single_position" if single else "sound.chain" if info["chain"] else "sound.level_unfaithful")
    if res is not None and res != out:
        probs.append("resolve_agrees")
    if perms and len(sc["methods"]) > 1:
        outs = set()
        for order in itertools.permutations(range(len(sc["methods"]))):
            # registration order of *distinct* signatures must not matter (C06); identical signatures keep their order
            o, _ = run_scenario(sc, order)
            outs.add(o)
        sigs = [json.dumps([(p["name"] if p["kind"] == "kw" else None, p["kind"], p["type"], bool(p.get("default"))) for p in m["params"]]) + str(m.get("priority", 0)) for m in sc["methods"]]
        if len(outs) > 1 and len(set(sigs)) == len(sigs):
            probs.append("registration_order" + ("" if info["chain"] else ".level_unfaithful"))
    return probs, dict(expected=want, got=out, resolve=res, chain=info["chain"])


def main():
    if sys.argv[1] == "scenario":
        sc = json.loads(sys.argv[2])
        probs, d = classify(sc, perms=True)
        print(json.dumps(dict(problems=probs, **d)))
        return 1 if probs else 0
    perms = "--perms" in sys.argv
    failing = {}
    n = 0
    for sc in scenarios():
        n += 1
        probs, d = classify(sc, perms=perms)
        for p in probs:
            f = failing.setdefault(p, dict(name=p, n_violations=0, violations=[]))
            f["n_violations"] += 1
            f.setdefault("inputs", []).append(__import__("_fp").fingerprint(d))
            if len(f["violations"]) < 2:
                f["violations"].append(dict(scenario={k: sc[k] for k in ("classes", "methods", "call")}, **d))
                f["replay_cmd"] = ["c02_oracle.py", "scenario", json.dumps({k: sc[k] for k in ("classes", "methods", "call")})]
    # resolve() names the same method the call would run, also for class-valued arguments (known finding F-resolvekey)
    class Meta(type):
        pass

    class K(metaclass=Meta):
        pass

    ov = Ovld(name="r")

    def on_meta(x: Meta):
        return "meta"

    ov.register(on_meta)
    n += 1
    try:
        called = ov(K)
    except TypeError as e:
        called = str(e)[:20]
    try:
        resolved = ov.resolve(K)(K)
    except TypeError as e:
        resolved = "TypeError:" + str(e)[:20]
    if called != resolved:
        failing["known_resolvekey.resolve_agrees_for_class_valued_arguments"] = dict(name="known_resolvekey.resolve_agrees_for_class_valued_arguments", n_violations=1, violations=[dict(call=called, resolve=resolved)])
    print(json.dumps(dict(evaluations=n, failing=list(failing.values()))))
    return 1 if failing else 0


if __name__ == "__main__":
    sys.exit(main())
