"""C09 (and the rewrite parts of C08 / C07 / C03 / C01) in R mode: a contract on recode / NameConverter checked at run
time over a grammar of method bodies.  Bounded stand-in, never counted as proved.

For every body B (a method that uses recurse / call_next in some expression context):
  behavioural   the registered (rewritten) method and the ORIGINAL source with recurse / call_next bound to ordinary
                callables give the same result or exception and the same trace of argument-expression evaluations
                (each exactly once, left to right)
  structural    the real NameConverter applied to B's AST yields a tree that, un-rewritten (MAP[(...)](...) back to a
                call, temporaries dropped), equals B's AST; every argument expression occurs exactly once
  metadata      __defaults__, __kwdefaults__, __annotations__, closure cells, co_firstlineno and the line numbers of
                the body are those of the original
usage: c09_rewrite.py [quick|thorough]
"""
import ast
import inspect
import itertools
import json
import linecache
import sys
import textwrap

from ovld import Ovld, call_next, recurse
from ovld.recode import NameConverter
from ovld.utils import UsageError

TRACE = []


def t(i, v):
    TRACE.append(i)
    return v


class Boom(Exception):
    pass


def boom():
    raise Boom("boom")


# ---- grammar ---------------------------------------------------------------------------------------------------
# each entry: (name, source of `def m(x: int, ...)`, call args, pattern tag)  -- `R` stands for recurse or call_next
BODIES = [
    ("direct", "def m(x: int):\n    return ['m', R(t(1, str(x)))]", (3,), None),
    ("nested_first", "def m(x: int):\n    return ['m', R(R(t(1, str(x))))]", (3,), None),
    ("two_args_nested_second", "def m(x: int, y: object = None):\n    return ['m', R(t(1, 'a'), R(t(2, 'b')))]", (3,), None),
    ("two_args", "def m(x: int, y: object = None):\n    return ['m', R(t(1, 'a'), t(2, 'b'))]", (3,), None),
    ("comp_element", "def m(x: int):\n    return ['m', [R(t(i, str(i))) for i in range(3)]]", (3,), None),
    ("comp_condition", "def m(x: int):\n    return ['m', [i for i in range(3) if R(t(i, str(i)))]]", (3,), None),
    ("comp_iterable", "def m(x: int):\n    return ['m', [y for y in R(t(1, 'ab'))]]", (3,), "iterable"),
    ("lambda", "def m(x: int):\n    return ['m', (lambda z: R(t(1, z)))(str(x))]", (3,), None),
    ("nested_def", "def m(x: int):\n    def inner(z):\n        return R(t(1, z))\n    return ['m', inner(str(x))]", (3,), None),
    ("two_scopes_down_defs", "def m(x: int):\n    def a(z):\n        def b():\n            return R(t(1, z))\n        return b()\n    return ['m', a(str(x))]", (3,), None),
    ("two_scopes_down_lambdas", "def m(x: int):\n    return ['m', (lambda z: (lambda: R(t(1, z)))())(str(x))]", (3,), None),
    ("lambda_in_nested_def", "def m(x: int):\n    def a(z):\n        return (lambda: [R(t(i, z)) for i in range(2)])()\n    return ['m', a(str(x))]", (3,), None),
    ("conditional", "def m(x: int):\n    return ['m', R(t(1, 'a')) if x > 2 else R(t(2, 'b'))]", (3,), None),
    ("boolean", "def m(x: int):\n    return ['m', R(t(1, '')) or R(t(2, 'b')), R(t(3, 'c')) and R(t(4, 'd'))]", (3,), None),
    ("fstring", "def m(x: int):\n    return ['m', f'<{R(t(1, str(x)))}>']", (3,), None),
    ("keyword", "def m(x: int, *, k: object = None):\n    return ['m', R(t(1, str(x)), k=t(2, 'kw'))]", (3,), None),
    ("two_keywords_reverse_declaration_order", "def m(x: int, *, k: object = None, j: object = None):\n    return ['m', R(t(1, str(x)), j=t(2, 'j'), k=t(3, 'k'))]", (3,), None),
    ("two_keywords_declaration_order", "def m(x: int, *, k: object = None, j: object = None):\n    return ['m', R(t(1, str(x)), k=t(2, 'k'), j=t(3, 'j'))]", (3,), None),
    ("starred", "def m(x: int):\n    args = (str(x),)\n    return ['m', R(*args)]", (3,), "star"),
    ("double_starred", "def m(x: int, *, k: object = None):\n    kw = dict(k='kw')\n    return ['m', R(str(x), **kw)]", (3,), "starkw"),
    ("walrus", "def m(x: int):\n    return ['m', (w := R(t(1, str(x)))), w]", (3,), None),
    ("walrus_rebinding_argument", "def m(x: int):\n    y = 'a'\n    return ['m', R(y, (y := 5))]", (3,), None),
    ("try_finally", "def m(x: int):\n    try:\n        return ['m', R(t(1, str(x)))]\n    finally:\n        TRACE.append('finally')", (3,), None),
    ("exception_in_argument", "def m(x: int):\n    return ['m', R(t(1, 'a'), boom())]", (3,), None),
    ("generator", "def m(x: int):\n    def gen():\n        yield R(t(1, 'a'))\n        yield R(t(2, 'b'))\n    return ['m', list(gen())]", (3,), None),
    ("default_value", "def m(x: int, y: object = 'dflt'):\n    return ['m', y, R(t(1, str(x)))]", (3,), None),
    ("kwonly_default", "def m(x: int, *, k: object = 'kdflt'):\n    return ['m', k, R(t(1, str(x)))]", (3,), None),
    ("lambda_in_default", "def m(x: int, f: object = (lambda q: q + 1)):\n    return ['m', f(1), R(t(1, str(x)))]", (3,), None),
    ("genexp_in_kwonly_default", "def m(x: int, *, g: object = tuple(i for i in range(2))):\n    return ['m', g, R(t(1, str(x)))]", (3,), None),
    ("attribute_of_result", "def m(x: int):\n    return ['m', R(t(1, str(x))).__class__.__name__]", (3,), None),
    ("subscript_of_result", "def m(x: int):\n    return ['m', R(t(1, str(x)))[0]]", (3,), None),
    ("in_dict_and_set", "def m(x: int):\n    return ['m', {R(t(1, 'a'))[1]: R(t(2, 'b'))}]", (3,), None),
    ("augmented", "def m(x: int):\n    acc = ['m']\n    acc += R(t(1, str(x)))\n    return acc", (3,), None),
    ("slice_bounds", "def m(x: int):\n    data = 'abcdef'\n    return ['m', data[len(R(t(1, 'a'))) - 4:len(R(t(2, 'b'))) - 1]]", (3,), None),
    ("chained_comparison", "def m(x: int):\n    return ['m', R(t(1, 'a')) < R(t(2, 'b')) < R(t(3, 'c'))]", (3,), None),
    ("ternary_in_argument", "def m(x: int):\n    return ['m', R(t(1, 'a') if x > 2 else t(2, 'b'))]", (3,), None),
    ("augmented_subscript", "def m(x: int):\n    d = {'s': 0}\n    d[R(t(1, 'a'))[0]] += len(R(t(2, 'bb')))\n    return ['m', d]", (3,), None),
    ("with_statement", "def m(x: int):\n    import contextlib\n    with contextlib.nullcontext(R(t(1, 'a'))) as v:\n        return ['m', v, R(t(2, 'b'))]", (3,), None),
    ("unpacking_target", "def m(x: int):\n    a, *b = R(t(1, 'a')), R(t(2, 'b')), R(t(3, 'c'))\n    return ['m', a, b]", (3,), None),
    ("assert_and_del", "def m(x: int):\n    v = R(t(1, 'a'))\n    assert R(t(2, 'b')), 'never'\n    del v\n    return ['m']", (3,), None),
    ("yield_from", "def m(x: int):\n    def gen():\n        yield from R(t(1, 'a'))\n    return ['m', list(gen())]", (3,), None),
    ("nested_fstring_format", "def m(x: int):\n    return ['m', f'{R(t(1, str(x)))[0]!r:>{len(R(t(2, \'bb\')))}}']", (3,), None),
    ("dict_comprehension", "def m(x: int):\n    return ['m', {i: R(t(i, str(i))) for i in range(2)}]", (3,), None),
    ("nested_comprehension", "def m(x: int):\n    return ['m', [[R(t(i * 2 + j, str(j))) for j in range(2)] for i in range(2)]]", (3,), None),
    ("default_argument_of_inner_lambda", "def m(x: int):\n    f = lambda z=R(t(1, 'a')): z\n    return ['m', f()]", (3,), None),
    ("decorated_inner_def", "def m(x: int):\n    def deco(g):\n        return lambda *a: ['decorated', g(*a)]\n    @deco\n    def inner(z=R(t(1, 'a'))):\n        return z\n    return ['m', inner()]", (3,), None),
    ("decorated_inner_generator", "def m(x: int):\n    def listify(g):\n        return lambda *a: list(g(*a))\n    @listify\n    def inner(z):\n        yield R(t(1, z))\n        yield z\n    return ['m', inner(str(x))]", (3,), None),
    # the rewritten call starts on a LATER line than the statement / expression that contains it: line tables and tracebacks
    ("multi_line_list", "def m(x: int):\n    return [\n        'm',\n        R(t(1, str(x))),\n        R(\n            t(2, 'b')\n        ),\n    ]", (3,), None),
    ("multi_line_conditional", "def m(x: int):\n    return ['m', (\n        R(t(1, 'a'))\n        if x > 2\n        else R(t(2, 'b'))\n    )]", (3,), None),
    ("multi_line_comprehension", "def m(x: int):\n    return ['m', [\n        R(t(i, str(i)))\n        for i in range(2)\n    ]]", (3,), None),
    ("multi_line_exception_in_argument", "def m(x: int):\n    return ['m', (\n        1,\n        R(t(1, 'a'),\n          boom()),\n    )]", (3,), None),
    ("class_body_inside", "def m(x: int):\n    class K:\n        v = R(t(1, 'a'))\n    return ['m', K.v]", (3,), "classbody"),
    ("match_statement", "def m(x: int):\n    match R(t(1, 'a')):\n        case [tag, *rest]:\n            return ['m', tag, R(t(2, 'b'))]\n    return ['m']", (3,), None),
    ("return_in_finally", "def m(x: int):\n    try:\n        raise ValueError\n    except ValueError:\n        return ['m', R(t(1, 'a'))]\n    finally:\n        TRACE.append('f')", (3,), None),
    ("keyword_then_positional_mix", "def m(x: int, *, k: object = None):\n    return ['m', R(t(1, str(x)), k=R(t(2, 'inner')))]", (3,), None),
    ("result_called", "def m(x: int):\n    return ['m', (lambda *a: a)(*R(t(1, 'a')))]", (3,), None),
    ("recurse_into_the_same_method_that_also_uses_call_next", "def m(x: int):\n    if x > 3:\n        return ['top', call_next(t(2, x))]\n    return ['m', recurse(t(1, x + 1))]", (3,), "both"),
    ("both_symbols_in_one_method", "def m(x: int):\n    return ['m', recurse(t(1, str(x))), call_next(t(2, x)), recurse(t(3, 'z'))]", (3,), "both"),
    ("while_loop", "def m(x: int):\n    out = ['m']\n    i = 0\n    while i < 2:\n        out.append(R(t(i, str(i))))\n        i += 1\n    return out", (3,), None),
]

CLOSURE_BODIES = [
    # recurse / call_next reached through a closure variable that sorts BETWEEN other free variables of the method
    ("closure_symbol_between_free_vars", "def make(prefix, sym):\n    alpha, zeta = 'A', 'Z'\n    def m(x: int):\n        return ['m', alpha, sym(t(1, alpha + prefix + str(x) + zeta)), zeta]\n    return m", (3,), None),
    ("closure_symbol_first_of_free_vars", "def make(prefix, aaa_sym):\n    zeta = 'Z'\n    def m(x: int):\n        return ['m', aaa_sym(t(1, prefix + str(x) + zeta)), zeta]\n    return m", (3,), None),
    ("closure_var", "def make(prefix):\n    def m(x: int):\n        return ['m', prefix, R(t(1, prefix + str(x)))]\n    return m", (3,), None),
    ("closure_two_vars", "def make(prefix, suffix='!'):\n    def m(x: int):\n        return ['m', R(t(1, prefix + str(x) + suffix)), suffix]\n    return m", (3,), None),
]


def define(src, fname, glb):
    """Compile src under a virtual file name whose lines are known to linecache (so inspect.getsource works)."""
    linecache.cache[fname] = (len(src), None, src.splitlines(True), fname)
    exec(compile(src, fname, "exec"), glb)


def build(name, src, which, closure=False):
    """Returns (registered ovld, reference callable)."""
    sym = {"recurse": "recurse", "call_next": "call_next"}[which]
    src2 = src.replace("R(", sym + "(")
    # leading blank lines: the method does not start at line 1 of its file
    src2 = "\n\n\n" + src2 + "\n"
    fname = f"<c09:{name}:{which}>"
    ov = Ovld(name="ov")
    glb = dict(t=t, TRACE=TRACE, boom=boom, recurse=recurse, call_next=call_next)
    define(src2, fname, glb)
    def _made(g_, symval):
        mk = g_["make"]
        return mk("P", symval) if any(n_.endswith("sym") for n_ in inspect.signature(mk).parameters) else mk("P")

    m = _made(glb, glb[sym]) if closure else glb["m"]

    # companions: with a keyword-only parameter for bodies that pass one, with an optional second positional otherwise
    # (one signature having both would run into the known finding F-kwdrop on the reference side)
    if "j=" in src:

        def s_method(x: str, *, k: object = None, j: object = None):
            return ["s", x, None, k, j]

        def o_method(x: object, *, k: object = None, j: object = None):
            return ["o", x, None, k, j]

        def lower_int(x: int, *, k: object = None, j: object = None):
            return ["lower_int", x, None, k, j]

    elif "k=" in src or "**kw" in src or "*, k" in src:

        def s_method(x: str, *, k: object = None):
            return ["s", x, None, k]

        def o_method(x: object, *, k: object = None):
            return ["o", x, None, k]

        def lower_int(x: int, *, k: object = None):
            return ["lower_int", x, None, k]

    else:

        def s_method(x: str, y: object = None):
            return ["s", x, y, None]

        def o_method(x: object, y: object = None):
            return ["o", x, y, None]

        def lower_int(x: int, y: object = None):
            return ["lower_int", x, y, None]

    ov.register(s_method)
    ov.register(o_method)
    if which == "call_next":
        ov.register(lower_int)
        ov.register(m, priority=1)
    else:
        ov.register(m)
    # reference: the same source, recurse / call_next are ordinary callables of the documented meaning
    ref_ov = Ovld(name="ref")
    ref_ov.register(s_method)
    ref_ov.register(o_method)
    if which == "call_next":
        ref_ov.register(lower_int)

    def ref_recurse(*a, **k):
        # re-enters the function that was called: the method under test for ints, the others otherwise
        if a and type(a[0]) is int:
            return ref_m(*a, **k)
        return ref_ov(*a, **k)

    def ref_call_next(*a, **k):
        return ref_ov(*a, **k)  # everything ranked below the method under test

    glb2 = dict(t=t, TRACE=TRACE, boom=boom, recurse=ref_recurse, call_next=ref_call_next)
    define(src2, fname + "ref", glb2)
    ref_m = _made(glb2, glb2[sym]) if closure else glb2["m"]
    return ov, ref_m, m, src2


def run(fn, args):
    del TRACE[:]
    try:
        r = ("ok", fn(*args))
    except (TypeError, UsageError, SyntaxError) as e:
        r = ("cfg", type(e).__name__, str(e)[:60])
    except Boom:
        r = ("boom",)
    except Exception as e:
        r = ("exc", type(e).__name__, str(e)[:60])
    return r, list(TRACE)


class Unrewrite(ast.NodeTransformer):
    """MAP[(key...)](args) -> R(args); `(tmp := e)` -> e; loads of temporaries resolved."""

    def __init__(self, map_name, code_name, ovld_name):
        self.map_name, self.code_name, self.ovld_name = map_name, code_name, ovld_name
        self.tmp = {}

    def visit_Call(self, node):
        f = node.func
        if isinstance(f, ast.Subscript) and isinstance(f.value, ast.Name) and f.value.id == self.map_name:
            elts = f.slice.elts if isinstance(f.slice, ast.Tuple) else [f.slice]
            cn = bool(elts) and isinstance(elts[0], ast.Name) and elts[0].id == self.code_name
            for e in elts[1:] if cn else elts:
                call = e.elts[1] if isinstance(e, ast.Tuple) else e
                ne = call.args[0]
                self.tmp[ne.target.id] = self.visit(ne.value)
            args = [self.tmp[a.id] for a in node.args if not (isinstance(a, ast.Name) and a.id == "self")]
            kws = [ast.keyword(arg=k.arg, value=self.tmp[k.value.id]) for k in node.keywords]
            return ast.Call(func=ast.Name(id="call_next" if cn else "recurse", ctx=ast.Load()), args=args, keywords=kws)
        return self.generic_visit(node)

    def visit_Name(self, node):
        if node.id == self.ovld_name:
            return ast.Name(id="recurse", ctx=node.ctx)
        return node


def structural(src2, which, ov):
    tree = ast.parse(textwrap.dedent(src2))
    fn_node = next(n for n in ast.walk(tree) if isinstance(n, ast.FunctionDef) and n.name == "m")
    mod = ast.Module(body=[fn_node], type_ignores=[])
    orig_dump = ast.dump(mod)
    conv = NameConverter(anal=ov.argument_analysis, recurse_sym="recurse" if which == "recurse" else None, call_next_sym="call_next" if which == "call_next" else None, ovld_mangled="__O", map_mangled="__M", code_mangled="__C")
    new = conv.visit(ast.parse(textwrap.dedent(src2)))
    fn_new = next(n for n in ast.walk(new) if isinstance(n, ast.FunctionDef) and n.name == "m")
    back = Unrewrite("__M", "__C", "__O").visit(ast.Module(body=[fn_new], type_ignores=[]))
    return ast.dump(back) == orig_dump


def main():
    tier = sys.argv[1] if len(sys.argv) > 1 else "quick"
    failing, n = {}, 0

    def fail(name, **d):
        f = failing.setdefault(name, dict(name=name, n_violations=0, violations=[]))
        f["n_violations"] += 1
        f.setdefault("inputs", []).append(__import__("_fp").fingerprint(d))
        if len(f["violations"]) < 2:
            f["violations"].append(d)

    for (name, src, args, pattern), closure in [(b, False) for b in BODIES] + [(b, True) for b in CLOSURE_BODIES]:
        for which in ("recurse", "call_next"):
            n += 1
            label = f"{name}:{which}"
            tag = {None: "", "iterable": "known_iterable.", "star": "known_star.", "starkw": "known_starkw.", "classbody": "known_classbody.", "both": ""}[pattern]
            if pattern == "both" and which == "recurse":
                continue  # registered once, in the call_next arrangement (a lower method of the same class exists)
            if pattern == "star" and which == "recurse":
                tag = ""  # recurse(*args) is left as a plain call of the function: supported
            try:
                ov, ref_m, m, src2 = build(name, src, which, closure)
                got = run(ov, args)
            except Exception as e:
                got = (("cfg", type(e).__name__, str(e)[:60]), [])
                ref_m = None
            if ref_m is None:
                fail(f"{tag}accepted[{label}]", error=got)
                continue
            want = run(ref_m, args)
            if got != want:
                fail(f"{tag}behaves_like_original_source[{label}]", got=got, original=want)
                continue
            if pattern is None:
                try:
                    ok = structural(src2, which, ov)
                except Exception as e:
                    ok = f"{type(e).__name__}: {e}"
                if ok is not True:
                    fail(f"unrewrite_gives_back_the_original_tree[{label}]", detail=ok)
                # metadata
                adapted = [h for h in ov.map.type_tuples if getattr(h, "__code__", None) is not None and h.__code__.co_firstlineno == m.__code__.co_firstlineno and h.__code__.co_filename == m.__code__.co_filename]
                if len(adapted) != 1:
                    fail(f"compiled_at_the_original_file_and_line[{label}]", found=len(adapted))
                else:
                    a = adapted[0]
                    if a.__defaults__ != m.__defaults__ or a.__kwdefaults__ != m.__kwdefaults__ or a.__annotations__ != m.__annotations__:
                        fail(f"defaults_kwdefaults_annotations_carried_over[{label}]", defaults=[repr(a.__defaults__), repr(m.__defaults__)], kwdefaults=[repr(a.__kwdefaults__), repr(m.__kwdefaults__)])
                    la = sorted({l for _, _, l in a.__code__.co_lines() if l})
                    lm = sorted({l for _, _, l in m.__code__.co_lines() if l})
                    if la != lm:
                        fail(f"line_numbers_preserved[{label}]", adapted=la, original=lm)
    print(json.dumps(dict(evaluations=n, failing=list(failing.values())), default=repr))
    return 1 if failing else 0


if __name__ == "__main__":
    sys.exit(main())
