"""F-annotated (C15): Annotated[Any, ...] / Annotated[type, ...] were not normalised like Any / type (the Annotated
wrapper was removed only after the special cases had been tested).  exit 1 = defect present."""
import sys
from typing import Annotated, Any
from ovld import ovld

@ovld
def f(x: Annotated[Any, "doc"]): return "any"
@ovld
def g(x: Any): return "any"
@ovld
def h(x: Annotated[type, "doc"]): return "type"
@ovld
def k(x: type): return "type"

def out(fn, a):
    try: return fn(a)
    except TypeError as e: return "TypeError"
bad = [(n, a) for (n, p, q, a) in (("Any", f, g, 1), ("type", h, k, int), ("type", h, k, list[int])) if out(p, a) != out(q, a)]
if bad:
    print("DEFECT: Annotated spelling dispatches differently:", bad); sys.exit(1)
print("OK"); sys.exit(0)
