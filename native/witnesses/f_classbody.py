"""F-classbody: recurse / call_next used in a class body nested in a method: the names the rewrite injects start with
two underscores, so Python's private-name mangling turns ___MAPn into _K___MAPn inside `class K:` -> NameError.
exit 1 = defect present."""
import sys

from ovld import ovld, recurse


@ovld
def f(x: int):
    class K:
        v = recurse(str(x))

    return K.v


@ovld
def f(x: str):
    return "str:" + x


try:
    got = f(3)
except NameError as e:
    print("DEFECT:", e)
    sys.exit(1)
print("ok", got)
sys.exit(0 if got == "str:3" else 1)
