"""F-tiebreak (C05/C02): replace then unregister leaves tiebreak -1 on the survivor; the tiebreak then decides
between *different* signatures.  exit 1 = defect present."""
import sys
from ovld import Ovld

o = Ovld(name="f")
def f1(x: int): return "f1"
def f1b(x: int): return "f1b"
def f2(x: int, y: int = 0): return "f2"
o.register(f1); o.register(f1b); o.unregister(f1b); o.register(f2)
fresh = Ovld(name="g")
def g1(x: int): return "f1"
def g2(x: int, y: int = 0): return "f2"
fresh.register(g1); fresh.register(g2)
def outcome(fn):
    try:
        return fn(1)
    except TypeError as e:
        return str(e).split(" in ")[0]
a, b = outcome(o), outcome(fresh)
if a != b:
    print("DEFECT: after register/re-register/unregister:", a, "| fresh function:", b)
    sys.exit(1)
print("OK", a)
sys.exit(0)
