"""F-sfhcodegen (fixed): a class-check type combined with a value-dependent type (`HasMethod[..] & Dependent[..]`) raised
AttributeError ('SingleFunctionHandler' object has no attribute 'codegen') on the first call.  exit 1 = defect present."""
import sys

from ovld import Dependent, Ovld
from ovld.types import HasMethod


def positive(x: int):
    return x > 0


o = Ovld(name="f")


def m(x: HasMethod["bit_length"] & Dependent[int, positive]):
    return "both"


def other(x: object):
    return "obj"


o.register(m)
o.register(other)
try:
    got = [o(5), o(-5), o("s")]
except AttributeError as e:
    print("DEFECT:", e)
    sys.exit(1)
print(got)
sys.exit(0 if got == ["both", "obj", "obj"] else 1)
