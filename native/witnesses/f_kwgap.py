"""F-kwgap (fixed): an optional strictly positional parameter followed by ONE optional named positional parameter: the named one
stayed keyword-capable in the generated entry point, so `f(1, z=5)` took the "second argument is missing" early exit, which assumes
every later positional is missing too, and silently dropped z. docs/usage.md: when more than one positional is optional they are all
strictly positional - the call must be refused loudly (or, if accepted, pass z).
exit 1 = defect present."""
import sys

from ovld import Ovld

bad = []


def check(label, o, call, expected):
    try:
        r = call(o)
    except TypeError as e:
        if "positional-only" in str(e) or "keyword" in str(e):
            return  # refused loudly at binding time
        bad.append(f"{label}: unexpected TypeError {e}")
        return
    if r != expected:
        bad.append(f"{label} -> {r!r}, the method alone returns {expected!r}")


o = Ovld(name="f")


def m(x: int, y: int = 2, /, z: int = 3):
    return (x, y, z)


o.register(m)
check("f(x, y=2, /, z=3): f(1, z=5)", o, lambda f: f(1, z=5), (1, 2, 5))

o2 = Ovld(name="g")


def g1(x: int, y: int = 2, z: int = 3):
    return ("g1", x, y, z)


def g2(x: str, q: int = 2, z: int = 3):
    return ("g2", x, q, z)


o2.register(g1)
o2.register(g2)
check("g(x, y=2, z=3) | g(x, q=2, z=3): g(1, z=5)", o2, lambda f: f(1, z=5), ("g1", 1, 2, 5))
check("g('a', z=5)", o2, lambda f: f("a", z=5), ("g2", "a", 2, 5))
# the supported shapes still work
if o(1, 7, 5) != (1, 7, 5) or o(1) != (1, 2, 3) or o2(1, 7, 5) != ("g1", 1, 7, 5):
    bad.append("fully positional calls changed")
if bad:
    print("DEFECT: " + "; ".join(bad))
    sys.exit(1)
print("ok")
