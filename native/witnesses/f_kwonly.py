"""F-kwonly (C01/C10): a dependent annotation on a method without positional parameters -> IndexError in wrap_dependent."""
import sys
from typing import Literal
from ovld import ovld

@ovld
def f(*, k: Literal[1]):
    return "one"
try:
    r = f(k=1)
except IndexError as e:
    print("DEFECT: IndexError", e); sys.exit(1)
except Exception as e:
    print("other", type(e).__name__, e); sys.exit(0 if isinstance(e, TypeError) else 3)
print("OK", r); sys.exit(0)
