"""F-kwdrop (fixed): an omitted optional positional made the generated entry point drop the keyword arguments.
exit 1 = defect present."""
import sys

from ovld import Ovld

o = Ovld(name="f")


def m(x: int, y: int = 7, *, k: int = 3):
    return (x, y, k)


o.register(m)
bad = []
if o(1, k=5) != (1, 7, 5):
    bad.append(f"f(1, k=5) -> {o(1, k=5)!r}, the method alone returns (1, 7, 5)")
o2 = Ovld(name="g")


def m2(x: int = 0, *, k: int):
    return (x, k)


o2.register(m2)
try:
    r = o2(k=4)
    if r != (0, 4):
        bad.append(f"g(k=4) -> {r!r}")
except TypeError as e:
    bad.append(f"g(k=4) rejected: {e}")
if bad:
    print("DEFECT: " + "; ".join(bad))
    sys.exit(1)
print("ok")
