"""F-depnext (C10/C07): a dependent rank directly above a tied rank falls through to 'No method' instead of the
ambiguity error that the call raises when the dependent method is absent.  exit 1 = defect present."""
import sys
from ovld import ovld, Dependent, Ovld

class A: ...
class B: ...
class C(A, B):
    def __init__(self, v): self.v = v

def positive(c: C): return c.v > 0

def build(with_dep):
    o = Ovld(name="f")
    if with_dep:
        def fd(x: Dependent[C, positive]): return "dep"
        o.register(fd)
    def fa(x: A): return "A"
    def fb(x: B): return "B"
    o.register(fa); o.register(fb)
    return o
def outcome(o):
    try:
        return o(C(0))
    except TypeError as e:
        return str(e).split(" in ")[0]
a, b = outcome(build(True)), outcome(build(False))
if a != b:
    print("DEFECT: condition false ->", a, "| without the dependent method ->", b)
    sys.exit(1)
print("OK", a)
sys.exit(0)
