"""F-orprec (fixed): Union.codegen emitted 'A or B' without parentheses; spliced into a conjunction with the check of
another argument it regrouped, so a method ran for arguments its annotation excludes.  exit 1 = defect present."""
import sys
from typing import Literal

from ovld import Ovld

o = Ovld(name="f")


def m1(x: Literal[1] | Literal["a"], y: Literal[5]):
    return "m1"


def m0(x: object, y: object):
    return "other"


o.register(m1)
o.register(m0)
got = [o(1, 5), o("a", 5), o(1, 6), o("a", 6), o(2, 5)]
if got != ["m1", "m1", "other", "other", "other"]:
    print("DEFECT:", got)
    sys.exit(1)
print("ok")
