"""F-lvl (C02/C06/C07): integer specificity levels are not the subclass order.  f(x:A, y:P), f(x:B, y:Q) with A, B
unrelated, Q < P: f(C(A,B)(), Q()) runs the second method; the documented rule says ambiguous.  exit 1 = defect present."""
import json, subprocess, sys
sc = {"classes": {"A": [], "B": [], "C": ["A", "B"], "P": [], "Q": ["P"]},
      "methods": [{"name": "m0", "params": [{"name": "x", "kind": "pos", "type": "A"}, {"name": "y", "kind": "pos", "type": "P"}]},
                  {"name": "m1", "params": [{"name": "x", "kind": "pos", "type": "B"}, {"name": "y", "kind": "pos", "type": "Q"}]}],
      "call": {"pos": ["C", "Q"]}}
import c02_oracle
probs, d = c02_oracle.classify(sc)
if probs:
    print("DEFECT:", probs, d)
    sys.exit(1)
print("OK")
sys.exit(0)
