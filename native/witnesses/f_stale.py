"""F-stale (C05): MultiTypeMap.register flushed the dict part but kept remembered ambiguity errors / candidate
sets, so an ambiguity resolved by a later registration was still reported.  exit 1 = defect present."""
import sys

from ovld.core import Signature
from ovld.typemap import MultiTypeMap


class A: ...
class B: ...
class C(A, B): ...


def sig(*types):
    return Signature(types=types, return_type=None, req_pos=len(types), max_pos=len(types), req_names=frozenset(), vararg=False, priority=0)


def fa(x): return "A"
def fb(x): return "B"
def fc(x): return "C"


m = MultiTypeMap()
m.register(sig(A), fa)
m.register(sig(B), fb)
try:
    m[(C,)]
    print("unexpected: no ambiguity before the third registration")
    sys.exit(3)
except KeyError:
    pass
m.register(sig(C), fc)
fresh = MultiTypeMap()
for s, f in ((sig(A), fa), (sig(B), fb), (sig(C), fc)):
    fresh.register(s, f)
want = fresh[(C,)]
try:
    got = m[(C,)]
except KeyError as e:
    print("DEFECT: remembered ambiguity survives the registration that resolves it:", repr(e)[:80])
    sys.exit(1)
if got is not want:
    print("DEFECT: differs from a fresh table", got, want)
    sys.exit(1)
print("OK")
sys.exit(0)
