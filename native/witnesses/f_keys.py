"""F-keys (C11/C15): Equals.get_keys returned only the first value, so on the lookup-table path (>= 4 Literal methods)
a multi-valued Literal matched only its first value.  exit 1 = defect present."""
import sys
from typing import Literal
from ovld import ovld


@ovld
def g(x: Literal[1, 2]): return "12"
@ovld
def g(x: Literal[3]): return "3"
@ovld
def g(x: Literal[4]): return "4"
@ovld
def g(x: Literal[5]): return "5"
@ovld
def g(x: Literal[6]): return "6"
@ovld
def g(x: object): return "other"

got = [g(v) for v in (1, 2, 3, 7)]
if got != ["12", "12", "3", "other"]:
    print("DEFECT:", got)
    sys.exit(1)
print("OK", got)
sys.exit(0)
