"""F-partialwrite (C18): resolve writes the first-rank entry before the continuation entries; an exception arriving
between the two writes leaves call_next answering 'No method' permanently (the first-rank entry is a cache hit, so the
resolution is never redone).  The interrupt is injected with sys.settrace at the second execution of the line
`self[tup] = func` inside MultiTypeMap.resolve.  exit 1 = defect present."""
import inspect
import sys

from ovld import Ovld, call_next
from ovld.typemap import MultiTypeMap

src, start = inspect.getsourcelines(MultiTypeMap.resolve)
target = next(start + i for i, l in enumerate(src) if l.strip() == "self[tup] = func")
code = MultiTypeMap.resolve.__code__


class A: ...
class B(A): ...


def build():
    o = Ovld(name="f")

    def fb(x: B):
        return ["B"] + call_next(x)

    def fa(x: A):
        return ["A"]

    o.register(fb)
    o.register(fa)
    return o


def out(th):
    try:
        return th()
    except TypeError as e:
        return "NOMETHOD" if str(e).startswith("No method") else f"TypeError:{e}"
    except KeyboardInterrupt:
        return "INTERRUPTED"


want = out(lambda: build()(B()))
o = build()
hits = {"n": 0}


def tracer(frame, event, arg):
    if frame.f_code is code:
        def local(frame, event, arg):
            if event == "line" and frame.f_lineno == target:
                hits["n"] += 1
                if hits["n"] == 2:
                    raise KeyboardInterrupt("injected between the writes of resolve")
            return local
        return local
    return None


sys.settrace(tracer)
first = out(lambda: o(B()))
sys.settrace(None)
later = out(lambda: o(B()))
if first == "INTERRUPTED" and later != want:
    print("DEFECT: after an interrupt between resolve's writes:", later, "| uninterrupted:", want)
    sys.exit(1)
print("OK", first, later, want)
sys.exit(0)
