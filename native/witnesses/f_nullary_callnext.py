"""F-nullary-callnext (C07): call_next() from a method without parameters raises KeyError(()) instead of the
'No method' TypeError.  exit 1 = defect present."""
import sys
from ovld import ovld, call_next


@ovld
def f():
    return call_next()


try:
    f()
except TypeError as e:
    print("OK", str(e)[:60])
    sys.exit(0)
except KeyError as e:
    print("DEFECT: KeyError", repr(e))
    sys.exit(1)
print("unexpected: no exception")
sys.exit(3)
