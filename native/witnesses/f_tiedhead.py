"""F-tiedhead: when two candidates have equal sort keys (same priority, same sum of levels) but neither dominates the
other, which of them heads the rank depends on the iteration order of the candidate SET; the rank then contains
different methods (the head plus what the head does not dominate).  With a value-dependent member in the rank the
outcome of the call differs (one method runs / ambiguity error).  Made deterministic here with handler objects whose
hash is chosen.  exit 1 = defect present (the two orders give different ranks)."""
import sys

from ovld.core import Signature
from ovld.typemap import MultiTypeMap


class L1: ...
class L2(L1): ...
class S(L1): ...  # stands for a more specific type at position 0 (e.g. a value-dependent type bounded by L1)


class H:
    def __init__(self, name, h):
        self.name, self.h = name, h
        self.__name__ = name

    def __hash__(self):
        return self.h

    def __eq__(self, o):
        return self is o

    def __call__(self, *a):
        return self.name


def sig(types):
    return Signature(types=types, return_type=object, req_pos=len(types), max_pos=len(types), req_names=frozenset(), vararg=False, priority=0, arginfo=[])


def ranks(order):
    m = MultiTypeMap()
    hs = {}
    for i, (name, types) in enumerate((("o1", (object, L1)), ("a11", (L1, L1)), ("So", (S, object)))):
        hs[name] = H(name, order[name])
        m.register(sig(types), hs[name])

    class SL2(S, L2): ...

    return [sorted(c.handler.name for c in g) for g in m.mro((SL2, L2))]


r1 = ranks(dict(o1=1, a11=2, So=3))
r2 = ranks(dict(o1=1, a11=3, So=2))
print(r1, r2)
sys.exit(1 if r1 != r2 else 0)
