"""F-hooktypeerror: a __subclasshook__ raising TypeError once during cache-miss resolution is swallowed and the incomplete
candidate set is cached.  exit 1 = defect present."""
import abc
import sys

from ovld import Ovld

state = {"boom": True}


class Arrayish(abc.ABC):
    @classmethod
    def __subclasshook__(cls, C):
        if state["boom"]:
            state["boom"] = False
            raise TypeError("hook failed once")
        return hasattr(C, "shape") or NotImplemented


class Vec:
    shape = (3,)


o = Ovld(name="k")


def ka(x: Arrayish):
    return "array"


def ko(x: object):
    return "object"


o.register(ka)
o.register(ko)
try:
    first = o(Vec())
except Exception as e:
    first = f"raised {type(e).__name__}"
second = o(Vec())
print(first, second)
sys.exit(1 if (first == "object" or second != "array") else 0)
