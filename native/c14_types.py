"""C14 in R mode (bounded): types passed as arguments dispatch on type[...] by subtype, against an independent oracle."""
import itertools
import json
import sys
import typing

from ovld import Ovld
from ovld.mro import subclasscheck


class A: ...
class B(A): ...
class C(B): ...
class E: ...


import abc
import enum


class MA(A, metaclass=abc.ABCMeta): ...  # classes whose metaclass is not `type` are types too
class En(enum.Enum):
    one = 1


def main():
    failing, n = {}, 0

    def fail(name, **d):
        f = failing.setdefault(name, dict(name=name, n_violations=0, violations=[]))
        f["n_violations"] += 1
        f.setdefault("inputs", []).append(__import__("_fp").fingerprint(d))
        if len(f["violations"]) < 2:
            f["violations"].append(d)

    anns = {"type[A]": type[A], "type[B]": type[B], "type[object]": type[object], "type": type, "object": object, "type[list[A]]": type[list[A]], "type[list[B]]": type[list[B]], "type[list]": type[list], "A": A, "Any": typing.Any}
    passed = {"A": A, "B": B, "C": C, "E": E, "int": int, "list[A]": list[A], "list[B]": list[B], "list[C]": list[C], "list": list, "Any": typing.Any, "A()": A(), "B()": B(), "1": 1, "MA": MA, "En": En, "MA()": MA(), "En.one": En.one}

    def subtype(x, t):
        """documented meaning: x (a passed type) against the parameter T of type[T]"""
        if x is typing.Any:
            x = object
        ox, ot = typing.get_origin(x), typing.get_origin(t)
        if ot is not None:
            if ox is None:
                return False
            ax, at = typing.get_args(x), typing.get_args(t)
            return issubclass(ox, ot) and len(ax) == len(at) and all(subtype(p, q) for p, q in zip(ax, at))
        if ox is not None:
            return issubclass(ox, t)
        return issubclass(x, t)

    def is_type_arg(v):
        return isinstance(v, type) or typing.get_origin(v) is not None or v is typing.Any

    def applicable(ann, v):
        if ann is typing.Any or ann is object:
            return True
        if ann is type:
            return is_type_arg(v)
        if typing.get_origin(ann) is type:
            return is_type_arg(v) and subtype(v, typing.get_args(ann)[0])
        return (not is_type_arg(v)) and isinstance(v, ann)

    def more_specific(a, b):
        """a strictly preferred over b"""
        def norm(t):
            return object if t is typing.Any else type[object] if t is type else t
        a, b = norm(a), norm(b)
        if a == b:
            return False
        if b is object:
            return True
        if a is object:
            return False
        ga, gb = typing.get_origin(a) is type, typing.get_origin(b) is type
        if ga and gb:
            x, y = typing.get_args(a)[0], typing.get_args(b)[0]
            return x != y and subtype(x, y)
        if not ga and not gb:
            return issubclass(a, b)
        return False

    for names in itertools.chain(itertools.combinations(anns, 2), itertools.combinations(anns, 3)):
        if sum(1 for k in names if k in ("object", "Any")) > 1:
            continue
        if "type" in names and "type[object]" in names:
            continue
        ov = Ovld(name="t")
        for k in names:
            g = {"T": anns[k]}
            exec(f"def m(x: T):\n    return {k!r}\n", g)
            ov.register(g["m"])
        for pk, v in passed.items():
            n += 1
            app = [k for k in names if applicable(anns[k], v)]
            win = [k for k in app if all(k == o or more_specific(anns[k], anns[o]) for o in app)]
            want = win[0] if len(win) == 1 else "NOMETHOD" if not app else "AMBIGUOUS"
            try:
                got = ov(v)
            except TypeError as e:
                s = str(e)
                got = "AMBIGUOUS" if __import__("_errs").amb(s) else "NOMETHOD" if __import__("_errs").nomethod(s) else f"TypeError:{s[:40]}"
            except Exception as e:
                got = f"{type(e).__name__}:{str(e)[:40]}"
            if got != want:
                fail("type_argument_dispatch", methods=list(names), passed=pk, got=got, expected=want, applicable=app)
    # spellings of the special annotations: strings (from __future__ import annotations) and Annotated
    from typing import Annotated

    for label, ann, glb in (("string_type", "type", {}), ("string_Any", "Any", {"Any": typing.Any}), ("annotated_type", Annotated[type, "m"], {}), ("annotated_Any", Annotated[typing.Any, "m"], {}), ("bare_type", type, {}), ("annotated_type_of_A", Annotated[type[A], "m"], {}), ("string_type_of_A", "type[A]", {"A": A})):
        ov = Ovld(name="s")
        g = dict(glb)
        g["ANN"] = ann
        exec(f"def m(x: {ann!r}):\n    return 'special'\n" if isinstance(ann, str) else "def m(x: ANN):\n    return 'special'\n", g)
        ov.register(g["m"])
        probes = [A, B] if "of_A" in label else [int, list[int], A] if "type" in label else [1, "s", A()]
        for v in probes:
            n += 1
            try:
                got = ov(v)
            except TypeError as e:
                got = "NOMETHOD" if __import__("_errs").nomethod(str(e)) else "TypeError"
            if got != "special":
                fail(f"special_annotation_spelling[{label}]", passed=repr(v), got=got)
        if "type" in label:
            # the same spelling next to an `object` method and a second ordinary parameter: classes go to the special
            # method, ordinary values to the other one
            ov2 = Ovld(name="s2")
            g2 = dict(glb)
            g2["ANN"] = ann
            exec(f"def m(t: {ann!r}, y: int):\n    return 'special'\n" if isinstance(ann, str) else "def m(t: ANN, y: int):\n    return 'special'\n", g2)
            ov2.register(g2["m"])

            def other(t: object, y: int):
                return "object"

            ov2.register(other)
            cases = ((A, "special"), (B, "special"), (int, "object"), (1, "object"), (A(), "object")) if "of_A" in label else ((int, "special"), (A, "special"), (list[int], "special"), (1, "object"), (A(), "object"))
            for v, want in cases:
                n += 1
                try:
                    got = ov2(v, 1)
                except TypeError as e:
                    got = "AMBIGUOUS" if __import__("_errs").amb(str(e)) else "NOMETHOD" if __import__("_errs").nomethod(str(e)) else "TypeError"
                if got != want:
                    fail(f"special_annotation_next_to_an_object_method[{label}]", passed=repr(v), got=got, expected=want)
    # ordinary arguments in the same call keep dispatching on their class
    ov = Ovld(name="two")

    def m1(t: type[A], x: A):
        return "tA,A"

    def m2(t: type[A], x: B):
        return "tA,B"

    def m3(t: type[B], x: A):
        return "tB,A"

    for m in (m1, m2, m3):
        ov.register(m)
    for (t, x), want in {(A, A()): "tA,A", (A, B()): "tA,B", (B, A()): "tB,A", (C, A()): "tB,A"}.items():
        n += 1
        try:
            got = ov(t, x)
        except TypeError as e:
            got = "AMBIGUOUS" if __import__("_errs").amb(str(e)) else "NOMETHOD"
        if got != want:
            fail("mixed_type_and_ordinary_arguments", call=[repr(t), repr(x)], got=got, expected=want)
    # a keyword-only type[...] parameter supplied at a rewritten recurse / call_next site
    from ovld import call_next, recurse

    ovk = Ovld(name="kwt")

    def k_list(xs: list, *, to: type[object] = object):
        return [recurse(x, to=to) for x in xs]

    def k_int_to_str(x: int, *, to: type[str]):
        return "str:" + str(x)

    def k_int_to_int(x: int, *, to: type[int]):
        return ["int", call_next(x, to=object)]

    def k_obj(x: object, *, to: type[object] = object):
        return ("obj", x)

    for g in (k_list, k_int_to_str, k_int_to_int, k_obj):
        ovk.register(g)
    for call, want in ((lambda: ovk([1, "a"], to=str), ["str:1", ("obj", "a")]), (lambda: ovk([2], to=int), [["int", ("obj", 2)]]), (lambda: ovk(3, to=bool), ["int", ("obj", 3)])):
        n += 1
        try:
            got = call()
        except TypeError as e:
            got = "AMBIGUOUS" if __import__("_errs").amb(str(e)) else "NOMETHOD" if __import__("_errs").nomethod(str(e)) else f"TypeError:{str(e)[:40]}"
        if got != want:
            fail("keyword_only_class_argument_through_recurse_and_call_next", got=repr(got)[:100], expected=repr(want))
    # METHODS with a class-valued argument followed by an ordinary one: a rewritten recurse / call_next site must key the
    # arguments exactly like a call through the bound method does (self is not one of the dispatched positions)
    from ovld import OvldBase, extend_super

    class Ser(OvldBase):
        def ser(self, t: type[int], x: object):
            return ("int", x)

        def ser(self, t: type[str], x: object):
            return ["str", call_next(t, x)]

        def ser(self, t: type[list], x: list):
            return ["list"] + [recurse(type(y), y) for y in x] + [recurse(list[int], None), recurse(int, x)]

        def ser(self, t: type[list[int]], x: object):
            return "list[int]"

        def ser(self, t: object, x: object):
            return ("fallback", getattr(t, "__name__", str(t)))

    class Ser2(Ser):
        @extend_super
        def ser(self, t: type[float], x: object):
            return ["float", recurse(int, x)]

    for cls in (Ser, Ser2):
        inst = cls()
        cases = [
            (lambda: inst.ser(list, [1, "a", 2.5]), ["list", ("int", 1), ["str", ("fallback", "str")], (["float", ("int", 2.5)] if cls is Ser2 else ("fallback", "float")), "list[int]", ("int", [1, "a", 2.5])]),
            (lambda: inst.ser(bool, 0), ("int", 0)),
        ]
        for call, want in cases:
            n += 1
            try:
                got = call()
            except TypeError as e:
                got = "AMBIGUOUS" if __import__("_errs").amb(str(e)) else "NOMETHOD" if __import__("_errs").nomethod(str(e)) else f"TypeError:{str(e)[:40]}"
            except Exception as e:
                got = f"{type(e).__name__}:{str(e)[:40]}"
            if got != want:
                fail("class_argument_of_a_method_through_recurse_and_call_next", cls=cls.__name__, got=repr(got)[:160], expected=repr(want)[:160])
    print(json.dumps(dict(evaluations=n, failing=list(failing.values()))))
    return 1 if failing else 0


if __name__ == "__main__":
    sys.exit(main())
