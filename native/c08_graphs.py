"""C08 in R mode (bounded): recurse re-enters the overloaded function that was actually called, over derivation graphs
(copy / variant / mixins, depth and fan-in > 1), plus the code-object identity that call_next relies on (C07) and the
refresh of rewritten call sites after a change (C05)."""
import json
import sys

from ovld import Ovld, call_next, ovld, recurse


class A: ...
class B(A): ...


def out(th):
    try:
        return th()
    except RecursionError:
        return "RecursionError"
    except TypeError as e:
        s = str(e)
        return "AMBIGUOUS" if __import__("_errs").amb(s) else "NOMETHOD" if __import__("_errs").nomethod(s) else f"TypeError:{s[:50]}"
    except Exception as e:
        return f"{type(e).__name__}:{str(e)[:50]}"


def base(name="base"):
    o = Ovld(name=name)

    def f_list(xs: list):
        return [recurse(x) for x in xs]

    def f_int(x: int):
        return "base.int"

    def f_obj(x: object):
        return "base.obj"

    for g in (f_list, f_int, f_obj):
        o.register(g)
    return o


def main():
    failing, n = {}, 0

    def fail(name, **d):
        f = failing.setdefault(name, dict(name=name, n_violations=0, violations=[]))
        f["n_violations"] += 1
        f.setdefault("inputs", []).append(__import__("_fp").fingerprint(d))
        if len(f["violations"]) < 2:
            f["violations"].append(d)

    def v_int(x: int):
        return "variant.int"

    def v_str(x: str):
        return "variant.str"

    def w_int(x: int):
        return "second.int"

    # 1. inherited recursive method re-enters the variant; the parent keeps re-entering itself
    p = base()
    v = p.variant(v_int)
    n += 2
    if out(lambda: v([1, "a", [2]])) != ["variant.int", "base.obj", ["variant.int"]]:
        fail("inherited_method_reenters_the_variant", got=out(lambda: v([1, "a", [2]])))
    if out(lambda: p([1, "a", [2]])) != ["base.int", "base.obj", ["base.int"]]:
        fail("parent_keeps_reentering_itself", got=out(lambda: p([1, "a", [2]])))
    # 2. two variants of one parent that share a name (e.g. produced by a factory), used alternately; variants of variants
    p = base("shared")
    v1 = Ovld(name="same", mixins=[p])
    v1.register(v_int)
    v2 = Ovld(name="same", mixins=[p])
    v2.register(w_int)
    v11 = Ovld(name="same", mixins=[v1])
    v11.register(v_str)
    for rnd in range(2):
        n += 3
        if out(lambda: v1([1, [1]])) != ["variant.int", ["variant.int"]]:
            fail("variants_sharing_a_name_reenter_themselves", which="v1", round=rnd, got=out(lambda: v1([1, [1]])))
        if out(lambda: v2([1, [1]])) != ["second.int", ["second.int"]]:
            fail("variants_sharing_a_name_reenter_themselves", which="v2", round=rnd, got=out(lambda: v2([1, [1]])))
        if out(lambda: v11([1, ["a"]])) != ["variant.int", ["variant.str"]]:
            fail("variants_sharing_a_name_reenter_themselves", which="v11", round=rnd, got=out(lambda: v11([1, ["a"]])))
    # 3. fan-in > 1: mixins
    m = Ovld(name="mix")
    m.register(v_str)
    comb = Ovld(name="comb", mixins=[base(), m])
    n += 1
    if out(lambda: comb(["a", 1])) != ["variant.str", "base.int"]:
        fail("mixin_combination_reenters_itself", got=out(lambda: comb(["a", 1])))
    # 4. naming the function itself inside one of its own methods
    @ovld
    def selfref(xs: list):
        return [selfref(x) for x in xs]

    @ovld
    def selfref(x: int):
        return "self.int"

    sv = selfref.variant(v_int)
    n += 2
    if out(lambda: selfref([1])) != ["self.int"]:
        fail("self_name_reenters_the_function", got=out(lambda: selfref([1])))
    if out(lambda: sv([1])) != ["self.int"]:  # the parent's *name* keeps denoting the parent
        fail("parent_name_inside_inherited_method_denotes_the_parent", got=out(lambda: sv([1])))
    # 4c. the explicit style: the name is bound to the Ovld OBJECT (f = Ovld(); @f.register def f ...; @f.variant def f ...)
    #     and rebound by every variant; each function keeps re-entering itself, used alternately, twice over
    import linecache

    src = (
        "from ovld import Ovld\n"
        "walk = Ovld()\n"
        "@walk.register\ndef walk(xs: list):\n    return [walk(x) for x in xs]\n"
        "@walk.register\ndef walk(x: int):\n    return x + 1\n"
        "@walk.register\ndef walk(x: object):\n    return x\n"
        "plain = walk\nfirst = [plain(SAMPLE)]\n"
        "@plain.variant\ndef walk(x: int):\n    return -x\n"
        "neg = walk\nfirst.append(neg(SAMPLE))\n"
        "@plain.variant\ndef walk(x: int):\n    return x * 10\n"
        "tens = walk\nfirst.append(tens(SAMPLE))\n"
        "@neg.variant\ndef walk(x: str):\n    return x.upper()\n"
        "shout = walk\nfirst.append(shout(SAMPLE))\n"
    )
    fname = "<c08:explicit_style>"
    linecache.cache[fname] = (len(src), None, src.splitlines(True), fname)
    ns = {"SAMPLE": [1, "a", [2, [3, "b"]]]}
    n += 1
    try:
        exec(compile(src, fname, "exec"), ns)
        want = dict(plain=[2, "a", [3, [4, "b"]]], neg=[-1, "a", [-2, [-3, "b"]]], tens=[10, "a", [20, [30, "b"]]], shout=[-1, "A", [-2, [-3, "B"]]])
        order = ["plain", "neg", "tens", "shout"]
        if ns["first"] != [want[k] for k in order]:
            fail("name_bound_to_the_ovld_object_reenters_the_function", when="first call", got=ns["first"])
        for k in order + order[::-1]:
            n += 1
            got = out(lambda: ns[k](ns["SAMPLE"]))
            if got != want[k]:
                fail("name_bound_to_the_ovld_object_reenters_the_function", which=k, got=got, want=want[k])
    except Exception as e:
        fail("name_bound_to_the_ovld_object_reenters_the_function", error=f"{type(e).__name__}: {e}"[:120])
    # 5. a method registered (through a bound register function) while a call of the same function is in flight is
    #    seen by a later recurse in that call: recurse(x) behaves exactly like calling the function again
    late = base("late")
    seen = set()

    def mk_fallback(register):
        def fallback(x: float):
            cls = type(x)
            if cls in seen:
                return "derived method ignored"
            seen.add(cls)

            def derived(x: cls):
                return "derived"

            register(derived)
            return recurse(x)

        return fallback

    class F2(float):
        pass

    late.register(mk_fallback(late.register))
    late(1)
    n += 1
    if out(lambda: late(F2(1.5))) != "derived":
        fail("recurse_sees_methods_registered_during_the_call", got=out(lambda: late(F2(1.5))))
    # 4b. a body that uses the function's own name BEFORE recurse (known finding F-twosyms: only the first name found is rewritten)
    @ovld
    def both(xs: list):
        return [both(xs[0]), recurse(xs[1])]

    @ovld
    def both(x: int):
        return "both.int"

    n += 1
    if out(lambda: both([1, 2])) != ["both.int", "both.int"]:
        fail("known_twosyms.own_name_and_recurse_in_one_body", got=out(lambda: both([1, 2])))
    # 6. C07: methods produced by one factory def keep distinct identities for call_next
    def factory(tag, typ):
        def m(x: typ):
            return [tag] + call_next(x)

        return m

    ch = Ovld(name="chain")

    def bottom(x: object):
        return ["bottom"]

    ch.register(bottom)
    ch.register(factory("A", A))
    ch.register(factory("B", B))
    n += 1
    if out(lambda: ch(B())) != ["B", "A", "bottom"]:
        fail("factory_made_methods_walk_the_chain_once_each", got=out(lambda: ch(B())))
    chv = ch.variant(factory("int", int))
    n += 1
    if out(lambda: chv(B())) != ["B", "A", "bottom"] or out(lambda: chv(1)) != ["int", "bottom"]:
        fail("factory_made_methods_in_variant", got=[out(lambda: chv(B())), out(lambda: chv(1))])
    # 7. C05: rewritten call sites follow a later change of the per-position lookup (first type[...] annotation)
    o = Ovld(name="gen")

    def g_list(xs: list):
        return [recurse(x) for x in xs]

    def g_obj(x: object):
        return "something else"

    o.register(g_list)
    o.register(g_obj)
    o([1])

    def g_cls(x: type[int]):
        return "the int class"

    o.register(g_cls)
    fresh = Ovld(name="gen")
    for g in (g_list, g_obj, g_cls):
        fresh.register(g)
    n += 1
    if out(lambda: o([int, 1])) != out(lambda: fresh([int, 1])):
        fail("rewritten_call_sites_follow_later_registrations", got=out(lambda: o([int, 1])), fresh=out(lambda: fresh([int, 1])))
    print(json.dumps(dict(evaluations=n, failing=list(failing.values())), default=repr))
    return 1 if failing else 0


if __name__ == "__main__":
    sys.exit(main())
