"""Order.merge / argument-wise order of generic aliases in R mode (bounded): every sequence of <= 4 orders against the
documented meaning of merging (all SAME -> SAME; LESS/SAME only -> LESS; MORE/SAME only -> MORE; otherwise NONE; the
empty sequence is the known finding F-emptyalias), and the argument-wise clause of c12_search on the generic aliases."""
import itertools
import json
import sys

from ovld.mro import Order

import c12_search


def spec(seq):
    s = set(seq)
    if Order.NONE in s or (Order.LESS in s and Order.MORE in s):
        return Order.NONE
    if Order.LESS in s:
        return Order.LESS
    if Order.MORE in s:
        return Order.MORE
    return Order.SAME


def main():
    failing, n = [], 0
    bad = []
    vals = [Order.LESS, Order.MORE, Order.SAME, Order.NONE]
    for k in (1, 2, 3, 4):
        for seq in itertools.product(vals, repeat=k):
            for form in ("list", "generator"):
                n += 1
                try:
                    got = Order.merge(list(seq) if form == "list" else (x for x in seq))
                except Exception as e:
                    got = f"{type(e).__name__}: {e}"
                if got is not spec(seq):
                    bad.append(dict(orders=[str(x) for x in seq], given_as=form, got=str(got), expected=str(spec(seq))))
    if bad:
        failing.append(dict(name="merge_of_orders", n_violations=len(bad), violations=bad[:3]))
    r = c12_search.run("alias_argwise", [])
    n += r["pairs_tried"]
    if r["n_violations"]:
        failing.append(dict(name="alias_argwise", n_violations=r["n_violations"], violations=r["violations"][:3]))
    print(json.dumps(dict(evaluations=n, failing=failing)))
    return 1 if failing else 0


if __name__ == "__main__":
    sys.exit(main())
