"""Run every clause of a native bounded search module (R mode: contracts evaluated on the real code over an
enumerated family of inputs).  usage: suite.py <module>   prints one JSON line; exit 1 if any clause fails."""
import importlib
import json
import sys

mod = importlib.import_module(sys.argv[1])
failing, n = [], 0
for clause, ks in mod.SUITE:
    r = mod.run(clause, ks)
    n += r["pairs_tried"]
    if r["n_violations"]:
        name = clause + ("[" + ",".join(ks) + "]" if ks else "")
        # `inputs`: one line per failing input (complete), so that a recorded finding covers exactly the inputs it was recorded for
        failing.append(dict(name=name, n_violations=r["n_violations"], violations=r["violations"][:3], inputs=sorted({__import__("_fp").fingerprint(v) for v in r.get("all_violations", r["violations"])}), replay_cmd=[sys.argv[1] + ".py", clause, *ks]))
print(json.dumps(dict(evaluations=n, failing=failing, clauses=len(mod.SUITE))))
sys.exit(1 if failing else 0)
