"""C07 in R mode (bounded): call_next / f.next chains on real overloaded functions against the documented walk:
each applicable method at most once, non-increasing rank, 'No method' below the last one, the ambiguity error
where the next rank is tied, a fresh call when the current method is not applicable to the arguments."""
import json
import sys

from ovld import Dependent, Ovld, call_next, ovld


class A: ...
class B(A): ...
class C(B): ...
class X(A): ...
class D(B, X): ...


_SRC_N = [0]


def _define(src, glb):
    """exec with the source registered in linecache (the rewrite of call_next needs inspect.getsource)."""
    import linecache

    _SRC_N[0] += 1
    fname = f"<c07:{_SRC_N[0]}>"
    linecache.cache[fname] = (len(src), None, src.splitlines(True), fname)
    exec(compile(src, fname, "exec"), glb)


def run(fn, *a):
    try:
        return fn(*a)
    except TypeError as e:
        s = str(e)
        return "AMBIGUOUS" if __import__("_errs").amb(s) else "NOMETHOD" if __import__("_errs").nomethod(s) else f"TypeError:{s[:60]}"
    except Exception as e:
        return f"{type(e).__name__}:{str(e)[:60]}"


def chain_call_next():
    o = Ovld(name="chain")

    def fa(x: A):
        return ["A", run(call_next, x)] if False else ["A"] + _tail(lambda: call_next(x))

    def fb(x: B):
        return ["B"] + _tail(lambda: call_next(x))

    def fc(x: C):
        return ["C"] + _tail(lambda: call_next(x))

    for g in (fa, fb, fc):
        o.register(g)
    return o


def _tail(th):
    try:
        r = th()
        return r if isinstance(r, list) else [r]
    except TypeError as e:
        s = str(e)
        return ["AMBIGUOUS" if __import__("_errs").amb(s) else "NOMETHOD" if __import__("_errs").nomethod(s) else f"TypeError:{s[:60]}"]
    except Exception as e:
        return [f"{type(e).__name__}:{str(e)[:60]}"]


def linear():
    o = Ovld(name="lin")

    def fa(x: A):
        try:
            return ["A"] + call_next(x)
        except TypeError as e:
            return ["A", "NOMETHOD" if __import__("_errs").nomethod(str(e)) else "AMBIGUOUS" if __import__("_errs").amb(str(e)) else str(e)[:40]]

    def fb(x: B):
        return ["B"] + call_next(x)

    def fc(x: C):
        return ["C"] + call_next(x)

    for g in (fa, fb, fc):
        o.register(g)
    return o


def diamond():
    o = Ovld(name="dia")

    def fd(x: D):
        try:
            return ["D"] + call_next(x)
        except TypeError as e:
            return ["D", "AMBIGUOUS" if __import__("_errs").amb(str(e)) else "NOMETHOD" if __import__("_errs").nomethod(str(e)) else str(e)[:40]]

    def fb(x: B):
        return ["B"]

    def fx(x: X):
        return ["X"]

    for g in (fd, fb, fx):
        o.register(g)
    return o


def fresh_when_not_applicable():
    o = Ovld(name="fresh")

    def fc(x: C):
        return ["C"] + call_next(A())  # C's method is not applicable to an A: behaves like a fresh call

    def fa(x: A):
        return ["A"]

    for g in (fc, fa):
        o.register(g)
    return o


def fresh_two_args(which):
    """the current method is not applicable to the new arguments because of a LATER argument (the first still matches)."""
    o = Ovld(name="fresh2")

    def fbb(x: B, y: B):
        if which == "second_mismatch":
            return ["BB"] + call_next(x, "s")  # (B, str): fbb is not applicable
        if which == "first_mismatch":
            return ["BB"] + call_next("s", y)
        return ["BB"] + call_next(x, y)

    def fas(x: A, y: str):
        return ["A,str"]

    def fsb(x: str, y: B):
        return ["str,B"]

    def faa(x: A, y: A):
        return ["A,A"]

    for g in (fbb, fas, fsb, faa):
        o.register(g)
    return o


def fresh_keyword():
    o = Ovld(name="freshk")

    def fb(x: B, *, k: B):
        return ["B,k=B"] + call_next(x, k="s")

    def fs(x: A, *, k: str):
        return ["A,k=str"]

    for g in (fb, fs):
        o.register(g)
    return o


def dependent_tied_top_rank(names=("c1", "c2", "c3", "c4")):
    """c1(x: Flagged, y: L1), c2(x: L2, y: L1), c3(x: object, y: L2), c4(x: L1, y: object); for (L2, L2) with the flag
    off, c1 does not match: the walk is c3 -> c2 -> c4 -> 'No method' (each method once)."""
    from ovld.dependent import dependent_check

    class L1:
        flag = False

    class L2(L1):
        pass

    @dependent_check
    def Flagged(value: L1):
        return value.flag

    o = Ovld(name="dtr")
    log = []
    T = dict(c1=(Flagged, L1), c2=(L2, L1), c3=(object, L2), c4=(L1, object))
    for nm in names:
        g = dict(T0=T[nm][0], T1=T[nm][1], LOG=log, call_next=call_next)
        _define(f"def {nm}(x: T0, y: T1):\n    LOG.append({nm!r})\n    if len(LOG) > 10:\n        raise RecursionError('walk does not terminate')\n    return call_next(x, y)\n", g)
        o.register(g[nm])
    try:
        o(L2(), L2())
        end = "returned"
    except TypeError as e:
        end = "AMBIGUOUS" if __import__("_errs").amb(str(e)) else "NOMETHOD"
    except RecursionError:
        end = "RECURSION"
    return log + [end]


def with_next():
    o = Ovld(name="nxt")

    def fa(x: A):
        return ["A"]

    def fb(x: B):
        return ["B"] + o.next(x)

    def fc(x: C):
        return ["C"] + o.next(x)

    for g in (fa, fb, fc):
        o.register(g)
    return o


def next_with_class_values():
    o = Ovld(name="nxtt")

    def ft(x: type[int]):
        return ["type[int]"] + o.next(x)

    def fto(x: type[object]):
        return ["type[object]"] + o.next(x)

    def fo(x: object):
        return ["object"]

    for g in (ft, fto, fo):
        o.register(g)
    return o


def factory_next():
    """methods produced by ONE def (a factory) that delegate with o.next: each keeps its own identity in the walk."""
    o = Ovld(name="fac")

    def make(tp, label):
        def method(x):
            return [label] + o.next(x)

        method.__annotations__ = {"x": tp}
        return method

    def last(x: object):
        return ["object"]

    o.register(last)
    for tp, label in ((int, "int"), (bool, "bool")):
        o.register(make(tp, label))
    return o


def priority_chain():
    o = Ovld(name="prio")

    def hi(x: A):
        return ["hi"] + call_next(x)

    def fb(x: B):
        return ["B"] + call_next(x)

    def fa(x: object):
        return ["obj"]

    o.register(hi, priority=10)
    o.register(fb)
    o.register(fa)
    return o


def nullary():
    o = Ovld(name="nul")

    def f():
        try:
            return call_next()
        except TypeError as e:
            return "NOMETHOD" if __import__("_errs").nomethod(str(e)) else str(e)[:40]
        except Exception as e:
            return f"{type(e).__name__}"

    o.register(f)
    return o


def dependent_above_tie():
    class P: ...
    class Q: ...
    class R(P, Q):
        def __init__(self, v):
            self.v = v

    def positive(r: R):
        return r.v > 0

    o = Ovld(name="dep")

    def fd(x: Dependent[R, positive]):
        return "dep"

    def fp(x: P):
        return "P"

    def fq(x: Q):
        return "Q"

    for g in (fd, fp, fq):
        o.register(g)
    return o, R


CASES = [
    ("linear", lambda: linear()(C()), ["C", "B", "A", "NOMETHOD"]),
    ("linear_mid", lambda: linear()(B()), ["B", "A", "NOMETHOD"]),
    ("linear_repeat", lambda: (lambda o: (o(C()), o(C()))[1])(linear()), ["C", "B", "A", "NOMETHOD"]),
    ("diamond_tie_below", lambda: diamond()(D()), ["D", "AMBIGUOUS"]),
    ("fresh_when_not_applicable", lambda: fresh_when_not_applicable()(C()), ["C", "A"]),
    ("fresh_when_a_later_argument_does_not_match", lambda: fresh_two_args("second_mismatch")(B(), B()), ["BB", "A,str"]),
    ("fresh_when_the_first_argument_does_not_match", lambda: fresh_two_args("first_mismatch")(B(), B()), ["BB", "str,B"]),
    ("two_argument_chain", lambda: fresh_two_args("same")(B(), B()), ["BB", "A,A"]),
    ("fresh_when_a_keyword_argument_does_not_match", lambda: fresh_keyword()(B(), k=B()), ["B,k=B", "A,k=str"]),
    ("two_argument_walk_below_a_tied_rank_with_a_false_condition", lambda: dependent_tied_top_rank(), ["c3", "c2", "c4", "NOMETHOD"]),
    ("next_equivalent", lambda: with_next()(C()), ["C", "B", "A"]),
    ("next_with_class_valued_arguments", lambda: next_with_class_values()(bool), ["type[int]", "type[object]", "object"]),
    ("next_with_generic_alias_arguments", lambda: next_with_class_values()(list[int]), ["type[object]", "object"]),
    ("factory_made_methods_delegating_with_next", lambda: factory_next()(True), ["bool", "int", "object"]),
    ("priority_then_specificity", lambda: priority_chain()(B()), ["hi", "B", "obj"]),
    ("nullary", lambda: nullary()(), "NOMETHOD"),
]


def walk_suite():
    """The statement of C07 as an oracle: the walk of call_next from a call equals the list obtained by repeatedly asking a
    FRESH function from which the methods that already ran (and everything tied with them) have been removed.  Scenario
    family of c02_oracle.py (class DAGs x method sets x calls), every method delegating with the same arguments."""
    import itertools

    import c02_oracle as O

    def build(sc, keep):
        ns = O.build_classes(sc["classes"])
        env = {f"T_{k}": v for k, v in ns.items()}
        ov = Ovld(name="w")
        log = []
        for m in sc["methods"]:
            if m["name"] not in keep:
                continue
            pos = [p for p in m["params"] if p["kind"] == "pos"]
            kw = [p for p in m["params"] if p["kind"] == "kw"]
            parts = [f"{p['name']}: T_{p['type']}" for p in pos]
            if kw:
                parts.append("*")
                parts += [f"{p['name']}: T_{p['type']}" for p in kw]
            call = ", ".join([p["name"] for p in pos] + [f"{p['name']}={p['name']}" for p in kw])
            src = f"def {m['name']}({', '.join(parts)}):\n    LOG.append({m['name']!r})\n    if len(LOG) > 12:\n        raise RecursionError('walk does not terminate')\n    return call_next({call})\n"
            g = dict(env, LOG=log, call_next=call_next)
            _define(src, g)
            ov.register(g[m["name"]], priority=m.get("priority", 0))
        return ov, ns, log

    def walk(sc, keep):
        ov, ns, log = build(sc, keep)
        args = [ns[c]() for c in sc["call"]["pos"]]
        kwargs = {k: ns[c]() for k, c in sc["call"].get("kw", {}).items()}
        try:
            ov(*args, **kwargs)
            end = "returned"
        except TypeError as e:
            s_ = str(e)
            # a call shape the remaining methods do not accept is rejected by the generated entry point itself
            end = "AMBIGUOUS" if __import__("_errs").amb(s_) else "NOMETHOD"
        except RecursionError:
            end = "RECURSION"
        except Exception as e:
            end = f"{type(e).__name__}:{str(e)[:40]}"
        return list(log), end

    bad, n = {}, 0
    for sc in itertools.islice(O.scenarios(), 0, None, 3):
        if any(p.get("default") for m in sc["methods"] for p in m["params"]):
            continue
        names = [m["name"] for m in sc["methods"]]
        if len(set(json.dumps(m["params"]) for m in sc["methods"])) != len(names):
            continue  # repeated signatures: the tiebreak findings
        n += 1
        got, got_end = walk(sc, set(names))
        want, keep = [], set(names)
        while True:
            rlog, rend = walk(sc, keep)
            if not rlog:
                want_end = rend
                break
            want.append(rlog[0])
            keep.discard(rlog[0])
            if not keep:
                want_end = "NOMETHOD"
                break
        if got_end not in ("NOMETHOD", "AMBIGUOUS", "RECURSION"):
            b = bad.setdefault("walk.harness", dict(name="walk.harness", n_violations=0, violations=[]))
            b["n_violations"] += 1
            b["violations"] = b["violations"][:1] or [dict(end=got_end)]
        if (got, got_end) != (want, want_end):
            _, info = O.oracle(sc)
            kind = "walk.equals_successive_fresh_calls" if info["chain"] else "walk.level_unfaithful"
            b = bad.setdefault(kind, dict(name=kind, n_violations=0, violations=[]))
            b["n_violations"] += 1
            if len(b["violations"]) < 2:
                b["violations"].append(dict(scenario={k: sc[k] for k in ("classes", "methods", "call")}, walk=got, end=got_end, successive_fresh_calls=want, their_end=want_end))
    # second family: two dispatched positions, 3-4 methods, one option being a value-dependent type (a tied top rank can
    # then be entered when the dependent condition is false)
    from ovld.dependent import dependent_check as _dc

    class L1:
        flag = False

    class L2(L1):
        pass

    class L2T(L2):
        flag = True

    @_dc
    def Flagged(value: L1):
        return value.flag

    opts0 = {"o": object, "1": L1, "2": L2}  # static types only: with a value-dependent member the content of a tied rank depends on set iteration order (finding F-tiedhead)
    opts1 = {"o": object, "1": L1, "2": L2}
    combos = [(a, b) for a in opts0 for b in opts1]

    def build2(ms):
        ov = Ovld(name="w2")
        log = []
        for a, b in ms:
            nm = f"m_{a}{b}"
            g = dict(T0=opts0[a], T1=opts1[b], LOG=log, call_next=call_next)
            _define(f"def {nm}(x: T0, y: T1):\n    LOG.append({nm!r})\n    if len(LOG) > 12:\n        raise RecursionError('walk does not terminate')\n    return call_next(x, y)\n", g)
            ov.register(g[nm])
        return ov, log

    def walk2(ms, args):
        ov, log = build2(ms)
        try:
            ov(*args)
            end = "returned"
        except TypeError as e:
            s_ = str(e)
            end = "NOMETHOD" if __import__("_errs").nomethod(s_) else "AMBIGUOUS" if __import__("_errs").amb(s_) else f"TypeError:{s_[:40]}"
        except RecursionError:
            end = "RECURSION"
        except Exception as e:
            end = f"{type(e).__name__}:{str(e)[:40]}"
        return [x[2:] for x in log], end

    sets = list(itertools.combinations(combos, 3)) + list(itertools.combinations(combos, 4))
    for ms in sets:
        for args in ((L2(), L2()), (L2T(), L2())):
            n += 1
            got, got_end = walk2(ms, args)
            want, keep = [], list(ms)
            while True:
                rlog, rend = walk2(keep, args)
                if not rlog:
                    want_end = rend
                    break
                want.append(rlog[0])
                keep = [m_ for m_ in keep if f"{m_[0]}{m_[1]}" != rlog[0]]
                if not keep:
                    want_end = "NOMETHOD"
                    break
            if (got, got_end) != (want, want_end):
                # the reference walk continues below a tie only if the tie disappears with the removed method: when the
                # walk stops at an ambiguity that the reference resolves differently, compare prefixes up to that point
                kind = "walk2.equals_successive_fresh_calls"
                b = bad.setdefault(kind, dict(name=kind, n_violations=0, violations=[]))
                b["n_violations"] += 1
                if len(b["violations"]) < 3:
                    b["violations"].append(dict(methods=["".join(m_) for m_ in ms], flag=type(args[0]).__name__, walk=got, end=got_end, successive_fresh_calls=want, their_end=want_end))
    return n, list(bad.values())


def main():
    failing, n = [], 0
    wn, wf = walk_suite()
    n += wn
    failing += wf
    for name, th, want in CASES:
        n += 1
        try:
            got = th()
        except Exception as e:
            got = f"{type(e).__name__}:{str(e)[:80]}"
        if got != want:
            failing.append(dict(name=name, n_violations=1, violations=[dict(case=name, got=got, expected=want)]))
    n += 1
    o, R = dependent_above_tie()
    got = run(o, R(0))
    if got != "AMBIGUOUS":
        failing.append(dict(name="dependent_above_tie", n_violations=1, violations=[dict(case="dependent condition false above a tied rank", got=got, expected="AMBIGUOUS")]))
    # f.next inside a method with self (known finding F-nextself: the instance is not threaded through next)
    from ovld import OvldBase

    class K(OvldBase):
        def f(self, x: int):
            return ["int"] + self.f.next(x)

        def f(self, x: object):
            return ["obj"]

    n += 1
    got = run(K().f, 1)
    if got != ["int", "obj"]:
        failing.append(dict(name="known_nextself.next_on_bound_method", n_violations=1, violations=[dict(got=got, expected=["int", "obj"])]))
    print(json.dumps(dict(evaluations=n, failing=failing)))
    return 1 if failing else 0


if __name__ == "__main__":
    sys.exit(main())
