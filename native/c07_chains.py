"""C07 in R mode (bounded): call_next / f.next chains on real overloaded functions against the documented walk:
each applicable method at most once, non-increasing rank, 'No method' below the last one, the ambiguity error
where the next rank is tied, a fresh call when the current method is not applicable to the arguments."""
import json
import sys

from ovld import Dependent, Ovld, call_next, ovld


class A: ...
class B(A): ...
class C(B): ...
class X(A): ...
class D(B, X): ...


def run(fn, *a):
    try:
        return fn(*a)
    except TypeError as e:
        s = str(e)
        return "AMBIGUOUS" if s.startswith("Ambiguous") else "NOMETHOD" if s.startswith("No method") else f"TypeError:{s[:60]}"
    except Exception as e:
        return f"{type(e).__name__}:{str(e)[:60]}"


def chain_call_next():
    o = Ovld(name="chain")

    def fa(x: A):
        return ["A", run(call_next, x)] if False else ["A"] + _tail(lambda: call_next(x))

    def fb(x: B):
        return ["B"] + _tail(lambda: call_next(x))

    def fc(x: C):
        return ["C"] + _tail(lambda: call_next(x))

    for g in (fa, fb, fc):
        o.register(g)
    return o


def _tail(th):
    try:
        r = th()
        return r if isinstance(r, list) else [r]
    except TypeError as e:
        s = str(e)
        return ["AMBIGUOUS" if s.startswith("Ambiguous") else "NOMETHOD" if s.startswith("No method") else f"TypeError:{s[:60]}"]
    except Exception as e:
        return [f"{type(e).__name__}:{str(e)[:60]}"]


def linear():
    o = Ovld(name="lin")

    def fa(x: A):
        try:
            return ["A"] + call_next(x)
        except TypeError as e:
            return ["A", "NOMETHOD" if str(e).startswith("No method") else "AMBIGUOUS" if str(e).startswith("Ambiguous") else str(e)[:40]]

    def fb(x: B):
        return ["B"] + call_next(x)

    def fc(x: C):
        return ["C"] + call_next(x)

    for g in (fa, fb, fc):
        o.register(g)
    return o


def diamond():
    o = Ovld(name="dia")

    def fd(x: D):
        try:
            return ["D"] + call_next(x)
        except TypeError as e:
            return ["D", "AMBIGUOUS" if str(e).startswith("Ambiguous") else "NOMETHOD" if str(e).startswith("No method") else str(e)[:40]]

    def fb(x: B):
        return ["B"]

    def fx(x: X):
        return ["X"]

    for g in (fd, fb, fx):
        o.register(g)
    return o


def fresh_when_not_applicable():
    o = Ovld(name="fresh")

    def fc(x: C):
        return ["C"] + call_next(A())  # C's method is not applicable to an A: behaves like a fresh call

    def fa(x: A):
        return ["A"]

    for g in (fc, fa):
        o.register(g)
    return o


def fresh_two_args(which):
    """the current method is not applicable to the new arguments because of a LATER argument (the first still matches)."""
    o = Ovld(name="fresh2")

    def fbb(x: B, y: B):
        if which == "second_mismatch":
            return ["BB"] + call_next(x, "s")  # (B, str): fbb is not applicable
        if which == "first_mismatch":
            return ["BB"] + call_next("s", y)
        return ["BB"] + call_next(x, y)

    def fas(x: A, y: str):
        return ["A,str"]

    def fsb(x: str, y: B):
        return ["str,B"]

    def faa(x: A, y: A):
        return ["A,A"]

    for g in (fbb, fas, fsb, faa):
        o.register(g)
    return o


def fresh_keyword():
    o = Ovld(name="freshk")

    def fb(x: B, *, k: B):
        return ["B,k=B"] + call_next(x, k="s")

    def fs(x: A, *, k: str):
        return ["A,k=str"]

    for g in (fb, fs):
        o.register(g)
    return o


def with_next():
    o = Ovld(name="nxt")

    def fa(x: A):
        return ["A"]

    def fb(x: B):
        return ["B"] + o.next(x)

    def fc(x: C):
        return ["C"] + o.next(x)

    for g in (fa, fb, fc):
        o.register(g)
    return o


def priority_chain():
    o = Ovld(name="prio")

    def hi(x: A):
        return ["hi"] + call_next(x)

    def fb(x: B):
        return ["B"] + call_next(x)

    def fa(x: object):
        return ["obj"]

    o.register(hi, priority=10)
    o.register(fb)
    o.register(fa)
    return o


def nullary():
    o = Ovld(name="nul")

    def f():
        try:
            return call_next()
        except TypeError as e:
            return "NOMETHOD" if str(e).startswith("No method") else str(e)[:40]
        except Exception as e:
            return f"{type(e).__name__}"

    o.register(f)
    return o


def dependent_above_tie():
    class P: ...
    class Q: ...
    class R(P, Q):
        def __init__(self, v):
            self.v = v

    def positive(r: R):
        return r.v > 0

    o = Ovld(name="dep")

    def fd(x: Dependent[R, positive]):
        return "dep"

    def fp(x: P):
        return "P"

    def fq(x: Q):
        return "Q"

    for g in (fd, fp, fq):
        o.register(g)
    return o, R


CASES = [
    ("linear", lambda: linear()(C()), ["C", "B", "A", "NOMETHOD"]),
    ("linear_mid", lambda: linear()(B()), ["B", "A", "NOMETHOD"]),
    ("linear_repeat", lambda: (lambda o: (o(C()), o(C()))[1])(linear()), ["C", "B", "A", "NOMETHOD"]),
    ("diamond_tie_below", lambda: diamond()(D()), ["D", "AMBIGUOUS"]),
    ("fresh_when_not_applicable", lambda: fresh_when_not_applicable()(C()), ["C", "A"]),
    ("fresh_when_a_later_argument_does_not_match", lambda: fresh_two_args("second_mismatch")(B(), B()), ["BB", "A,str"]),
    ("fresh_when_the_first_argument_does_not_match", lambda: fresh_two_args("first_mismatch")(B(), B()), ["BB", "str,B"]),
    ("two_argument_chain", lambda: fresh_two_args("same")(B(), B()), ["BB", "A,A"]),
    ("fresh_when_a_keyword_argument_does_not_match", lambda: fresh_keyword()(B(), k=B()), ["B,k=B", "A,k=str"]),
    ("next_equivalent", lambda: with_next()(C()), ["C", "B", "A"]),
    ("priority_then_specificity", lambda: priority_chain()(B()), ["hi", "B", "obj"]),
    ("nullary", lambda: nullary()(), "NOMETHOD"),
]


def main():
    failing, n = [], 0
    for name, th, want in CASES:
        n += 1
        try:
            got = th()
        except Exception as e:
            got = f"{type(e).__name__}:{str(e)[:80]}"
        if got != want:
            failing.append(dict(name=name, n_violations=1, violations=[dict(case=name, got=got, expected=want)]))
    n += 1
    o, R = dependent_above_tie()
    got = run(o, R(0))
    if got != "AMBIGUOUS":
        failing.append(dict(name="dependent_above_tie", n_violations=1, violations=[dict(case="dependent condition false above a tied rank", got=got, expected="AMBIGUOUS")]))
    # f.next inside a method with self (known finding F-nextself: the instance is not threaded through next)
    from ovld import OvldBase

    class K(OvldBase):
        def f(self, x: int):
            return ["int"] + self.f.next(x)

        def f(self, x: object):
            return ["obj"]

    n += 1
    got = run(K().f, 1)
    if got != ["int", "obj"]:
        failing.append(dict(name="known_nextself.next_on_bound_method", n_violations=1, violations=[dict(got=got, expected=["int", "obj"])]))
    print(json.dumps(dict(evaluations=n, failing=failing)))
    return 1 if failing else 0


if __name__ == "__main__":
    sys.exit(main())
