"""Run the REAL code generator (Ovld.compile -> generate_dispatch) on an enumerated family of method-set shapes
and dump, for each, the emitted entry-point source text plus a description of the injected names and of the method
set it was generated from.  The emitted functions are then verified per instance by pyvc (props/C03.py).

usage: gen_dispatch.py [quick|thorough]  -> JSON on stdout: {"instances": [...]}
A shape is a list of methods; a method is a list of parameters (name, kind, has_default, is_type_annotation) with
kind in P (positional-or-keyword), O (positional-only), K (keyword-only); optionally a leading self.
"""
import itertools
import json
import linecache
import sys

from ovld import Ovld
from ovld.utils import MISSING, subtler_type


def make_fn(idx, params, is_method):
    parts = ["self"] if is_method else []
    posonly = [p for p in params if p["kind"] == "O"]
    pos = [p for p in params if p["kind"] == "P"]
    kw = [p for p in params if p["kind"] == "K"]

    def one(p):
        ann = "type[int]" if p.get("typeann") else "int"
        return f"{p['name']}: {ann}" + (f" = {100 + idx}" if p["default"] else "")

    parts += [one(p) for p in posonly]
    if posonly:
        parts.append("/")
    parts += [one(p) for p in pos]
    if kw:
        parts.append("*")
        parts += [one(p) for p in kw]
    src = f"def m{idx}({', '.join(parts)}):\n    return 'm{idx}'\n"
    g = {}
    exec(src, g)
    return g[f"m{idx}"], src


def P(name, kind="P", default=False, typeann=False):
    return dict(name=name, kind=kind, default=default, typeann=typeann)


def shapes(tier):
    """Enumerated family (DESIGN C03): 1-3 methods; 0-3 positional parameters (positional-only or positional-or-
    keyword, equal or different names across methods, defaults trailing); 0-2 keyword-only (required/optional);
    functions and methods with self; some positions annotated type[...]."""
    out = []
    one = [
        [],
        [P("x")],
        [P("x"), P("y")],
        [P("x"), P("y", default=True)],
        [P("x", default=True)],
        [P("x", default=True), P("y", default=True)],
        [P("x"), P("y", default=True), P("z", default=True)],
        [P("x", "O"), P("y")],
        [P("x"), P("k", "K")],
        [P("x"), P("k", "K", default=True)],
        [P("x"), P("y", default=True), P("k", "K", default=True)],
        [P("x"), P("y", default=True), P("k", "K")],
        [P("x"), P("k", "K"), P("j", "K", default=True)],
        [P("x", typeann=True)],
        [P("x"), P("t", typeann=True)],
        [P("x"), P("k", "K", typeann=True)],
        [P("k", "K")],
        [P("k", "K", default=True)],
        # class-valued positions after / before strictly positional ones
        [P("x", "O"), P("t", typeann=True)],
        [P("x", "O", typeann=True), P("y")],
        [P("x", "O"), P("y", "O", typeann=True), P("z", default=True)],
        [P("x", "O"), P("y"), P("t", typeann=True, default=True)],
        # parameter names that collide with names used inside the emitted code
        [P("method")],
        [P("x"), P("method", "K")],
        [P("x"), P("method", "K", default=True)],
        [P("TARGS"), P("KWARGS", default=True)],
        [P("data"), P("type", typeann=True)],
        [P("data"), P("type", "K", typeann=True)],
        [P("type"), P("data")],
        [P("subtler_type"), P("t", typeann=True)],
        [P("OVLD"), P("MISSING", "K", default=True)],
    ]
    for m in one:
        out.append([m])
    pairs = [
        ([P("x")], [P("x"), P("y")]),
        ([P("x")], [P("x"), P("y", default=True)]),
        ([P("x")], [P("a")]),  # differing positional names -> strictly positional
        ([P("x"), P("y")], [P("a"), P("y")]),
        ([P("x"), P("y", default=True)], [P("x"), P("y", default=True), P("k", "K", default=True)]),
        ([P("x"), P("k", "K")], [P("x"), P("k", "K", default=True)]),
        ([P("x"), P("k", "K")], [P("x"), P("j", "K")]),
        ([P("x", default=True)], [P("x"), P("y")]),
        ([], [P("x")]),
        ([], [P("x", default=True)]),
        ([], [P("k", "K")]),  # a parameterless method, then one that requires a keyword
        ([P("k", "K")], []),
        ([], [P("x"), P("k", "K", default=True)]),
        ([P("x", typeann=True)], [P("x")]),
        ([P("x"), P("y", typeann=True)], [P("x"), P("y")]),
        ([P("x", "O")], [P("x", "O"), P("y", "O", default=True)]),
        ([P("a"), P("t", typeann=True)], [P("b"), P("t", typeann=True)]),  # first position strictly positional by naming
        ([P("a", typeann=True), P("y")], [P("b", typeann=True), P("y")]),
        ([P("x"), P("y", default=True), P("k", "K", default=True)], [P("x"), P("y"), P("k", "K")]),
    ]
    # an optional strictly positional parameter followed by an optional named one (the named one can be given by keyword)
    out.append([[P("x", "O"), P("y", "O", default=True), P("z", default=True)]])
    pairs += [
        ([P("x"), P("y", default=True), P("z", default=True)], [P("x"), P("q", default=True), P("z", default=True)]),
        ([P("x"), P("y"), P("z", default=True)], [P("x"), P("y", default=True)]),
        ([P("x"), P("y")], [P("x"), P("y")]),
    ]
    for a, b in pairs:
        out.append([a, b])
    out.append([[P("x")], [P("x"), P("y")], [P("x"), P("y"), P("z", default=True)]])
    out.append([[P("x"), P("k", "K", default=True)], [P("x"), P("y", default=True)], [P("x"), P("j", "K")]])
    if tier == "thorough":
        out.append([[P("x"), P("y"), P("z"), P("w", default=True)]])
        out.append([[P("x"), P("k", "K"), P("j", "K", default=True), P("i", "K", default=True)]])
    # systematic part: EVERY single-method shape with up to three positional parameters (each split into positional-only / named,
    # every number of trailing defaults) and no / a required / an optional keyword-only parameter (90 shapes); every PAIR of such
    # shapes with up to one (thorough: two) positional parameters, named alike and named differently at the last place
    def singles(maxpos):
        names = ["x", "y", "z"]
        for npos in range(maxpos + 1):
            for nposonly in range(npos + 1):
                for ndef in range(npos + 1):
                    for kw in (None, False, True):
                        m = [P(names[i], "O" if i < nposonly else "P", default=i >= npos - ndef) for i in range(npos)]
                        if kw is not None:
                            m.append(P("k", "K", default=kw))
                        yield m

    def key(sh):
        return "|".join(",".join(p["name"] + p["kind"] + ("?" if p["default"] else "") + ("^" if p.get("typeann") else "") for p in m) or "()" for m in sh)

    seen = {key(sh) for sh in out}
    for m in singles(3):
        if key([m]) not in seen:
            seen.add(key([m]))
            out.append([m])
    if True:
        base = list(singles(2 if tier == "thorough" else 1))
        for a in base:
            for b in base:
                variants = [b]
                posb = [p for p in b if p["kind"] != "K"]
                if posb and posb[-1]["kind"] == "P":
                    variants.append([dict(p, name="q") if p is posb[-1] else p for p in b])
                for b_ in variants:
                    sh = [a, b_]
                    # two methods with identical parameter lists replace one another: not a two-method shape
                    if key([a]) == key([b_]):
                        continue
                    if key(sh) not in seen:
                        seen.add(key(sh))
                        out.append(sh)
    res = []
    for sh in out:
        res.append((sh, False))
        if sh and all(m for m in sh):
            res.append((sh, True))  # the same shape as methods with self
    return res


def describe_globals(fn):
    desc = {}
    for name, val in fn.__globals__.items():
        if name.startswith("__"):
            continue
        if val is MISSING:
            desc[name] = "MISSING"
        elif val is type:
            desc[name] = "type"
        elif val is subtler_type:
            desc[name] = "subtler_type"
    return desc


def main():
    tier = sys.argv[1] if len(sys.argv) > 1 else "quick"
    instances = []
    seen = set()
    for sh, is_method in shapes(tier):
        ov = Ovld(name="f")
        srcs = []
        try:
            for i, m in enumerate(sh):
                fn, src = make_fn(i, m, is_method)
                srcs.append(src)
                ov.register(fn)
            ov.compile()
        except Exception as e:
            instances.append(dict(shape=sh, is_method=is_method, error=f"{type(e).__name__}: {e}", methods_src=srcs))
            continue
        code = ov.dispatch.__code__
        lines = linecache.cache.get(code.co_filename)
        text = "".join(lines[2]) if lines else None
        # the code object swapped into the entry point is the inner __DISPATCH__: recover its closure variable name
        key = (text, is_method)
        inst = dict(shape=sh, is_method=is_method, source=text, globals=describe_globals(ov.dispatch), freevars=list(code.co_freevars), methods_src=srcs, duplicate_of=None)
        if key in seen:
            inst["duplicate_source"] = True
        seen.add(key)
        instances.append(inst)
    print(json.dumps(dict(instances=instances)))


if __name__ == "__main__":
    main()
