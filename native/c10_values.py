"""C10 / C11 in R mode (bounded): for the method-set families of gen_dependent.py, every value of a corpus is
dispatched through the real function and compared with the reference: the handlers whose declared types all satisfy
isinstance(value, T) (evaluated through the real __instancecheck__, independent of the generated dispatcher)."""
import json
import sys

from ovld import Ovld

import gen_dependent as GD

CORPUS = {bytes: [b"ab", b"x"], int: [0, 1, 2, 3, 4, 5, 6, 7, -1, 101, True], str: ["a", "b", "ab", "ca", "xb", "", "abc", "{{", "{", "}}", "{arg}", "ARG0", "it's", 'say "hi"', "back\\slash", "{0}", "%s"], bool: [True, False], tuple: [(1, "a"), (1, 1), (1,), (2, "b"), ("a", 1), (1.0, "a"), (True, "a"), (1, "a", 2)]}


def _strictly_below(ra, rb):
    from ovld.mro import Order, typeorder

    os_ = [typeorder(x, y) for x, y in zip(ra, rb)]
    return all(o in (Order.LESS, Order.SAME) for o in os_) and any(o is Order.LESS for o in os_)


def _overlapping_literals(norm, hs):
    """the open finding F-overlap: two of the matching methods carry DIFFERENT Literal sets with a common value at one position"""
    for a in hs:
        for b in hs:
            if a < b:
                for ta, tb in zip(norm[a], norm[b]):
                    if type(ta).__name__ == "Equals" and type(tb).__name__ == "Equals":
                        pa, pb = set(map(repr, ta.parameters)), set(map(repr, tb.parameters))
                        if pa != pb and pa & pb:
                            return True
    return False


def main():
    mode = sys.argv[1] if len(sys.argv) > 1 else "c10"
    failing, n = {}, 0

    def fail(name, **d):
        f = failing.setdefault(name, dict(name=name, n_violations=0, violations=[]))
        f["n_violations"] += 1
        f.setdefault("inputs", []).append(__import__("_fp").fingerprint(d))
        if len(f["violations"]) < 2:
            f["violations"].append(d)

    for fi, spec in enumerate(GD.families("quick")):
        anns_list, probes = spec[0], spec[1]
        if len(spec) > 2:
            continue  # families of methods with self: per-instance verification of the emitted text, and native/c17_classes.py
        ov = Ovld(name=f"fam{fi}")
        fns = []
        pos0, kw0 = GD._split(anns_list[0])
        npos = len(pos0)
        kwn = [n_ for n_, _ in kw0]
        for hi, anns in enumerate(anns_list):
            fns.append(GD.make_handler(f"h{hi}", anns))
            ov.register(fns[-1])
        ov.register(GD.make_handler("base", [object] * npos + [GD.KW(n_, object) for n_ in kwn]))
        from ovld.types import normalize_type
        from ovld.dependent import is_dependent

        # flatten: positional annotations, then the keyword-only ones (in declaration order)
        anns_list = [[a for a in GD._split(anns)[0]] + [a for _, a in GD._split(anns)[1]] for anns in anns_list]
        probes = [[e[2] if (isinstance(e, tuple) and e and e[0] == "kw") else e for e in probe] for probe in probes]
        norm = [[normalize_type(a, None) for a in anns] for anns in anns_list]
        static_only = [all(not is_dependent(t) for t in row) for row in norm]
        label = "|".join(",".join(map(repr, a)) for a in anns_list).replace("typing.", "")
        import itertools

        for probe in probes:
            pools = [CORPUS[c] if len(probe) < 3 else CORPUS[c][:9:2] + CORPUS[c][7:8] for c in probe]
            for vals in itertools.product(*pools):
                n += 1
                matches = []
                for hi, row in enumerate(norm):
                    try:
                        # reference meaning: a Literal matches the values equal to one of its values (statement of C11);
                        # everything else through the real __instancecheck__
                        def ok(v, t, written):
                            import typing

                            if typing.get_origin(written) is typing.Literal:
                                # from the annotation AS WRITTEN (independent of the type object the library built for it):
                                # values equal to one of the listed ones, within the class of the listed values
                                lv = typing.get_args(written)
                                if len({type(x) for x in lv}) == 1:
                                    return isinstance(v, type(lv[0])) and v in lv
                                return v in lv
                            return (v in t.parameters) if type(t).__name__ == "Equals" else isinstance(v, t)

                        if all(ok(v, t, wr) for v, t, wr in zip(vals, row, anns_list[hi])):
                            matches.append(hi)
                    except Exception:
                        pass
                dep_matches = [h for h in matches if not static_only[h]]
                try:
                    got = ov(*vals[:npos], **dict(zip(kwn, vals[npos:])))
                except TypeError as e:
                    s = str(e)
                    got = "AMBIGUOUS" if __import__("_errs").amb(s) else "NOMETHOD" if __import__("_errs").nomethod(s) else f"TypeError:{s[:50]}"
                except Exception as e:
                    got = f"{type(e).__name__}:{str(e)[:50]}"
                if len(dep_matches) == 1:
                    want = f"h{dep_matches[0]}"
                elif len(dep_matches) == 0:
                    st = [h for h in matches if static_only[h]]
                    want = f"h{st[0]}" if len(st) == 1 else "base" if not st else "AMBIGUOUS"
                else:
                    # "two OTHERWISE UNORDERED dependent methods": a matching method that the type order (C12's subject) puts
                    # strictly below every other matching one is the expected winner
                    top = [a for a in dep_matches if all(_strictly_below(norm[a], norm[b]) for b in dep_matches if b != a)]
                    want = f"h{top[0]}" if len(top) == 1 else "AMBIGUOUS"
                if got != want:
                    mixed_first = any(len({type(p) for p in getattr(t, "parameters", ())}) > 1 for row in norm for t in row if type(t).__name__ == "Equals")
                    kind = "unionbound" if (got.startswith("TypeError:") or got.startswith("AttributeError")) and " | " in label else "overlap" if want == "AMBIGUOUS" and got.startswith("h") and _overlapping_literals(norm, dep_matches) else "bound_first_value" if mixed_first else "product" if "tuple" in label and want != "AMBIGUOUS" and got == "AMBIGUOUS" else "mismatch"
                    fail(f"{kind}[{label[:60]}]" if kind == "mismatch" else kind, family=label, values=[repr(v) for v in vals], got=got, expected=want, matching=[f"h{h}" for h in matches])
    # value types on keyword-only parameters (alone, and next to a conditioned positional)
    from typing import Literal

    from ovld.dependent import StartsWith

    for variant in ("kw_only", "kw_and_positional"):
        ov = Ovld(name="okw")
        if variant == "kw_only":
            def mr(name: str, *, mode: Literal["r"]):
                return "r"

            def mw(name: str, *, mode: Literal["w"]):
                return "w"

            def ms(name: str, *, mode: StartsWith["a"]):
                return "a*"

            def mo(name: str, *, mode: str):
                return "other"

            cases = [(("f",), dict(mode="r"), "r"), (("f",), dict(mode="w"), "w"), (("f",), dict(mode="ab"), "a*"), (("f",), dict(mode="x"), "other")]
        else:
            def mr(name: Literal["f"], *, mode: Literal["r"]):
                return "r"

            def mw(name: str, *, mode: Literal["w"]):
                return "w"

            def ms(name: Literal["g"], *, mode: str):
                return "a*"

            def mo(name: str, *, mode: str):
                return "other"

            cases = [(("f",), dict(mode="r"), "r"), (("h",), dict(mode="r"), "other"), (("f",), dict(mode="w"), "w"), (("g",), dict(mode="x"), "a*"), (("h",), dict(mode="x"), "other")]
        for g_ in (mr, mw, ms, mo):
            ov.register(g_)
        for a_, k_, want in cases:
            n += 1
            try:
                got = ov(*a_, **k_)
            except TypeError as e:
                s_ = str(e)
                got = "AMBIGUOUS" if __import__("_errs").amb(s_) else "NOMETHOD" if __import__("_errs").nomethod(s_) else f"TypeError:{s_[:50]}"
            if got != want:
                fail(f"keyword_only_value_types[{variant}]", call=[list(a_), k_], got=got, expected=want)
    # "preferred over methods declared on the bound OR ITS SUBCLASSES": a condition on numbers.Number / int next to static
    # methods on int / bool; when the condition does not hold the static method runs
    import numbers

    from ovld.dependent import Dependent

    for bound, sub, good, bad in ((numbers.Number, int, 5, -5), (int, bool, True, False), (object, str, "yes", "")):
        ov = Ovld(name="rel")

        def dep(x: Dependent[bound, lambda v: bool(v) and (not isinstance(v, (int, float)) or v > 0)]):
            return "dependent"

        def static(x: sub):
            return "static"

        def base(x: object):
            return "base"

        for g_ in (static, dep) if bound is int else (dep, static):
            ov.register(g_)
        if bound is not object:
            ov.register(base)
        for v, want in ((good, "dependent"), (bad, "static")):
            n += 1
            try:
                got = ov(v)
            except TypeError as e:
                s_ = str(e)
                got = "AMBIGUOUS" if __import__("_errs").amb(s_) else "NOMETHOD" if __import__("_errs").nomethod(s_) else f"TypeError:{s_[:50]}"
            if got != want:
                fail("dependent_method_preferred_over_a_method_on_a_subclass_of_its_bound", bound=getattr(bound, "__name__", str(bound)), static_on=sub.__name__, value=repr(v), got=got, expected=want)
    print(json.dumps(dict(evaluations=n, failing=list(failing.values()))))
    return 1 if failing else 0


if __name__ == "__main__":
    sys.exit(main())
