"""Small concrete type terms per kind, built with the real constructors (run under /venv/bin/python).
Used (a) to concretise failed type-order / subtype obligations into native witnesses (bounded search,
labelled as such) and (b) by the routing-model conformance check."""
import typing
from collections.abc import Sized
from typing import Literal, Protocol, runtime_checkable

from ovld import Dependent, Exactly, Intersection, StrictSubclass, class_check
from ovld.dependent import Equals, ProductType, Regexp, StartsWith
from ovld.types import HasMethod, Union, normalize_type


class A: ...
class B(A): ...
class C(A): ...
class D(B, C): ...
class E: ...


class WithFoo:
    def foo(self): ...


@runtime_checkable
class Proto(Protocol):
    def foo(self): ...


@runtime_checkable
class Proto2(Protocol):  # structurally identical to Proto: mutual subclasses, distinct classes
    def foo(self): ...


def is_named_b(cls):
    return getattr(cls, "__name__", "").startswith("B")


def positive(x: int):
    return x > 0


def N(t):
    return normalize_type(t, None)


def terms(depth=1):
    K = {}
    K["Class"] = [object, A, B, C, D, E, int, bool, str, Sized, Proto, Proto2, WithFoo, tuple, type]
    K["Alias"] = [list[A], list[B], list[int], list[bool], dict[str, A], dict[str, B], type[A], type[B], type[object], list[list[A]], list[list[B]], typing.List[A], set[A], typing.Tuple[()], tuple[()]]
    K["Union"] = [N(A | E), N(B | C), N(B | E), N(C | B), N(int | str), N(bool | str), N(E | A)]
    K["Inter"] = [Intersection[A, E], Intersection[B, C], Intersection[B, E], Intersection[C, B], Intersection[A, Proto], Intersection[E, A]]
    K["Exactly"] = [Exactly[A], Exactly[B], Exactly[int], Exactly[E]]
    K["Strict"] = [StrictSubclass[A], StrictSubclass[B], StrictSubclass[int], StrictSubclass[object]]
    K["HasMethod"] = [HasMethod["foo"], HasMethod["__len__"], HasMethod["__init__"]]
    K["ClassCheck"] = [class_check(is_named_b)]
    K["Equals"] = [N(Literal[1]), N(Literal[1, 2]), N(Literal[2, 1]), N(Literal["a"]), N(Literal[True]), Equals[0]]
    K["FuncDep"] = [Dependent[int, positive], StartsWith["a"], StartsWith["ab"], Regexp["^a"], Dependent[A, class_check(is_named_b)] if False else Dependent[bool, positive]]
    K["Product"] = [N(tuple[A, B]), N(tuple[B, C]), N(tuple[B, B]), N(tuple[A]), N(tuple[()]), N(tuple[int, str])]
    if depth >= 2:
        K["Union"] += [Union[Intersection[A, E], int], Union[Exactly[A], E], Union[N(Literal[1]), str], Union[list[A], E]]
        K["Inter"] += [Intersection[N(A | E), C], Intersection[Exactly[A], E]]
        K["Alias"] += [list[N(A | E)], list[N(B | E)], list[Intersection[A, E]], type[N(A | E)], list[Exactly[A]]]
        K["Exactly"] += [Exactly[N(A | E)], Exactly[N(B | E)], Exactly[Intersection[A, E]], Exactly[Exactly[A]], Exactly[N(Literal[1])], Exactly[list[A]]]
        K["Product"] += [N(tuple[A | E, B]), N(tuple[Literal[1], str])]
        K["Inter"] += [Intersection[int, N(Literal[1])], Intersection[N(Literal[1]), int], Intersection[str, StartsWith["a"]], Intersection[StartsWith["a"], str], Intersection[Exactly[A], A], Intersection[N(A | E), N(E | A)]]
        K["Union"] += [Union[int, N(Literal[1])], Union[StartsWith["a"], int]]
        K["Equals"] += [Dependent[int | str, N(Literal[1])], Dependent[Intersection[A, E], N(Literal[1])]]
        K["FuncDep"] += [Dependent[int | str, positive], Dependent[Intersection[A, E], positive], Dependent[Exactly[int], positive]]
    return K


KINDS = ["Class", "Alias", "Union", "Inter", "Exactly", "Strict", "HasMethod", "ClassCheck", "Equals", "FuncDep", "Product"]
