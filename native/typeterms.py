"""Small concrete type terms per kind, built with the real constructors (run under /venv/bin/python).
Used (a) to concretise failed type-order / subtype obligations into native witnesses (bounded search,
labelled as such) and (b) by the routing-model conformance check."""
import typing
from collections.abc import Sized
from typing import Literal, Protocol, runtime_checkable

from ovld import Dependent, Exactly, Intersection, StrictSubclass, class_check
from ovld.dependent import Equals, ProductType, Regexp, StartsWith
from ovld.types import HasMethod, Union, normalize_type


class A: ...
class B(A): ...
class C(A): ...
class D(B, C): ...
class E: ...


NodeA = type("Node", (), {})  # two distinct classes that share their __name__ (and a third, unrelated one)
NodeB = type("Node", (), {})
Node0 = type("Node0", (), {})


import dataclasses as _dc


@_dc.dataclass
class Point:
    x: int = 0


@_dc.dataclass
class Point3(Point):
    z: int = 0


@_dc.dataclass(frozen=True)
class Stop:  # a dataclass without fields (a marker / sentinel message)
    pass


class WithFoo:
    def foo(self): ...


@runtime_checkable
class Proto(Protocol):
    def foo(self): ...


@runtime_checkable
class Proto2(Protocol):  # structurally identical to Proto: mutual subclasses, distinct classes
    def foo(self): ...


SPEC = {}  # id(type object) -> (constructor name, members as given to the constructor)
_KEEP = []  # keeps the objects alive so that ids stay unique


def is_named_b(cls):
    return getattr(cls, "__name__", "").startswith("B")


def positive(x: int):
    return x > 0


from ovld import dependent_check as _dependent_check


@_dependent_check
def Shape(t: tuple, *dims):  # typing.Any is a wildcard parameter
    return len(t) == len(dims) and all(d is typing.Any or d == x for x, d in zip(t, dims))


def _deferred_fixture():
    """Importable but not yet imported packages for Deferred[...] references (files in a scratch directory that is
    removed at exit)."""
    import atexit
    import os
    import shutil
    import sys
    import tempfile

    root = tempfile.mkdtemp(prefix="vt_deferred_")
    atexit.register(shutil.rmtree, root, True)
    files = {
        "vt_pkg/__init__.py": "from .base import Animal\n",
        "vt_pkg/base.py": "class Animal: ...\n",
        "vt_pkg/cats.py": "from .base import Animal\nclass Cat(Animal): ...\n",
        "vt_pkg/deep/__init__.py": "",
        "vt_pkg/deep/frame.py": "from ..base import Animal\nclass Frame(Animal): ...\n",
        "vt_moda/__init__.py": "class Thing: ...\n",
        "vt_modb/__init__.py": "class Thing: ...\n",
    }
    for rel, text in files.items():
        path = os.path.join(root, rel)
        os.makedirs(os.path.dirname(path), exist_ok=True)
        with open(path, "w") as f:
            f.write(text)
    sys.path.insert(0, root)
    sys.dont_write_bytecode = True


_deferred_fixture()
_DEFERRED = None


def deferred_terms():
    """(terms, classes): Deferred references created BEFORE their packages are imported, then the classes."""
    global _DEFERRED
    if _DEFERRED is None:
        from ovld.types import Deferred

        refs = ["vt_pkg.base.Animal", "vt_pkg.Animal", "vt_moda.Thing", "vt_modb.Thing", "vt_pkg.deep.frame.Frame"]
        ts = [Deferred[r] for r in refs]
        import vt_moda
        import vt_modb
        import vt_pkg.base
        import vt_pkg.cats
        import vt_pkg.deep.frame

        targets = [vt_pkg.base.Animal, vt_pkg.base.Animal, vt_moda.Thing, vt_modb.Thing, vt_pkg.deep.frame.Frame]
        for t, c in zip(ts, targets):
            SPEC[id(t)] = ("Deferred", (c,))
            _KEEP.append(t)
        # Frame lives two module levels below the package (pandas.core.frame.DataFrame layout)
        _DEFERRED = (ts, [vt_pkg.base.Animal, vt_pkg.cats.Cat, vt_moda.Thing, vt_modb.Thing, vt_pkg.deep.frame.Frame])
    return _DEFERRED


def N(t):
    import types as _types

    r = normalize_type(t, None)
    if isinstance(t, _types.UnionType):
        SPEC[id(r)] = ("Union", tuple(N(m) for m in t.__args__))
        _KEEP.append(r)
    return r



def U_(*ms):
    t = Union[ms]
    SPEC[id(t)] = ("Union", ms)
    _KEEP.append(t)
    return t


def I_(*ms):
    t = Intersection[ms]
    SPEC[id(t)] = ("Intersection", ms)
    _KEEP.append(t)
    return t


def AND_(a, b):
    """the intersection written with the `&` operator (MetaMC.__and__ / __rand__ / DependentType.__and__): by the documented
    meaning it is the intersection of exactly its two operands, whatever they are"""
    t = a & b
    SPEC[id(t)] = ("Intersection", (a, b))
    _KEEP.append(t)
    return t


def X_(b):
    t = Exactly[b]
    SPEC[id(t)] = ("Exactly", (b,))
    _KEEP.append(t)
    return t


def S_(b):
    t = StrictSubclass[b]
    SPEC[id(t)] = ("StrictSubclass", (b,))
    _KEEP.append(t)
    return t


def terms(depth=1):
    K = {}
    from ovld.types import Dataclass

    K["Class"] = [object, A, B, C, D, E, int, bool, str, Sized, Proto, Proto2, WithFoo, tuple, type, Dataclass, Point, Point3, Stop]
    K["Alias"] = [list[A], list[B], list[int], list[bool], dict[str, A], dict[str, B], dict[bool, str], dict[int, str], dict[int, A], dict[bool, B], type[A], type[B], type[object], list[list[A]], list[list[B]], typing.List[A], set[A], typing.Tuple[()], tuple[()]]
    K["Union"] = [N(A | E), N(B | C), N(B | E), N(C | B), N(int | str), N(bool | str), N(E | A)]
    K["Inter"] = [I_(A, E), I_(B, C), I_(B, E), I_(C, B), I_(A, Proto), I_(E, A)]
    K["Exactly"] = [X_(A), X_(B), X_(int), X_(E), X_(A)]  # two separately built X_(A)
    K["Strict"] = [S_(A), S_(B), S_(int), S_(object)]
    K["HasMethod"] = [HasMethod["foo"], HasMethod["__len__"], HasMethod["__init__"]]
    dts, dcls = deferred_terms()
    K["Class"] += dcls
    K["ClassCheck"] = [class_check(is_named_b)] + dts
    K["Equals"] = [N(Literal[1]), N(Literal[1, 2]), N(Literal[2, 1]), N(Literal["a"]), N(Literal[True]), Equals[0]]
    K["FuncDep"] = [Dependent[int, positive], StartsWith["a"], StartsWith["ab"], Regexp["^a"], Dependent[A, class_check(is_named_b)] if False else Dependent[bool, positive]]
    K["Product"] = [N(tuple[A, B]), N(tuple[B, C]), N(tuple[B, B]), N(tuple[A]), N(tuple[()]), N(tuple[int, str])]
    # members listed most-specific-first and least-specific-first (the order of a container against another type
    # must not depend on the position of the member that decides it); dependent types with wildcard parameters
    K["Class"] += [NodeA, NodeB, Node0]
    K["Union"] += [U_(B, A), U_(A, B), U_(D, B, E), N(NodeA | NodeB), N(NodeB | Node0 | NodeA), N(NodeA | E)]
    K["Inter"] += [I_(A, B), I_(B, A), I_(Sized, tuple, A)]
    # `&` with an ovld type on either side: a union / protocol / class-check operand stays ONE member
    K["Inter"] += [AND_(N(A | E), C), AND_(C, N(A | E)), AND_(HasMethod["foo"], N(B | E)), AND_(N(A | E), N(C | E)), AND_(I_(A, E), C)]
    K["FuncDep"] += [Shape[2, typing.Any], Shape[typing.Any, 2], Shape[2, 2], Shape[typing.Any, typing.Any], Shape[2, 3, typing.Any], Shape[typing.Any, typing.Any, 5], Shape[2, typing.Any, typing.Any]]
    if depth >= 2:
        K["Union"] += [U_(I_(A, E), int), U_(X_(A), E), U_(N(Literal[1]), str), U_(list[A], E)]
        K["Inter"] += [I_(N(A | E), C), I_(X_(A), E)]
        K["Alias"] += [list[N(A | E)], list[N(B | E)], list[I_(A, E)], type[N(A | E)], list[X_(A)]]
        K["Exactly"] += [X_(N(A | E)), X_(N(B | E)), X_(I_(A, E)), X_(Exactly[A]), X_(N(Literal[1])), X_(list[A])]
        K["Product"] += [N(tuple[A | E, B]), N(tuple[Literal[1], str])]
        K["Inter"] += [I_(int, N(Literal[1])), I_(N(Literal[1]), int), I_(str, StartsWith["a"]), I_(StartsWith["a"], str), I_(X_(A), A), I_(N(A | E), N(E | A))]
        K["Union"] += [U_(int, N(Literal[1])), U_(StartsWith["a"], int)]
        K["Equals"] += [Dependent[int | str, N(Literal[1])], Dependent[I_(A, E), N(Literal[1])]]
        K["FuncDep"] += [Dependent[int | str, positive], Dependent[I_(A, E), positive], Dependent[X_(int), positive]]
    return K


KINDS = ["Class", "Alias", "Union", "Inter", "Exactly", "Strict", "HasMethod", "ClassCheck", "Equals", "FuncDep", "Product"]
