"""Model conformance: the routing table of contracts/universe.py (what hasattr / attribute lookup /
issubclass / isinstance / get_origin do for each kind of type object) is checked against the live objects
of the current working tree.  Prints one JSON line {"evaluations": n, "failures": [...]}; exit 3 on failure."""
import json
import sys
import typing

import ovld.types as OT
from ovld.dependent import DependentType, FuncDependentType, ProductType, Equals
from ovld.mro import Order

import typeterms as T

METAMC = ["Union", "Inter", "Exactly", "Strict", "HasMethod", "ClassCheck"]
DEP = ["Equals", "FuncDep", "Product"]
n = 0
fails = []


def chk(cond, what):
    global n
    n += 1
    if not cond:
        fails.append(what)


terms = T.terms(depth=2)
import abc

classes = [c for c in terms["Class"] if not isinstance(c, abc.ABCMeta)]  # ABCs with attribute-sniffing __subclasshook__ are excluded (assumption)
for K, ts in terms.items():
    for t in ts:
        r = f"{K}:{t!r}"
        chk(hasattr(t, "__type_order__") == (K in METAMC + DEP), f"hasattr __type_order__ {r}")
        chk(hasattr(t, "__is_supertype__") == (K in METAMC + DEP), f"hasattr __is_supertype__ {r}")
        chk(hasattr(t, "__is_subtype__") == (K in METAMC), f"hasattr __is_subtype__ {r}")
        chk((typing.get_origin(t) is not None) == (K == "Alias"), f"get_origin {r}")
        chk(isinstance(t, type) == (K != "Alias"), f"isinstance type {r}")
        chk(isinstance(t, DependentType) == (K in DEP), f"isinstance DependentType {r}")
        chk(isinstance(t, ProductType) == (K == "Product"), f"isinstance ProductType {r}")
        chk(bool(t) is True, f"truthy {r}")
        if K in METAMC:
            mc = type(t)
            chk(mc is OT.MetaMC, f"metaclass {r}")
            for nm in ("__type_order__", "__is_supertype__", "__is_subtype__", "__subclasscheck__", "__instancecheck__", "__eq__", "__hash__"):
                chk(getattr(mc, nm) is getattr(OT.MetaMC, nm), f"MetaMC.{nm} {r}")
            h = t._handler
            if K == "Union":
                chk(hasattr(h, "types") and not isinstance(h, OT.SingleFunctionHandler), f"union handler {r}")
                chk(tuple(h.types) == tuple(t.__args__), f"union types {r}")
            if K in ("Exactly", "Strict", "HasMethod", "ClassCheck"):
                chk(type(h) is OT.SingleFunctionHandler, f"SFH {r}")
                chk(h.args == h.__args__, f"SFH args {r}")
            for c in classes:
                chk(type.__subclasscheck__(c, t) == (c is object), f"issubclass({r}, {c}) routes to object-only")
        if K in DEP:
            chk(t.__mro__ == (t, object), f"dependent types are base-less classes {r}")
            chk(type(t).__type_order__ is (ProductType.__type_order__ if K == "Product" else DependentType.__type_order__), f"dep __type_order__ routing {r}")
            chk(type(t).__is_supertype__ is DependentType.__is_supertype__, f"dep __is_supertype__ routing {r}")
            chk(type(t).__instancecheck__ is DependentType.__instancecheck__, f"dep __instancecheck__ routing {r}")
            chk((type(t).__lt__ is FuncDependentType.__lt__) == (K == "FuncDep"), f"dep __lt__ routing {r}")
            for c in classes:
                chk(issubclass(c, t) is False, f"issubclass({c}, {r})")
                chk(issubclass(t, c) == (c is object), f"issubclass({r}, {c})")
            chk(t.parameters == t.__args__, f"parameters {r}")
        if K == "Alias":
            if isinstance(t, typing._GenericAlias):
                try:
                    issubclass(t, object)
                    chk(False, f"issubclass(typing alias, ...) should raise {r}")
                except TypeError:
                    chk(True, "")
            else:
                for c in classes:
                    o = typing.get_origin(t)
                    chk((not issubclass(t, c)) or (issubclass(o, c) and c is not o), f"issubclass(types.GenericAlias, {c}) implies proper superclass of the origin {r}")
            try:
                issubclass(int, t)
                chk(False, f"issubclass(..., alias) should raise {r}")
            except TypeError:
                chk(True, "")
        if K == "Class":
            chk(typing.get_args(t) == (), f"get_args class {r}")
# Order: enum members are truthy singletons
for o in Order:
    chk(bool(o) is True and o is Order(o.value), f"Order member {o}")
print(json.dumps(dict(evaluations=n, failures=fails[:20])))
sys.exit(3 if fails else 0)
