"""C15 in R mode (bounded): equivalent spellings of an annotation dispatch identically, on real functions."""
import itertools
import numbers
import json
import sys
import typing
from typing import Annotated, Any, Literal, Optional

from ovld import Ovld
from ovld.dependent import Equals
from ovld.types import HasMethod
from ovld.types import normalize_type


class A: ...
class B(A): ...
class C: ...


NodeA = type("Node", (), {})
NodeB = type("Node", (), {})
Node0 = type("Node0", (), {})


VALUES = [NodeA(), NodeB(), Node0(), A(), B(), C(), 1, True, "a", None, [A()], [1], (1, "a"), 2.5, 2, "b", A, list[A], {"k": A()}, {"k": 1}, {}, [2], {"k": 2}, (2, "a"), [3]]

GLOBALS_A = {"Thing": A, "typing": typing, "Annotated": Annotated}
GLOBALS_C = {"Thing": C, "typing": typing}


def fn_with(ann, glb=None, name="m"):
    g = dict(glb or {})
    g["ANN"] = ann
    if isinstance(ann, str):
        src = f"def {name}(x: {ann!r}):\n    return {name!r}\n"
    elif ann is MISSING_ANN:
        src = f"def {name}(x):\n    return {name!r}\n"
    else:
        src = f"def {name}(x: ANN):\n    return {name!r}\n"
    exec(src, g)
    return g[name]


MISSING_ANN = object()

# groups of spellings that must be interchangeable
GROUPS = {
    "union_three_syntaxes": [typing.Union[A, int], A | int, (A, int)],
    "union_reordered": [A | int, int | A],
    "union_reordered_related_members": [B | A | int, int | A | B],
    "union_reordered_straddling": [bool | numbers.Number, numbers.Number | bool],
    "optional": [Optional[A], A | None, typing.Union[A, None]],
    "missing_any_object": [MISSING_ANN, Any, object],
    "annotated": [Annotated[A, "meta"], A],
    "annotated_any": [Annotated[Any, "meta"], Any],
    "annotated_type": [Annotated[type, "meta"], type],
    "annotated_union": [Annotated[A | int, "meta"], A | int],
    "string_annotation": ["Thing", A],
    "string_naming_an_annotated_form": ["Annotated[Thing, 'm']", Annotated[A, "m"], A],
    "string_naming_an_annotated_generic": ["Annotated[list[Thing], 'm']", Annotated[list[A], "m"], list[A]],
    "string_any": ["typing.Any", Any],
    "string_type": ["type", type],
    "list_generic": [list[A], typing.List[A]],
    "literal_reordered": [Literal[1, 2], Literal[2, 1]],
    "literal_reordered_mixed": [Literal[1, "a"], Literal["a", 1]],
    "literal_interleaved_types": [Literal[1, 2, "a"], Literal[1, "a", 2], Literal[2, 1, "a"]],
    "string_inside_dict_generic": [dict[str, A], dict[str, "Thing"], "dict[str, Thing]"],
    "string_inside_list_generic": [list[A], list["Thing"], "list[Thing]"],
    "union_of_same_named_classes": [NodeA | NodeB, NodeB | NodeA, typing.Union[NodeA, NodeB], (NodeA, NodeB)],
    "union_of_same_named_classes_with_a_literal": [NodeA | Node0 | NodeB | Literal["a"], Node0 | NodeA | Literal["a"] | NodeB, NodeB | NodeA | Node0 | Literal["a"], Literal["a"] | NodeA | NodeB | Node0],
    "annotated_generic": [Annotated[list[A], "meta"], list[A]],
    "annotated_literal": [Annotated[Literal[1, 2], "meta"], Literal[1, 2]],
    "annotated_typing_union": [Annotated[typing.Union[A, int], "meta"], typing.Union[A, int]],
    "annotated_optional": [Annotated[Optional[A], "meta"], Optional[A]],
    # ovld's own type objects inside the standard spellings
    "optional_of_protocol_type": [Optional[HasMethod["upper"]], HasMethod["upper"] | None, None | HasMethod["upper"], typing.Union[HasMethod["upper"], None]],
    "optional_of_value_type": [Optional[Equals[1]], Equals[1] | None, None | Equals[1], Optional[Literal[1]]],
    "union_with_value_type": [typing.Union[A, Equals["a"]], A | Equals["a"], Equals["a"] | A, (A, Equals["a"]), A | Literal["a"]],
    "nested_union_with_literal": [typing.Union[A, typing.Union[float, Literal["a"]]], (A, (float, Literal["a"])), A | float | Literal["a"], (A, float, Literal["a"])],
    # value types as element types of containers (checked through the element's isinstance, not the generated value check)
    "literal_inside_list": [list[Literal[1, 2]], list[Literal[2, 1]], typing.List[Literal[1, 2]]],
    "literal_inside_dict": [dict[str, Literal[1, 2]], dict[str, Literal[2, 1]]],
    "literal_inside_tuple": [tuple[Literal[1, 2], str], tuple[Literal[2, 1], str]],
    "nested_tuple_plain": [typing.Union[A, int, str], (A, (int, str)), ((A, int), str)],
}


def companions():
    def on_b(x: B):
        return "B"

    def on_str(x: str):
        return "str"

    def on_float(x: float):
        return "float"

    def on_int(x: int):
        return "int"

    return [[], [on_b], [on_str, on_float], [on_int]]


def behaviour(ann, comp, glb):
    ov = Ovld(name="f")
    for c in comp:
        ov.register(c)
    try:
        ov.register(fn_with(ann, glb))
    except Exception as e:  # a spelling that cannot even be registered differs from one that can
        return [f"REGISTRATION:{type(e).__name__}:{str(e)[:40]}"] * len(VALUES)
    out = []
    for v in VALUES:
        try:
            out.append(ov(v))
        except TypeError as e:
            s = str(e)
            out.append("AMBIGUOUS" if __import__("_errs").amb(s) else "NOMETHOD" if __import__("_errs").nomethod(s) else "TypeError")
        except Exception as e:
            out.append(type(e).__name__)
    return out


def main():
    failing, n = {}, 0

    def fail(name, **d):
        f = failing.setdefault(name, dict(name=name, n_violations=0, violations=[]))
        f["n_violations"] += 1
        f.setdefault("inputs", []).append(__import__("_fp").fingerprint(d))
        if len(f["violations"]) < 2:
            f["violations"].append(d)

    for gname, spellings in GROUPS.items():
        for comp in companions():
            ref = behaviour(spellings[0], comp, GLOBALS_A)
            for sp in spellings[1:]:
                n += 1
                got = behaviour(sp, comp, GLOBALS_A)
                if got != ref:
                    diff = [(repr(v)[:20], a, b) for v, a, b in zip(VALUES, ref, got) if a != b][:3]
                    fail(gname, spelling_a=repr(spellings[0]), spelling_b=repr(sp), companions=[c.__name__ for c in comp], differ_on=diff)
    # a string annotation is resolved in the namespace of the function that carries it
    n += 1
    b1 = behaviour("Thing", [], GLOBALS_A)
    b2 = behaviour("Thing", [], GLOBALS_C)
    if b2 != behaviour(C, [], None) or b1 != behaviour(A, [], None):
        fail("string_annotation_resolved_in_its_own_namespace", in_A=b1[:3], in_C=b2[:3])
    # a multi-valued Literal in either order, next to a second value-conditioned parameter and a fallback method
    def two_param(ann):
        ov = Ovld(name="lp")
        g = {"ANN": ann, "Literal": Literal}
        exec("def m(x: ANN, y: Literal[5]):\n    return 'literal'\n", g)
        ov.register(g["m"])

        def fb(x: object, y: object):
            return "fallback"

        ov.register(fb)
        res = []
        for a_ in ((1, 5), (2, 5), (1, 99), (2, 99), (3, 5)):
            try:
                res.append(ov(*a_))
            except TypeError as e:
                res.append("AMBIGUOUS" if __import__("_errs").amb(str(e)) else "TypeError")
        return res

    n += 1
    r12, r21 = two_param(Literal[1, 2]), two_param(Literal[2, 1])
    if r12 != r21 or r12 != ["literal", "literal", "fallback", "fallback", "fallback"]:
        fail("literal_reordered_next_to_a_second_condition", first_order=r12, second_order=r21)
    # re-registering a reordered union replaces instead of adding a second method
    ov = Ovld(name="r")
    ov.register(fn_with(A | int, None, "first"))
    ov.register(fn_with(int | A, None, "second"))
    n += 1
    try:
        got = ov(A())
    except TypeError as e:
        got = "AMBIGUOUS" if __import__("_errs").amb(str(e)) else "TypeError"
    if got != "second":
        fail("known_union_eq_order.reordered_union_is_the_same_signature", got=got)
    print(json.dumps(dict(evaluations=n, failing=list(failing.values())), default=repr))
    return 1 if failing else 0


if __name__ == "__main__":
    sys.exit(main())
