"""Run the REAL dependent-dispatch generator (MultiTypeMap.resolve -> wrap_dependent -> generate_dependent_dispatch)
on an enumerated family of method sets with value-dependent annotations and dump each emitted
__DEPENDENT_DISPATCH__ with a structural description of the injected objects and of the handlers' declared types.

usage: gen_dependent.py [quick|thorough]  -> JSON {"instances": [...]}
"""
import itertools
import json
import linecache
import re
import sys
import types
import typing
from typing import Literal

from ovld import Dependent, Intersection, Ovld
from ovld.dependent import DependentType, Equals, FuncDependentType, ProductType, Regexp, StartsWith, EndsWith, HasKey
from ovld.types import MetaMC, normalize_type

VALS = []  # equal values share an id (1 == True == 1.0 as dict keys)


def vid(v):
    for i, w in enumerate(VALS):
        try:
            if w == v and hash(w) == hash(v):
                return i
        except Exception:
            pass
    VALS.append(v)
    return len(VALS) - 1


PREDS = {}


def _has_dep(d):
    return d["cls"] not in ("static", "Union", "Intersection") or any(_has_dep(m) for m in d.get("members", []))


def _documented_bound(t):
    """docs/dependent.md: the bound of a @dependent_check type is the annotation of the VALUE parameter of its condition - the first
    parameter of the function form, the parameter after `self` of the class form's `check`. Read from the user's code, not from
    what the library stored; an explicit bound (Dependent[bound, ...] / with_bound) or an unannotated condition keeps the stored one."""
    import inspect

    from ovld.dependent import FuncDependentType, ParametrizedDependentType

    cls = type(t)
    ann = inspect.Parameter.empty
    try:
        if "func" in vars(cls):
            ps = list(inspect.signature(vars(cls)["func"]).parameters.values())
            ann = ps[0].annotation if ps else ann
        else:
            for k in cls.__mro__:
                if "check" in vars(k) and k not in (DependentType, ParametrizedDependentType, FuncDependentType):
                    ps = list(inspect.signature(vars(k)["check"]).parameters.values())
                    ann = ps[1].annotation if len(ps) > 1 else ann
                    break
        default = t.default_bound(*t.parameters) if hasattr(t, "default_bound") and hasattr(t, "parameters") else None
    except Exception:
        return t.bound
    if ann is inspect.Parameter.empty or not isinstance(ann, type) or t.bound is not default:
        return t.bound
    return ann


def describe_type(t):
    """Structural description of an annotation as the dispatcher sees it."""
    if isinstance(t, MetaMC):
        h = t._handler
        n = type(h).__name__
        if n in ("Union", "Intersection"):
            return dict(cls=n, members=[describe_type(m) for m in h.types])
        return dict(cls="static", name=repr(t))
    if isinstance(t, DependentType):
        b = describe_type(_documented_bound(t))
        if isinstance(t, Equals):
            return dict(cls="Equals", values=[dict(vid=vid(p), repr=repr(p), type=type(p).__name__) for p in t.parameters], bound=b)
        if isinstance(t, ProductType):
            return dict(cls="Product", members=[describe_type(p) for p in t.parameters], bound=b)
        if isinstance(t, Regexp):
            return dict(cls="Regexp", pattern=t.parameter, bound=b)
        return dict(cls="FuncDep", pred=f"{type(t).__name__}{list(map(repr, t.parameters))}", bound=b)
    return dict(cls="static", name=getattr(t, "__name__", repr(t)))


def describe_globals(fn, handlers):
    out = {}
    for name, val in fn.__globals__.items():
        if name.startswith("__"):
            continue
        if name.startswith("HANDLER"):
            out[name] = dict(kind="handler", index=handlers.index(val) if val in handlers else -1)
        elif name == "FALLTHROUGH":
            out[name] = dict(kind="fallthrough", is_raiser=getattr(val, "__name__", "") == "raise_error", is_handler=handlers.index(val) if val in handlers else None)
        elif isinstance(val, BaseException):
            out[name] = dict(kind="exc", text=str(val).split("\n")[0][:60])
        elif isinstance(val, dict):
            out[name] = dict(kind="keyed", items=[dict(vid=vid(k), repr=repr(k), handler=handlers.index(v) if v in handlers else -1) for k, v in val.items()])
        elif isinstance(val, re.Pattern):
            out[name] = dict(kind="regex", pattern=val.pattern)
        elif isinstance(val, (DependentType, MetaMC)) or isinstance(val, type):
            out[name] = dict(kind="type", type=describe_type(val))
        elif isinstance(val, tuple):
            out[name] = dict(kind="values", values=[dict(vid=vid(p), repr=repr(p)) for p in val])
        elif isinstance(val, (int, str, float, bool, bytes)) or val is None:
            out[name] = dict(kind="value", vid=vid(val), repr=repr(val))
        else:
            out[name] = dict(kind="other", repr=repr(val)[:60])
    return out


def positive(x: int):
    return x > 0


def even(x: int):
    return x % 2 == 0


def big(x: int):
    return x > 100


def KW(name, ann):
    """a keyword-only parameter `name: ann` (in a method's annotation list) / a keyword entry of a probe."""
    return ("kw", name, ann)


def _split(anns):
    pos = [a for a in anns if not (isinstance(a, tuple) and a and a[0] == "kw")]
    kw = [(a[1], a[2]) for a in anns if isinstance(a, tuple) and a and a[0] == "kw"]
    return pos, kw


def make_handler(name, anns, ret=None, is_method=False):
    pos, kw = _split(anns)
    g = {f"T{k}": a for k, a in enumerate(pos)}
    g.update({f"K_{n_}": a for n_, a in kw})
    params = (["self"] if is_method else []) + [f"a{k}: T{k}" for k in range(len(pos))]
    if kw:
        params.append("*")
        params += [f"{n_}: K_{n_}" for n_, _ in kw]
    exec(f"def {name}({', '.join(params)}):\n    return {ret or name!r}\n", g)
    return g[name]


def _same_named():
    """value-dependent types whose class names collide with each other and with a generated suffix (X, X, X0)."""
    from ovld.dependent import dependent_check

    def mk(name, fn):
        fn.__name__ = fn.__qualname__ = name
        return dependent_check(fn)

    def a(value: int, n):
        return value % 2 == n

    def b(value: int, n):
        return value > n

    def c(value: int):
        return value < 0

    return mk("Bit", a), mk("Bit", b), mk("Bit0", c)


_NOTEQ = []


def _not_eq():
    if not _NOTEQ:
        from ovld.dependent import dependent_check

        @dependent_check
        class NotEq:
            def check(self, value: int):
                return value != self.parameter

        _NOTEQ.append(NotEq)
    return _NOTEQ[0]


def families(tier):
    L = lambda *vs: Literal[tuple(vs)] if len(vs) > 1 else Literal[vs[0]]
    fam = []
    # (annotations per handler, probe classes): one dispatched position
    lit_sets = [
        [L(1)],
        [L(1), L(2)],
        [L(1), L(2), L(3)],
        [L(1), L(2), L(3), L(4)],
        [L(1), L(2), L(3), L(4), L(5)],
        [L(1, 2)],
        [L(1, 2), L(3)],
        [L(1, 2), L(2, 3)],
        [L(1, 2), L(3), L(4), L(5), L(6)],
        [L(1), L(2), L(3), L(4, 5)],
        [L("a"), L("b")],
        [L(1), L(True)],
        [L(True), L(1)],  # equal values of different types, in both orders of creation
        [L(0), L(False)],
        [L(False), L(0)],
    ]
    for s in lit_sets:
        is_str = any(isinstance(v, str) for a in s for v in typing.get_args(a))
        fam.append(([[a] for a in s], [(str,)] if is_str else [(int,)]))
    fam.append(([[L(1, "a")], [L(2)]], [(int,), (str,)]))
    fam.append(([[Dependent[int, positive]], [Dependent[int, even]]], [(int,)]))
    fam.append(([[Dependent[int, positive]]], [(int,), (bool,)]))
    fam.append(([[Dependent[int, positive]], [L(5)]], [(int,)]))
    fam.append(([[Regexp["^a"]], [Regexp["b$"]]], [(str,)]))
    fam.append(([[StartsWith["a"]], [EndsWith["b"]], [Regexp["c"]]], [(str,)]))
    fam.append(([[Regexp["^a"] | Dependent[int, positive]]], [(str,), (int,)]))
    fam.append(([[StartsWith["a"] & EndsWith["b"]]], [(str,)]))
    fam.append(([[str & Regexp["^a"]], [Regexp["b"]]], [(str,)]))
    fam.append(([[tuple[int, str]], [tuple[int, int]]], [(tuple,)]))
    fam.append(([[tuple[Literal[1], str]]], [(tuple,)]))
    fam.append(([[Dependent[int, positive]], [int]], [(int,), (bool,)]))  # a static method of the bound
    # two dispatched positions
    fam.append(([[L(0), L(1)], [L(1), L(0)]], [(int, int)]))
    fam.append(([[L(0), int], [int, L(0)]], [(int, int)]))
    fam.append(([[L(0), L(7)], [L(1), int], [L(2), int], [L(3), int]], [(int, int)]))
    fam.append(([[Dependent[int, positive], str], [int, Regexp["^a"]]], [(int, str)]))
    # a two-condition method in a rank of single-condition Literal methods large enough for the lookup-table path
    fam.append(([[L(0), L(7), object], [L(1), object, int], [L(2), object, int], [L(3), object, int], [L(4), object, int], [str, int, int]], [(int, int, int)]))
    # value types nested two levels deep (no value type at depth 1)
    fam.append(([[bytes | (StartsWith["a"] & EndsWith["b"])]], [(str,), (bytes,)]))
    fam.append(([[(str & Regexp["^a"]) | bytes]], [(str,), (bytes,)]))
    # an intersection with a static member inside a union whose other branch covers a wider class: the static member's
    # test must be part of the emitted check (the argument's class may come from the other branch)
    fam.append(([[(bool & Dependent[int, positive]) | L(5)]], [(int,), (bool,)]))
    fam.append(([[(bool & Dependent[int, positive]) | Dependent[int, big]], [L(7)]], [(int,), (bool,)]))
    # a class-check type (HasMethod / class_check / Exactly / StrictSubclass) combined with a value-dependent type
    from ovld.types import HasMethod

    fam.append(([[HasMethod["__add__"] & Dependent[int, positive]], [int]], [(int,), (bool,)]))
    fam.append(([[Dependent[int, positive] & HasMethod["bit_length"]]], [(int,)]))
    BitA, BitB, Bit0 = _same_named()
    fam.append(([[Bit0, BitA[1], BitB[2]], [int, int, int]], [(int, int, int)]))
    fam.append(([[BitA[0], Bit0, BitB[5]]], [(int, int, int)]))
    fam.append(([[L(i), KW("k", object)] for i in range(1, 6)] + [[int, KW("k", object)]], [(int, KW("k", str))]))
    # keyword-only parameters in the value dispatcher (conditions on them; passed on as keywords on every path)
    fam.append(([[Dependent[int, positive], KW("k", object)], [Dependent[int, even], KW("k", object)], [int, KW("k", object)]], [(int, KW("k", str))]))
    fam.append(([[int, KW("mode", L("r"))], [int, KW("mode", L("w"))]], [(int, KW("mode", str))]))
    fam.append(([[L(1), KW("mode", L("r"))], [L(2), KW("mode", str)]], [(int, KW("mode", str))]))
    # a union at one dispatched position next to a second conditioned position: the emitted conjunction must keep
    # the union's alternatives together (operator precedence of `or` / `and` in the emitted text)
    fam.append(([[L(1) | L("a"), L(5)]], [(int, int), (str, int)]))
    fam.append(([[L(1, 2), L(5)]], [(int, int)]))
    fam.append(([[L(2, 1), L(5)], [L(3), int]], [(int, int)]))
    fam.append(([[L("a", "ab") & StartsWith["a"]]], [(str,)]))
    fam.append(([[Regexp["^a"] | Dependent[int, positive], L(5)], [str, L(6)]], [(str, int), (int, int)]))
    # the same literal in two methods that are unordered through other positions: both conditions hold at once -> ambiguity
    fam.append(([[L(1), int, object], [L(1), object, int]], [(int, int, int)]))
    fam.append(([[L(1), int, object], [L(1), object, int], [L(2), int, int], [L(3), int, int]], [(int, int, int)]))
    # methods (self): every path of the value dispatcher - handler call, fall through - passes the instance on
    fam.append(([[StartsWith["a"]], [EndsWith["z"]]], [(str,)], "method"))
    fam.append(([[L(1)], [L(2)], [L(3)], [L(4)]], [(int,)], "method"))
    fam.append(([[Dependent[int, positive], KW("k", object)], [int, KW("k", object)]], [(int, KW("k", str))], "method"))
    # the CLASS form of @dependent_check (docs/dependent.md; the built-in Regexp is one): the bound is the annotation of the
    # value parameter of `check`, the condition is never asked about anything else
    fam.append(([[Regexp["^a"]]], [(str,), (int,)]))
    fam.append(([[_not_eq()[0]], [str]], [(int,), (str,), (bool,)]))
    # three Literal methods whose value sets overlap PAIRWISE but have no value common to all three, next to a second conditioned
    # position (so that no lookup table applies): whenever two conditions hold the ambiguity error is raised
    fam.append(([[L(0, 1), L(7)], [L(1, 2), L(7)], [L(3), L(7)]], [(int, int)]))
    fam.append(([[L(0, 1), L(7)], [L(1, 2), L(7)], [L(2, 0), L(7)]], [(int, int)]))
    # string values that need care when they are spliced into generated source text (braces, quotes, backslashes)
    fam.append(([[L("{{")], [L("}}")]], [(str,)]))
    fam.append(([[L("{arg}")], [L("ARG0")]], [(str,)]))
    fam.append(([[L("it's")], [L('say "hi"')], [L("back\\slash")]], [(str,)]))
    fam.append(([[L("{0}"), L(5)], [L("%s"), int]], [(str, int)]))
    # systematic part: every set of up to four (thorough: five) methods whose single dispatched position carries one of seven
    # conditions bounded by int - single and multi-valued disjoint Literals, two user predicates - so that every strategy of
    # the generator (single method, exclusive if-chain, lookup table, counted matches) is reached with every mixture
    pool = [L(1), L(2), L(3, 4), L(5), L(6), Dependent[int, positive], Dependent[int, even]]
    have = {tuple(repr(a) for h in f[0] for a in h) for f in fam if all(len(h) == 1 for h in f[0])}
    for size in range(1, 6 if tier == "thorough" else 5):
        for combo in itertools.combinations(pool, size):
            if tuple(repr(a) for a in combo) not in have:
                fam.append(([[a] for a in combo], [(int,)]))
    if tier == "thorough":
        fam.append(([[L(i)] for i in range(1, 8)], [(int,)]))
        fam.append(([[L(0), L(1), L(2)], [L(1), L(0), int]], [(int, int, int)]))
        fam.append(([[Dependent[int, positive]], [Dependent[int, even]], [Dependent[int, big]]], [(int,)]))
    return fam


def main():
    tier = sys.argv[1] if len(sys.argv) > 1 else "quick"
    instances = []
    for fi, spec in enumerate(families(tier)):
        handlers_ann, probes = spec[0], spec[1]
        is_method = len(spec) > 2 and spec[2] == "method"
        ov = Ovld(name=f"fam{fi}")
        fns = []
        pos0, kw0 = _split(handlers_ann[0])
        npos = len(pos0)
        for hi, anns in enumerate(handlers_ann):
            fns.append(make_handler(f"h{hi}", anns, is_method=is_method))
            ov.register(fns[-1])
        ov.register(make_handler("base", [object] * npos + [KW(n_, object) for n_, _ in kw0], is_method=is_method))
        try:
            ov.compile()
        except Exception as e:
            instances.append(dict(family=fi, error=f"compile: {type(e).__name__}: {e}"))
            continue
        registered = list(ov.map.type_tuples)  # adapted handlers in registration order
        decl = [[describe_type(t[1] if isinstance(t, tuple) else t) for t in ov.map.type_tuples[h]] for h in registered]
        kwnames = [n_ for n_, _ in kw0]
        for probe in probes:
            key = tuple((e[1], e[2]) if (isinstance(e, tuple) and e and e[0] == "kw") else e for e in probe)
            probe = [e[2] if (isinstance(e, tuple) and e and e[0] == "kw") else e for e in probe]
            try:
                fn = ov.map[key]
            except Exception as e:
                instances.append(dict(family=fi, probe=[c.__name__ for c in probe], error=f"{type(e).__name__}: {str(e)[:100]}"))
                continue
            if getattr(fn, "__code__", None) is None or not fn.__code__.co_filename.startswith("<ovld"):
                # no generated dispatcher at the top rank for this probe: fine unless the selected method's declared
                # types contain a value-dependent type at any depth (structural test independent of is_dependent)
                if fn in registered and any(_has_dep(t) for t in decl[registered.index(fn)]):
                    instances.append(dict(family=fi, annotations=[[repr(a) for a in anns] for anns in handlers_ann], probe=[c.__name__ for c in probe], error="a method whose annotation contains a value-dependent type is stored without a generated value check", missing_dispatcher=True))
                continue
            lines = linecache.cache.get(fn.__code__.co_filename)
            text = "".join(lines[2]) if lines else None
            instances.append(
                dict(
                    family=fi,
                    annotations=[[repr(a) for a in anns] for anns in handlers_ann],
                    probe=[c.__name__ for c in probe],
                    kwnames=kwnames,
                    is_method=is_method,
                    source=text,
                    globals=describe_globals(fn, registered),
                    declared=decl,
                    n_handlers=len(registered),
                )
            )
    print(json.dumps(dict(instances=instances, values=[repr(v) for v in VALS])))


if __name__ == "__main__":
    main()
