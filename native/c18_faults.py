"""C18 in R mode (bounded): builds that fail part-way, on real Ovlds, probed through the user-facing function."""
import json
import sys

from ovld import Ovld, call_next, ovld
from ovld.utils import UsageError


def out(fn, *a):
    try:
        return ("ok", fn(*a))
    except TypeError as e:
        s = str(e)
        return ("cfg", "AMBIGUOUS") if __import__("_errs").amb(s) else ("nomethod",) if __import__("_errs").nomethod(s) else ("cfg", s[:50])
    except (UsageError, OSError) as e:
        return ("cfg", type(e).__name__)
    except Exception as e:
        return ("other", type(e).__name__, str(e)[:50])


PROBES = (1, "a", 1.5, [])


def make(order):
    o = Ovld(name="h")

    def hi(x: int):
        return "int"

    def hs(x: str):
        z = call_next  # misuse: call_next must be called right away
        return "bad"

    def hf(x: float):
        return "float"

    def ho(x: object):
        return "object"

    fns = dict(i=hi, s=hs, f=hf, o=ho)
    for k in order:
        o.register(fns[k])
    return o, fns


def main():
    failing, n = {}, 0

    def fail(name, **d):
        f = failing.setdefault(name, dict(name=name, n_violations=0, violations=[]))
        f["n_violations"] += 1
        f.setdefault("inputs", []).append(__import__("_fp").fingerprint(d))
        if len(f["violations"]) < 2:
            f["violations"].append(d)

    # complete behaviour without the offending method
    ref_o, _ = make("ifo")
    ref = {p if not isinstance(p, list) else "list": out(ref_o, p) for p in PROBES}
    # 1. first-use build fails while adapting the offending method at each position of the registration order
    for order in ("sifo", "isfo", "ifso", "ifos"):
        o, fns = make(order)
        first = out(o, 1)  # through Ovld.__call__
        n += 1
        # through the Ovld object itself (Ovld.__call__ re-enters the build while it is not marked as built)
        for p in PROBES:
            n += 1
            got = out(o, p)
            key = p if not isinstance(p, list) else "list"
            if got[0] == "ok" and got != ref[key]:
                fail("call_through_ovld_object_after_failed_build.silent_dispatch_over_partial_table", order=order, probe=repr(p), got=got, complete_set_gives=ref[key])
            if got == ("nomethod",) and ref[key][0] == "ok":
                fail("call_through_ovld_object_after_failed_build.no_method_although_registered", order=order, probe=repr(p), complete_set_gives=ref[key])
        fn = o.dispatch  # the function handed to users
        for p in PROBES:
            n += 1
            got = out(fn, p)
            key = p if not isinstance(p, list) else "list"
            if got[0] == "ok" and got != ref[key] and not (isinstance(p, str)):
                fail("first_build_adapt_failure.silent_dispatch_over_partial_table", order=order, probe=repr(p), got=got, complete_set_gives=ref[key])
            if got == ("nomethod",) and ref[key][0] == "ok":
                fail("first_build_adapt_failure.no_method_although_registered", order=order, probe=repr(p), complete_set_gives=ref[key])
        o.unregister(fns["s"])
        for p in PROBES:
            n += 1
            got = out(o.dispatch, p)
            key = p if not isinstance(p, list) else "list"
            if got != ref[key]:
                fail("works_normally_once_offending_method_removed", order=order, probe=repr(p), got=got, want=ref[key])
    # 2. rebuild after a change fails in the argument analysis; then the offending method is removed
    o, fns = make("ifo")
    for p in PROBES:
        out(o, p)
    f = o.dispatch

    def bad(y: str, x: int):
        return "bad"

    n += 1
    try:
        o.register(bad)
        fail("conflicting_names_not_rejected")
    except TypeError:
        pass
    for p in PROBES:
        n += 1
        got = out(f, p)
        key = p if not isinstance(p, list) else "list"
        if got[0] == "ok" and got != ref[key]:
            fail("rebuild_failure.silent_wrong_dispatch", probe=repr(p), got=got, want=ref[key])
    o.unregister(bad)
    for p in PROBES:
        n += 1
        got = out(f, p)
        key = p if not isinstance(p, list) else "list"
        if got != ref[key]:
            fail("rebuild_failure.works_normally_once_offending_method_removed", probe=repr(p), got=got, want=ref[key])
    # 2b. first-use build fails on conflicting names; the bad method is removed and a CORRECTED one with the same types is
    #     registered: the function works normally, including the corrected method
    o = Ovld(name="h2")

    def g1(x: int, y: int):
        return "g1"

    def gbad(y: str, x: int):
        return "gbad"

    def ggood(x: str, y: int):
        return "ggood"

    o.register(g1)
    o.register(gbad)
    n += 1
    first = out(o, 1, 2)
    o.unregister(gbad)
    o.register(ggood)
    for args, want in (((1, 2), ("ok", "g1")), (("a", 2), ("ok", "ggood"))):
        n += 1
        got = out(o, *args)
        if got != want:
            fail("works_normally_with_a_corrected_method_after_the_offending_one_is_removed", call=repr(args), got=got, want=want, first_call=first)
    # 3. a user type hook raising during cache-miss resolution: a retry behaves normally afterwards
    from ovld import class_check

    for exc_type in (RuntimeError, TypeError, AttributeError, KeyError):
        state = {"boom": True}

        def flaky(cls, state=state, exc_type=exc_type):
            if state["boom"]:
                raise exc_type("hook failed")
            return cls is int

        F = class_check(flaky)
        o = Ovld(name="k")

        def kf(x: F):
            return "flaky"

        def ko(x: object):
            return "object"

        o.register(kf)
        o.register(ko)
        n += 1
        r1 = out(o, 1)
        state["boom"] = False
        n += 1
        r2 = out(o, 1)
        if r2 != ("ok", "flaky") or r1 == ("ok", "object"):
            # the failing condition must not be taken for "does not match" (the less specific method would be cached and run)
            fail("hook_exception_during_resolution_then_retry", exception=exc_type.__name__, first=r1, retry=r2)
    # 3b. the same with a plain abstract class whose __subclasshook__ fails once (any exception type)
    import abc

    for exc_type in (RuntimeError, ImportError, TypeError):
        st2 = {"boom": True}

        class Arrayish(abc.ABC):
            @classmethod
            def __subclasshook__(cls, C):
                if st2["boom"]:
                    st2["boom"] = False
                    raise exc_type("hook failed once")
                return hasattr(C, "shape") or NotImplemented

        class Vec:
            shape = (3,)

        o = Ovld(name="k2")

        def ka(x: Arrayish):
            return "array"

        def ko2(x: object):
            return "object"

        o.register(ka)
        o.register(ko2)
        n += 2
        r1 = out(o, Vec())
        r2 = out(o, Vec())
        # the first call may fail (the hook's exception) or already answer correctly; it must not answer WRONGLY, and the
        # retry must behave according to the complete method set
        if (r1[0] == "ok" and r1 != ("ok", "array")) or r2 != ("ok", "array"):
            # a TypeError from the hook is indistinguishable, for subclasscheck, from "not a class": open finding F-hooktypeerror
            fail(("known_hooktypeerror." if exc_type is TypeError else "") + "class_hook_exception_during_resolution_then_retry", exception=exc_type.__name__, first=r1, retry=r2)
    # 4. linked family, everyone in use; an invalid method arrives on an ancestor.  No OTHER member may be left serving
    #    a partially filled table (the ancestor's own state is scenario 2 / finding F-halfbuilt).
    for depth in (1, 2):
        class A_: pass
        class B_(A_): pass
        class C_(A_): pass
        class D_(A_): pass

        def pa(x: A_):
            return "A"

        def pb(x: B_):
            return "B"

        parent = Ovld(name="lp")
        parent.register(pa)
        parent.register(pb)
        fam = [parent]
        for lvl in range(depth):
            ch = fam[-1].copy(linkback=True)

            def own(x, _lvl=lvl):
                return f"own{_lvl}"

            own.__annotations__ = {"x": (C_, D_)[lvl]}
            ch.register(own)
            fam.append(ch)
        probes = (A_(), B_(), C_(), D_())
        want = [[out(m, p) for p in probes] for m in fam]

        def hs(x: int):
            z = call_next
            return "bad"

        n += 1
        try:
            parent.register(hs)
            fail("linked_family.invalid_method_not_rejected", depth=depth)
        except Exception:
            pass
        for i, m in enumerate(fam[1:], 1):
            for p, w_ in zip(probes, want[i]):
                n += 1
                got = out(m.dispatch, p)
                if got[0] == "ok" and got != w_:
                    fail("linked_family.member_silently_dispatches_over_partial_table", depth=depth, member=i, probe=type(p).__name__, got=got, complete_set_gives=w_)
                if got == ("nomethod",) and w_[0] == "ok":
                    fail("linked_family.member_no_method_although_registered", depth=depth, member=i, probe=type(p).__name__, complete_set_gives=w_)
        parent.unregister(hs)
        for i, m in enumerate(fam):
            for p, w_ in zip(probes, want[i]):
                n += 1
                got = out(m.dispatch, p)
                if got != w_:
                    fail("linked_family.works_normally_once_offending_method_removed", depth=depth, member=i, probe=type(p).__name__, got=got, want=w_)
    # the Ovld object used as a class attribute (descriptor): attribute access re-enters the build while the function is not
    # marked as built, so after a failed first build later calls fail again or see all methods - never a partial table
    from ovld import Ovld as _Ovld, call_next as _cn
    from ovld.utils import UsageError as _UE

    def _bad(self, x: float):  # invalid: call_next must be called right away
        nxt = _cn
        return nxt(x)

    for pos in range(4):
        class Walker:
            visit = _Ovld()

        def v_obj(self, x: object):
            return "obj"

        def v_int(self, x: int):
            return "int"

        def v_str(self, x: str):
            return "str"

        good = [v_obj, v_int, v_str]
        for g_ in good[:pos] + [_bad] + good[pos:]:
            Walker.__dict__["visit"].register(g_)
        w_ = Walker()

        def probe(inst):
            res = []
            for a_ in (1, "s", None):
                try:
                    res.append(inst.visit(a_))
                except _UE:
                    res.append("<configuration error>")
                except TypeError as e:
                    res.append("nomethod" if __import__("_errs").nomethod(str(e)) else f"TypeError: {str(e)[:40]}")
                except Exception as e:
                    res.append(f"{type(e).__name__}: {str(e)[:40]}")
            return res

        n += 1
        first = probe(w_)[:1]
        again = probe(w_)
        for a_, want, g_ in zip((1, "s", None), ("int", "str", "obj"), again):
            if g_ not in (want, "<configuration error>"):
                fail("attribute_access_after_failed_build.partial_table_in_service", invalid_method_at=pos, probe=repr(a_), got=g_, complete_set_gives=want)
        Walker.__dict__["visit"].unregister(_bad)
        after = probe(Walker())
        if after != ["int", "str", "obj"]:
            fail("attribute_access_after_failed_build.works_once_the_invalid_method_is_removed", invalid_method_at=pos, got=after)
    print(json.dumps(dict(evaluations=n, failing=list(failing.values()))))
    return 1 if failing else 0


if __name__ == "__main__":
    sys.exit(main())
