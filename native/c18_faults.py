"""C18 in R mode (bounded): builds that fail part-way, on real Ovlds, probed through the user-facing function."""
import json
import sys

from ovld import Ovld, call_next, ovld
from ovld.utils import UsageError


def out(fn, *a):
    try:
        return ("ok", fn(*a))
    except TypeError as e:
        s = str(e)
        return ("cfg", "AMBIGUOUS") if s.startswith("Ambiguous") else ("nomethod",) if s.startswith("No method") else ("cfg", s[:50])
    except (UsageError, OSError) as e:
        return ("cfg", type(e).__name__)
    except Exception as e:
        return ("other", type(e).__name__, str(e)[:50])


PROBES = (1, "a", 1.5, [])


def make(order):
    o = Ovld(name="h")

    def hi(x: int):
        return "int"

    def hs(x: str):
        z = call_next  # misuse: call_next must be called right away
        return "bad"

    def hf(x: float):
        return "float"

    def ho(x: object):
        return "object"

    fns = dict(i=hi, s=hs, f=hf, o=ho)
    for k in order:
        o.register(fns[k])
    return o, fns


def main():
    failing, n = {}, 0

    def fail(name, **d):
        f = failing.setdefault(name, dict(name=name, n_violations=0, violations=[]))
        f["n_violations"] += 1
        if len(f["violations"]) < 2:
            f["violations"].append(d)

    # complete behaviour without the offending method
    ref_o, _ = make("ifo")
    ref = {p if not isinstance(p, list) else "list": out(ref_o, p) for p in PROBES}
    # 1. first-use build fails while adapting the offending method at each position of the registration order
    for order in ("sifo", "isfo", "ifso", "ifos"):
        o, fns = make(order)
        first = out(o, 1)  # through Ovld.__call__
        n += 1
        # through the Ovld object itself (Ovld.__call__ re-enters the build while it is not marked as built)
        for p in PROBES:
            n += 1
            got = out(o, p)
            key = p if not isinstance(p, list) else "list"
            if got[0] == "ok" and got != ref[key]:
                fail("call_through_ovld_object_after_failed_build.silent_dispatch_over_partial_table", order=order, probe=repr(p), got=got, complete_set_gives=ref[key])
            if got == ("nomethod",) and ref[key][0] == "ok":
                fail("call_through_ovld_object_after_failed_build.no_method_although_registered", order=order, probe=repr(p), complete_set_gives=ref[key])
        fn = o.dispatch  # the function handed to users
        for p in PROBES:
            n += 1
            got = out(fn, p)
            key = p if not isinstance(p, list) else "list"
            if got[0] == "ok" and got != ref[key] and not (isinstance(p, str)):
                fail("first_build_adapt_failure.silent_dispatch_over_partial_table", order=order, probe=repr(p), got=got, complete_set_gives=ref[key])
            if got == ("nomethod",) and ref[key][0] == "ok":
                fail("first_build_adapt_failure.no_method_although_registered", order=order, probe=repr(p), complete_set_gives=ref[key])
        o.unregister(fns["s"])
        for p in PROBES:
            n += 1
            got = out(o.dispatch, p)
            key = p if not isinstance(p, list) else "list"
            if got != ref[key]:
                fail("works_normally_once_offending_method_removed", order=order, probe=repr(p), got=got, want=ref[key])
    # 2. rebuild after a change fails in the argument analysis; then the offending method is removed
    o, fns = make("ifo")
    for p in PROBES:
        out(o, p)
    f = o.dispatch

    def bad(y: str, x: int):
        return "bad"

    n += 1
    try:
        o.register(bad)
        fail("conflicting_names_not_rejected")
    except TypeError:
        pass
    for p in PROBES:
        n += 1
        got = out(f, p)
        key = p if not isinstance(p, list) else "list"
        if got[0] == "ok" and got != ref[key]:
            fail("rebuild_failure.silent_wrong_dispatch", probe=repr(p), got=got, want=ref[key])
    o.unregister(bad)
    for p in PROBES:
        n += 1
        got = out(f, p)
        key = p if not isinstance(p, list) else "list"
        if got != ref[key]:
            fail("rebuild_failure.works_normally_once_offending_method_removed", probe=repr(p), got=got, want=ref[key])
    # 3. a user type hook raising during cache-miss resolution: a retry behaves normally afterwards
    from ovld import class_check

    state = {"boom": True}

    def flaky(cls):
        if state["boom"]:
            raise RuntimeError("hook failed")
        return cls is int

    F = class_check(flaky)
    o = Ovld(name="k")

    def kf(x: F):
        return "flaky"

    def ko(x: object):
        return "object"

    o.register(kf)
    o.register(ko)
    n += 1
    r1 = out(o, 1)
    state["boom"] = False
    n += 1
    r2 = out(o, 1)
    if r2 != ("ok", "flaky"):
        fail("hook_exception_during_resolution_then_retry", first=r1, retry=r2)
    print(json.dumps(dict(evaluations=n, failing=list(failing.values()))))
    return 1 if failing else 0


if __name__ == "__main__":
    sys.exit(main())
