"""C03 in R mode (bounded): real calls through real entry points; every method reports exactly what it received."""
import itertools
import json
import sys

from ovld import Ovld

import gen_dispatch as G


class Boom(Exception):
    pass


def make_fn(idx, params, is_method):
    parts = ["self"] if is_method else []
    posonly = [p for p in params if p["kind"] == "O"]
    pos = [p for p in params if p["kind"] == "P"]
    kw = [p for p in params if p["kind"] == "K"]

    def one(p):
        return f"{p['name']}: {'type[int]' if p.get('typeann') else 'object'}" + (f" = DEF" if p["default"] else "")

    parts += [one(p) for p in posonly]
    if posonly:
        parts.append("/")
    parts += [one(p) for p in pos]
    if kw:
        parts.append("*")
        parts += [one(p) for p in kw]
    names = [p["name"] for p in params]
    body = f"    return ('m{idx}', {'self, ' if is_method else ''}{{{', '.join(repr(n) + ': ' + n for n in names)}}})\n"
    src = f"def m{idx}({', '.join(parts)}):\n{body}"
    g = {"DEF": ("default-of", idx)}
    exec(src, g)
    return g[f"m{idx}"]


def main():
    failing = {}
    n = 0

    def fail(name, **d):
        f = failing.setdefault(name, dict(name=name, n_violations=0, violations=[]))
        f["n_violations"] += 1
        f.setdefault("inputs", []).append(__import__("_fp").fingerprint(d))
        if len(f["violations"]) < 2:
            f["violations"].append(d)

    for sh, is_method in G.shapes("quick"):
        label = "|".join(",".join(p["name"] + p["kind"] + ("?" if p["default"] else "") for p in m) or "()" for m in sh) + (",self" if is_method else "")
        try:
            ov = Ovld(name="f")
            for i, m in enumerate(sh):
                ov.register(make_fn(i, m, is_method))
            ov.compile()
        except Exception as e:
            fail("reserved_parameter_names" if any(p["name"] in ("OVLD", "MISSING", "TARGS", "KWARGS", "method") for m in sh for p in m) else "generator_error", shape=label, error=f"{type(e).__name__}: {e}"[:120])
            continue
        acc = {}
        for mi, m in enumerate(sh):
            pos = [p for p in m if p["kind"] in ("P", "O")]
            kw = [p for p in m if p["kind"] == "K"]
            req = sum(1 for p in pos if not p["default"])
            reqk = {p["name"] for p in kw if not p["default"]}
            optk = [p["name"] for p in kw if p["default"]]
            for k in range(req, len(pos) + 1):
                for r in range(len(optk) + 1):
                    for extra in itertools.combinations(optk, r):
                        acc.setdefault((k, frozenset(reqk | set(extra))), []).append(mi)
        slf = object()
        for (k, kws), methods in acc.items():
            n += 1
            args = [("arg", i) for i in range(k)]
            kwargs = {name: ("kw", name) for name in kws}
            typed = any(p.get("typeann") for m in sh for p in m)
            if typed:
                continue  # type[...] positions need class-valued arguments: covered by C14's suite
            maxpos = max(len([p for p in m_ if p["kind"] in ("P", "O")]) for m_ in sh)
            pattern = "kwdrop" if kws and k < maxpos else "empty" if k == 0 and not kws and not any(len(m) == 0 for m in sh) else "shape"
            try:
                fn = ov.dispatch
                r = fn(slf, *args, **kwargs) if is_method else fn(*args, **kwargs)
            except TypeError as e:
                s = str(e)
                if __import__("_errs").amb(s):
                    if len(methods) < 2:
                        fail(f"{pattern}.spurious_ambiguity", shape=label, call=[k, sorted(kws)], error=s[:80])
                    continue
                fail(f"{pattern}.accepted_call_shape_rejected", shape=label, call=[k, sorted(kws)], error=s[:100], accepted_by=methods)
                continue
            except Exception as e:
                fail(f"{pattern}.unexpected_exception", shape=label, call=[k, sorted(kws)], error=f"{type(e).__name__}: {e}"[:100])
                continue
            mname, *rest = r
            got_self = rest[0] if is_method else None
            recv = rest[-1]
            mi = int(mname[1:])
            m = sh[mi]
            if mi not in methods:
                fail(f"{pattern}.method_does_not_accept_the_call", shape=label, call=[k, sorted(kws)], ran=mname)
                continue
            if is_method and got_self is not slf:
                fail(f"{pattern}.self_not_passed_through", shape=label)
            pos = [p for p in m if p["kind"] in ("P", "O")]
            ok = True
            for i, p in enumerate(pos):
                want = args[i] if i < k else ("default-of", mi)
                if recv[p["name"]] is not want and recv[p["name"]] != want:
                    ok = False
            for p in m:
                if p["kind"] == "K":
                    want = kwargs[p["name"]] if p["name"] in kws else ("default-of", mi)
                    if recv[p["name"]] != want:
                        ok = False
            if not ok:
                fail(f"{pattern}.arguments_or_defaults_not_passed_intact", shape=label, call=[k, sorted(kws)], received={a: repr(b) for a, b in recv.items()})
        # named positional parameters supplied BY KEYWORD (docs/usage.md): refused loudly at binding time, or passed intact
        if any(p.get("typeann") for m in sh for p in m):
            continue
        poslists = [[p for p in m if p["kind"] in ("P", "O")] for m in sh]
        maxpos = max((len(pl) for pl in poslists), default=0)
        minreq = min((sum(1 for p in pl if not p["default"]) for pl in poslists), default=0)
        uniform = all(len({pl[i]["name"] for pl in poslists if i < len(pl)}) == 1 and all(pl[i]["kind"] == "P" for pl in poslists if i < len(pl)) for i in range(maxpos))
        for mi, m in enumerate(sh):
            pos = poslists[mi]
            kwp = [p for p in m if p["kind"] == "K"]
            reqk = {p["name"] for p in kwp if not p["default"]}
            for npos in range(len(pos) + 1):
                rest = list(range(npos, len(pos)))
                for r in range(1, len(rest) + 1):
                    for S in itertools.combinations(rest, r):
                        if any(pos[i]["kind"] != "P" for i in S) or any((not pos[i]["default"]) and i not in S for i in rest):
                            continue
                        byname = {pos[i]["name"]: i for i in S}
                        if len(byname) != len(S) or set(byname) & {p["name"] for p in kwp}:
                            continue
                        supplied = sorted(list(range(npos)) + list(S))
                        gap = supplied != list(range(len(supplied)))
                        n += 1
                        args = [("arg", i) for i in range(npos)]
                        kwargs = {nm: ("arg", i) for nm, i in byname.items()}
                        kwargs.update({k: ("kw", k) for k in reqk})
                        call = [npos, sorted(kwargs)]
                        try:
                            fn = ov.dispatch
                            res = fn(slf, *args, **kwargs) if is_method else fn(*args, **kwargs)
                        except TypeError as e:
                            msg = str(e)
                            loud = "positional-only" in msg or "unexpected keyword" in msg or "multiple values" in msg or "required positional" in msg
                            documented = uniform and (maxpos - minreq) <= 1 and not gap
                            if __import__("_errs").amb(msg):
                                continue
                            if not loud or documented:
                                fail("positional_by_keyword.rejected_although_documented" if documented else "positional_by_keyword.rejected_by_the_dispatch_not_the_binding", shape=label, call=call, error=msg[:100])
                            continue
                        except Exception as e:
                            fail("positional_by_keyword.unexpected_exception", shape=label, call=call, error=f"{type(e).__name__}: {e}"[:100])
                            continue
                        mname, *rest_ = res
                        recv = rest_[-1]
                        mj = int(mname[1:])
                        pj = poslists[mj]
                        ok = not gap or True
                        for i in supplied:
                            if i >= len(pj) or recv[pj[i]["name"]] != ("arg", i):
                                ok = False
                        for i, p in enumerate(pj):
                            if i not in supplied and recv[p["name"]] != ("default-of", mj):
                                ok = False
                        if not ok:
                            fail("positional_by_keyword.supplied_argument_dropped_or_moved", shape=label, call=call, ran=mname, received={a: repr(b) for a, b in recv.items()})
    # results and exceptions reach the caller unchanged
    ov = Ovld(name="r")
    marker = object()
    err = Boom("x")

    def r0(x: int):
        return marker

    def r1(x: str):
        raise err

    ov.register(r0)
    ov.register(r1)
    n += 2
    if ov(1) is not marker:
        fail("result_not_returned_unchanged")
    try:
        ov("s")
        fail("exception_swallowed")
    except Boom as e:
        if e is not err:
            fail("exception_replaced")
    print(json.dumps(dict(evaluations=n, failing=list(failing.values()))))
    return 1 if failing else 0


if __name__ == "__main__":
    sys.exit(main())
