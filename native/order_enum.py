"""Exhaustive native check of Order.opposite and of Order.merge on all collections of length <= 4."""
import itertools
import json
import sys

from ovld.mro import Order

OPP = {Order.LESS: Order.MORE, Order.MORE: Order.LESS, Order.SAME: Order.SAME, Order.NONE: Order.NONE}
bad = []
for o in Order:
    if o.opposite() is not OPP[o]:
        bad.append(dict(fn="opposite", arg=str(o), got=str(o.opposite())))


def spec(s):
    if s == {Order.SAME}:
        return Order.SAME
    if not (s - {Order.LESS, Order.SAME}):
        return Order.LESS
    if not (s - {Order.MORE, Order.SAME}):
        return Order.MORE
    return Order.NONE


n = 0
for k in range(5):
    for tup in itertools.product(list(Order), repeat=k):
        n += 1
        try:
            got = Order.merge(list(tup))
        except Exception as e:
            got = f"EXC {e}"
        if got is not spec(set(tup)):
            bad.append(dict(fn="merge", arg=[str(x) for x in tup], got=str(got)))
print(json.dumps(dict(violations=bad[:20], n_violations=len(bad), pairs_tried=n)))
sys.exit(1 if bad else 0)
