"""C16 in R mode (bounded): variants / copies / mixins over small derivation graphs on real Ovlds."""
import json
import sys

from ovld import Ovld


class A: ...
class B(A): ...
class C(B): ...


def out(fn, *a):
    try:
        return fn(*a)
    except TypeError as e:
        s = str(e)
        return "AMBIGUOUS" if __import__("_errs").amb(s) else "NOMETHOD" if __import__("_errs").nomethod(s) else f"TypeError:{s[:40]}"
    except Exception as e:
        return f"{type(e).__name__}:{str(e)[:50]}"


def base():
    o = Ovld(name="base")

    def fa(x: A):
        return "A"

    def fo(x: object):
        return "obj"

    o.register(fa)
    o.register(fo)
    return o


def fb(x: B):
    return "B"


def fb2(x: B):
    return "B2"


def fc(x: C):
    return "C"


def fa2(x: A):
    return "A2"


PROBES = [A(), B(), C(), 1]


def behaviour(o):
    return [out(o, p) for p in PROBES]


def main():
    failing, n = {}, 0

    def fail(name, **d):
        f = failing.setdefault(name, dict(name=name, n_violations=0, violations=[]))
        f["n_violations"] += 1
        f.setdefault("inputs", []).append(__import__("_fp").fingerprint(d))
        if len(f["violations"]) < 2:
            f["violations"].append(d)

    # 1. a variant = parent's methods + its own, its own replacing identical signatures; parent unaffected
    p = base()
    ref = behaviour(base())
    v = p.variant(fb)
    n += 1
    if behaviour(v) != ["A", "B", "B", "obj"]:
        fail("variant_is_parents_methods_plus_own", got=behaviour(v))
    v2 = p.copy()
    v2.register(fa2)
    n += 1
    if behaviour(v2) != ["A2", "A2", "A2", "obj"]:
        fail("own_method_replaces_identical_signature", got=behaviour(v2))
    n += 1
    if behaviour(p) != ref:
        fail("registering_on_child_never_changes_parent", got=behaviour(p), want=ref)
    # 2. siblings do not see each other
    p = base()
    s1 = p.copy()
    s2 = p.copy()
    s1.register(fb)
    n += 1
    if behaviour(s2) != ref or behaviour(s1) != ["A", "B", "B", "obj"]:
        fail("siblings_independent", s1=behaviour(s1), s2=behaviour(s2))
    # 3. locking: once a child is used, every ancestor refuses modification (direct and transitive)
    for depth, name in ((1, "direct_parent_locked_after_child_used"), (2, "grandparent_locked_after_grandchild_used")):
        g = base()
        chain = [g]
        for _ in range(depth):
            chain.append(chain[-1].copy())
        behaviour(chain[-1])
        n += 1
        try:
            g.register(fb)
            drift = behaviour(chain[-1]) != behaviour(g)
            fail(name, accepted_registration=True, child_and_ancestor_differ=drift)
        except Exception:
            pass
    # a parent with a linked and a non-linked child: using the non-linked child locks the parent
    g = base()
    linked = g.copy(linkback=True)
    plain = g.copy()
    behaviour(plain)
    n += 1
    try:
        g.register(fb)
        fail("parent_locked_by_non_linked_child_even_with_linked_sibling", plain=behaviour(plain), parent=behaviour(g))
    except Exception:
        pass
    # 4. linkback: every later change of the ancestor shows up in the linked child, used or not, ancestor used or not
    for parent_used in (False, True):
        for mid_used in (False, True):
            g = base()
            mid = g.copy(linkback=True)
            leaf = mid.copy(linkback=True)
            if parent_used:
                behaviour(g)
            if mid_used:
                behaviour(mid)
            behaviour(leaf)
            g.register(fb)
            n += 1
            if behaviour(leaf) != ["A", "B", "B", "obj"]:
                fail("linkback_change_of_ancestor_reaches_linked_descendant", parent_used=parent_used, mid_used=mid_used, leaf=behaviour(leaf))
            g.unregister(fb)
            n += 1
            if behaviour(leaf) != ref:
                fail("linkback_unregister_on_ancestor_reaches_linked_descendant", parent_used=parent_used, mid_used=mid_used, leaf=behaviour(leaf))
    # 5. mixins
    a = base()
    m = Ovld(name="mix")
    m.register(fc)
    comb = Ovld(name="comb", mixins=[a, m])
    n += 1
    if behaviour(comb) != ["A", "A", "C", "obj"]:
        fail("mixin_combination_is_union_of_parents", got=behaviour(comb))
    late = base()
    behaviour(late)
    m2 = Ovld(name="mix2")
    m2.register(fc)
    n += 1
    try:
        late.add_mixins(m2)
        if behaviour(late) != ["A", "A", "C", "obj"]:
            fail("mixin_added_after_first_use_shows_up", got=behaviour(late))
    except Exception:
        pass
    # 6. nothing in use yet: a change made to any ancestor (after its descendants were created and registered their
    #    own methods) is seen by every descendant on first use, whichever node is used first
    class D: ...

    def fd(x: D):
        return "D"

    for depth in (1, 2, 3):
        for change_at in range(depth):
            for first in range(depth + 1):
                chain = [base()]
                for i in range(depth):
                    def own(x: int):
                        return "own"
                    chain.append(chain[-1].variant(own))
                chain[change_at].register(fd)
                order = [first] + [i for i in range(depth + 1) if i != first]
                for i in order:
                    n += 1
                    want = "D" if i >= change_at else "obj"
                    got = out(chain[i], D())
                    if got != want:
                        fail("change_before_first_use_reaches_every_descendant", depth=depth, change_at=change_at, used_first=first, node=i, got=got, want=want)
    # 7. a child overrides a signature it only inherits: the child's own table gets the new method only, so later
    #    changes of the parent to other signatures stay visible and call_next in the child's method reaches the parent's
    from ovld import call_next

    for linkback in (False, True):
        p = base()
        ch = p.copy(linkback=linkback)

        def fa3(x: A):
            return "A3>" + call_next(x)

        ch.register(fa3)
        n += 1
        got = out(ch, A())
        if got != "A3>obj":
            # the parent's fa has the identical signature: it is REPLACED in the child (C02), not kept below it
            fail("override_of_inherited_signature_replaces_it", linkback=linkback, got=got)
        n += 1
        if behaviour(p) != ref:
            fail("override_in_child_never_changes_parent", linkback=linkback, got=behaviour(p))
    # 8. an override replaces the parent's method of identical signature whatever the parameter is called
    def fa_renamed(n_: A):
        return "A-renamed"

    def fa_posonly(x: A, /):
        return "A-posonly"

    for variant_fn, want_a in ((fa_renamed, "A-renamed"), (fa_posonly, "A-posonly")):
        for how in ("variant", "copy+register", "mixin", "grandchild"):
            p = base()
            if how == "variant":
                v = p.variant(variant_fn)
            elif how == "copy+register":
                v = p.copy()
                v.register(variant_fn)
            elif how == "mixin":
                m_ = Ovld(name="mixr")
                m_.register(variant_fn)
                v = Ovld(name="comb2", mixins=[p, m_])
            else:
                v = p.copy().copy()
                v.register(variant_fn)
            n += 1
            got = behaviour(v)
            if got != [want_a, want_a, want_a, "obj"]:
                fail("override_with_a_renamed_parameter_replaces_the_parents_method", how=how, method=variant_fn.__name__, got=got)
    def fa_ret_str(x: A) -> "str":
        return "A-ret"

    def fa_ret_any(x: A) -> object:
        return "A-ret"

    for variant_fn in (fa_ret_str,):  # (a DIFFERENT return type is a different signature by design: not an override)
        for how in ("variant", "copy+register"):
            pr_ = Ovld(name="ret")

            def fa_plain(x: A) -> str:
                return "A"

            def fo_plain(x: object):
                return "obj"

            pr_.register(fa_plain)
            pr_.register(fo_plain)
            v = pr_.variant(variant_fn) if how == "variant" else pr_.copy()
            if how != "variant":
                v.register(variant_fn)
            n += 1
            got = behaviour(v)
            if got != ["A-ret", "A-ret", "A-ret", "obj"]:
                fail("override_replaces_whatever_the_spelling_of_the_return_annotation", how=how, method=variant_fn.__name__, got=got)
    # ... and when the override is the only method left for that signature, the child is callable by the override's own
    # parameter name (the replaced parent method no longer shapes the child's entry point)
    for how in ("variant", "copy+register", "grandchild"):
        p1 = Ovld(name="single")

        def only(x: A):
            return "parent"

        p1.register(only)
        if how == "variant":
            v = p1.variant(fa_renamed)
        elif how == "copy+register":
            v = p1.copy()
            v.register(fa_renamed)
        else:
            v = p1.copy().copy()
            v.register(fa_renamed)
        n += 2
        got = [out(lambda: v(n_=A())), out(lambda: p1(x=A()))]
        if got != ["A-renamed", "parent"]:
            fail("override_with_a_renamed_parameter_is_callable_by_its_own_keyword", how=how, got=got)
    print(json.dumps(dict(evaluations=n, failing=list(failing.values()))))
    return 1 if failing else 0


if __name__ == "__main__":
    sys.exit(main())
