"""Identity of a failing INPUT of a native clause (known_findings.json "inputs"): the description of the input / call / history with
the observed and expected outcomes left out, so that a recorded finding names the inputs it is about, not how exactly they fail."""
import json

OUTCOME_KEYS = {
    "got", "expected", "want", "forward", "backward", "error", "received", "matching", "complete_set_gives", "ran", "first", "retry",
    "accepted_by", "order_a", "order_b", "layers_differ", "differ_on", "consultations", "first_call", "outcome", "outcomes", "ref", "fresh",
    "observed", "reference", "message", "trace", "got_a", "got_b", "log", "end",
}


def fingerprint(d):
    if not isinstance(d, dict):
        return str(d)[:300]
    return json.dumps({k: v for k, v in d.items() if k not in OUTCOME_KEYS}, sort_keys=True, default=repr)[:300]
