"""C17 in R mode (bounded): overloaded methods in classes (OvldMC / OvldBase / extend_super) on real classes."""
import json
import sys

from ovld import OvldBase, OvldMC, call_next, extend_super, ovld, recurse


def out(th):
    try:
        return th()
    except TypeError as e:
        s = str(e)
        return "AMBIGUOUS" if s.startswith("Ambiguous") else "NOMETHOD" if s.startswith("No method") else f"TypeError:{s[:50]}"
    except Exception as e:
        return f"{type(e).__name__}:{str(e)[:50]}"


def main():
    failing, n = {}, 0

    def fail(name, **d):
        f = failing.setdefault(name, dict(name=name, n_violations=0, violations=[]))
        f["n_violations"] += 1
        if len(f["violations"]) < 2:
            f["violations"].append(d)

    class Base(OvldBase):
        def perform(self, x: int):
            return ("Base.int", self)

        def perform(self, x: str):
            return ("Base.str", self)

        def total(self, xs: list):
            return sum(recurse(x) for x in xs)

        def total(self, x: int):
            return x

    def behaviour(cls, vals=(1, "a", 1.5)):
        inst = cls()
        r = []
        for v in vals:
            o = out(lambda: inst.perform(v))
            r.append((o[0], o[1] is inst) if isinstance(o, tuple) else o)
        return r

    ref_base = behaviour(Base)
    n += 1
    if ref_base != [("Base.int", True), ("Base.str", True), "NOMETHOD"]:
        fail("same_named_definitions_form_one_overloaded_method_bound_to_the_instance", got=ref_base)
    n += 1
    if out(lambda: Base().total([1, [2, 3], 4])) != 10:
        fail("recurse_on_bound_method", got=out(lambda: Base().total([1, [2, 3], 4])))

    class Sub(Base):
        @extend_super
        def perform(self, x: float):
            return ("Sub.float", self)

        def perform(self, x: str):
            return ("Sub.str", self)

    class Sib(Base):
        @extend_super
        def perform(self, x: bytes):
            return ("Sib.bytes", self)

    n += 3
    if behaviour(Sub) != [("Base.int", True), ("Sub.str", True), ("Sub.float", True)]:
        fail("extend_super_dispatches_over_inherited_plus_own", got=behaviour(Sub))
    if behaviour(Base) != ref_base:
        fail("base_class_keeps_its_behaviour", got=behaviour(Base))
    if behaviour(Sib) != [("Base.int", True), ("Base.str", True), "NOMETHOD"] or out(lambda: Sib().perform(b"x"))[0] != "Sib.bytes":
        fail("sibling_subclass_unaffected", got=behaviour(Sib))

    # two marked definitions of the same name in one body, base provides the method
    class Sub2(Base):
        @extend_super
        def perform(self, x: float):
            return ("Sub2.float", self)

        @extend_super
        def perform(self, x: bytes):
            return ("Sub2.bytes", self)

    n += 1
    got = behaviour(Sub2) + [out(lambda: Sub2().perform(b"x"))[0]]
    if got != [("Base.int", True), ("Base.str", True), ("Sub2.float", True), "Sub2.bytes"]:
        fail("several_marked_definitions_in_one_body_all_kept", got=got)

    # multiple bases: every base extends the method; also a deep hierarchy where no direct base redefines it
    class Two(OvldBase):
        @extend_super
        def f(self, x: int):
            return "int"

    class Three(OvldBase):
        @extend_super
        def f(self, x: str):
            return "str"

    class TwoPlus(Two):
        pass

    class ThreePlus(Three):
        pass

    class Direct(Two, Three):
        pass

    class Deep(TwoPlus, ThreePlus):
        pass

    class PlainMixin:  # not using the metaclass
        @extend_super
        def f(self, x: float):
            return "float"

    class PlainMixinPlus(PlainMixin):
        pass

    Created = TwoPlus.create_subclass(PlainMixinPlus, name="Created")
    n += 3
    for cls in (Direct, Deep):
        got = [out(lambda: cls().f(1)), out(lambda: cls().f("a"))]
        if got != ["int", "str"]:
            fail(f"several_bases_merge[{cls.__name__}]", got=got)
    got = [out(lambda: Created().f(1)), out(lambda: Created().f(1.5))]
    if got != ["int", "float"]:
        fail("plain_mixin_class_merged_by_create_subclass", got=got)
    n += 1
    if [out(lambda: Two().f(1)), out(lambda: Two().f("a")), out(lambda: Three().f("a")), out(lambda: Three().f(1))] != ["int", "NOMETHOD", "str", "NOMETHOD"]:
        fail("bases_keep_their_behaviour_after_merging", got=[out(lambda: Two().f("a")), out(lambda: Three().f(1))])

    # call_next on bound methods
    class CN(OvldBase):
        def h(self, x: int):
            return ["int"] + call_next(x)

        def h(self, x: object):
            return ["obj", self is not None]

    n += 1
    if out(lambda: CN().h(1)) != ["int", "obj", True]:
        fail("call_next_on_bound_method", got=out(lambda: CN().h(1)))
    print(json.dumps(dict(evaluations=n, failing=list(failing.values()))))
    return 1 if failing else 0


if __name__ == "__main__":
    sys.exit(main())
