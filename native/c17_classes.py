"""C17 in R mode (bounded): overloaded methods in classes (OvldMC / OvldBase / extend_super) on real classes."""
import json
import sys

from ovld import OvldBase, OvldMC, call_next, extend_super, ovld, recurse


def out(th):
    try:
        return th()
    except TypeError as e:
        s = str(e)
        return "AMBIGUOUS" if __import__("_errs").amb(s) else "NOMETHOD" if __import__("_errs").nomethod(s) else f"TypeError:{s[:50]}"
    except Exception as e:
        return f"{type(e).__name__}:{str(e)[:50]}"


def main():
    failing, n = {}, 0

    def fail(name, **d):
        f = failing.setdefault(name, dict(name=name, n_violations=0, violations=[]))
        f["n_violations"] += 1
        f.setdefault("inputs", []).append(__import__("_fp").fingerprint(d))
        if len(f["violations"]) < 2:
            f["violations"].append(d)

    class Base(OvldBase):
        def perform(self, x: int):
            return ("Base.int", self)

        def perform(self, x: str):
            return ("Base.str", self)

        def total(self, xs: list):
            return sum(recurse(x) for x in xs)

        def total(self, x: int):
            return x

    def behaviour(cls, vals=(1, "a", 1.5)):
        inst = cls()
        r = []
        for v in vals:
            o = out(lambda: inst.perform(v))
            r.append((o[0], o[1] is inst) if isinstance(o, tuple) else o)
        return r

    ref_base = behaviour(Base)
    n += 1
    if ref_base != [("Base.int", True), ("Base.str", True), "NOMETHOD"]:
        fail("same_named_definitions_form_one_overloaded_method_bound_to_the_instance", got=ref_base)
    n += 1
    if out(lambda: Base().total([1, [2, 3], 4])) != 10:
        fail("recurse_on_bound_method", got=out(lambda: Base().total([1, [2, 3], 4])))

    class Sub(Base):
        @extend_super
        def perform(self, x: float):
            return ("Sub.float", self)

        def perform(self, x: str):
            return ("Sub.str", self)

    class Sib(Base):
        @extend_super
        def perform(self, x: bytes):
            return ("Sib.bytes", self)

    n += 3
    if behaviour(Sub) != [("Base.int", True), ("Sub.str", True), ("Sub.float", True)]:
        fail("extend_super_dispatches_over_inherited_plus_own", got=behaviour(Sub))
    if behaviour(Base) != ref_base:
        fail("base_class_keeps_its_behaviour", got=behaviour(Base))
    if behaviour(Sib) != [("Base.int", True), ("Base.str", True), "NOMETHOD"] or out(lambda: Sib().perform(b"x"))[0] != "Sib.bytes":
        fail("sibling_subclass_unaffected", got=behaviour(Sib))

    # two marked definitions of the same name in one body, base provides the method
    class Sub2(Base):
        @extend_super
        def perform(self, x: float):
            return ("Sub2.float", self)

        @extend_super
        def perform(self, x: bytes):
            return ("Sub2.bytes", self)

    n += 1
    got = behaviour(Sub2) + [out(lambda: Sub2().perform(b"x"))[0]]
    if got != [("Base.int", True), ("Base.str", True), ("Sub2.float", True), "Sub2.bytes"]:
        fail("several_marked_definitions_in_one_body_all_kept", got=got)

    # multiple bases: every base extends the method; also a deep hierarchy where no direct base redefines it
    class Two(OvldBase):
        @extend_super
        def f(self, x: int):
            return "int"

    class Three(OvldBase):
        @extend_super
        def f(self, x: str):
            return "str"

    class TwoPlus(Two):
        pass

    class ThreePlus(Three):
        pass

    class Direct(Two, Three):
        pass

    class Deep(TwoPlus, ThreePlus):
        pass

    class PlainMixin:  # not using the metaclass
        @extend_super
        def f(self, x: float):
            return "float"

    class PlainMixinPlus(PlainMixin):
        pass

    Created = TwoPlus.create_subclass(PlainMixinPlus, name="Created")
    n += 3
    for cls in (Direct, Deep):
        got = [out(lambda: cls().f(1)), out(lambda: cls().f("a"))]
        if got != ["int", "str"]:
            fail(f"several_bases_merge[{cls.__name__}]", got=got)
    got = [out(lambda: Created().f(1)), out(lambda: Created().f(1.5))]
    if got != ["int", "float"]:
        fail("plain_mixin_class_merged_by_create_subclass", got=got)
    n += 1
    if [out(lambda: Two().f(1)), out(lambda: Two().f("a")), out(lambda: Three().f("a")), out(lambda: Three().f(1))] != ["int", "NOMETHOD", "str", "NOMETHOD"]:
        fail("bases_keep_their_behaviour_after_merging", got=[out(lambda: Two().f("a")), out(lambda: Three().f(1))])

    # call_next on bound methods
    class CN(OvldBase):
        def h(self, x: int):
            return ["int"] + call_next(x)

        def h(self, x: object):
            return ["obj", self is not None]

    n += 1
    if out(lambda: CN().h(1)) != ["int", "obj", True]:
        fail("call_next_on_bound_method", got=out(lambda: CN().h(1)))
    # call_next / recurse inherited through extend_super: base, subclass and sibling each keep working in every order
    # of first use (each class's function rewrites the SAME inherited method for itself)
    import itertools

    for order in itertools.permutations(range(3)):
        class CB(OvldBase):
            def h(self, x: int):
                return ["CB.int"] + call_next(x)

            def h(self, x: object):
                return ["CB.obj"]

            def t(self, xs: list):
                return [recurse(x) for x in xs]

            def t(self, x: int):
                return "CB.t.int"

        class CS(CB):
            @extend_super
            def h(self, x: bool):
                return ["CS.bool"] + call_next(x)

            @extend_super
            def t(self, x: int):
                return "CS.t.int"

        class CT(CB):
            @extend_super
            def h(self, x: str):
                return ["CT.str"] + call_next(x)

        classes = (CB, CS, CT)
        want = {
            CB: [["CB.int", "CB.obj"], ["CB.int", "CB.obj"], ["CB.obj"], ["CB.t.int", ["CB.t.int"]]],
            CS: [["CB.int", "CB.obj"], ["CS.bool", "CB.int", "CB.obj"], ["CB.obj"], ["CS.t.int", ["CS.t.int"]]],
            CT: [["CB.int", "CB.obj"], ["CB.int", "CB.obj"], ["CT.str", "CB.obj"], ["CB.t.int", ["CB.t.int"]]],
        }
        for rnd in range(2):  # second round: everything is built, whoever was built last must not have captured anything
            for i in order:
                cls = classes[i]
                n += 1
                got = [out(lambda: cls().h(1)), out(lambda: cls().h(True)), out(lambda: cls().h("a")), out(lambda: cls().t([1, [1]]))]
                if got != want[cls]:
                    fail("inherited_call_next_and_recurse_work_in_base_subclass_and_sibling", first_use_order=[classes[j].__name__ for j in order], round=rnd, cls=cls.__name__, got=got, want=want[cls])

    # extend_super redefining a signature the base already has: the subclass's definition wins in the subclass only
    class RB(OvldBase):
        def g(self, x: int):
            return "RB.int"

        def g(self, x: str):
            return "RB.str"

    class RS(RB):
        @extend_super
        def g(self, x: int):
            return "RS.int"

    class RSS(RS):
        @extend_super
        def g(self, x: str):
            return "RSS.str"

    n += 3
    got = [[out(lambda: c().g(1)), out(lambda: c().g("a"))] for c in (RB, RS, RSS)]
    if got != [["RB.int", "RB.str"], ["RS.int", "RB.str"], ["RS.int", "RSS.str"]]:
        fail("subclass_definition_replaces_identical_inherited_signature_in_the_subclass_only", got=got)
    # sibling classes that start an overloaded method from the SAME plain function object stay independent
    def shared_default(self, x: object):
        return "default"

    class Circle(OvldBase):
        describe = shared_default

        def describe(self, x: int):
            return "Circle.int"

    n += 1
    circle_before = [out(lambda: Circle().describe(1)), out(lambda: Circle().describe("a"))]

    class Square(OvldBase):
        describe = shared_default

        def describe(self, x: str):
            return "Square.str"

    n += 2
    got = [out(lambda: Circle().describe(1)), out(lambda: Circle().describe("a")), out(lambda: Square().describe(1)), out(lambda: Square().describe("a"))]
    if got != ["Circle.int", "default", "default", "Square.str"] or circle_before != ["Circle.int", "default"]:
        fail("classes_sharing_a_plain_function_get_separate_overloaded_methods", got=got, circle_before=circle_before)

    # many Literal overloads of a METHOD (lookup-table path of the value dispatcher): self is passed on every path,
    # also when no literal matches and the call falls through to the inherited method
    from typing import Literal

    class Names(OvldBase):
        def name(self, x: Literal[1]):
            return ("one", self)

        def name(self, x: Literal[2]):
            return ("two", self)

        def name(self, x: int):
            return ("int", self)

    class MoreNames(Names):
        @extend_super
        def name(self, x: Literal[3]):
            return ("three", self)

        @extend_super
        def name(self, x: Literal[4]):
            return ("four", self)

        @extend_super
        def name(self, x: Literal[5]):
            return ("five", self)

    for cls, vals in ((Names, (1, 2, 7)), (MoreNames, (1, 3, 5, 7))):
        inst = cls()
        for v in vals:
            n += 1
            r = out(lambda: inst.name(v))
            want = {1: "one", 2: "two", 3: "three", 4: "four", 5: "five"}.get(v, "int")
            if not (isinstance(r, tuple) and r[0] == want and r[1] is inst):
                fail("literal_overloads_of_a_method_pass_self_on_every_path", cls=cls.__name__, value=v, got=repr(r)[:80], want=want)
    # an Ovld object stored as a class attribute (no metaclass): bound like a function, also on FALSY instances
    from ovld import Ovld

    desc = Ovld(name="describe")

    def d_int(self, x: int):
        return ("int", self)

    def d_obj(self, x: object):
        return ("obj", self)

    desc.register(d_int)
    desc.register(d_obj)

    class Stack:
        describe = desc

        def __init__(self, items=()):
            self.items = list(items)

        def __len__(self):
            return len(self.items)

    for inst in (Stack([1]), Stack()):
        for v in (7, "s"):
            n += 1
            r = out(lambda: inst.describe(v))
            if not (isinstance(r, tuple) and r[1] is inst and r[0] == ("int" if isinstance(v, int) else "obj")):
                fail("ovld_attribute_binds_falsy_instances_too", empty=len(inst) == 0, value=v, got=repr(r)[:80])
    # a later same-named definition carrying its own @ovld(...) decorator (e.g. a priority) joins the same method
    def later_decorated(base, extend):
        class K(base):
            @(extend_super if extend else ovld)
            def work(self, x: int):
                return ("int", self)

            def work(self, x: str):
                return ("str", self)

            @ovld(priority=10)
            def work(self, x: object):
                return ("wrap", call_next(x))

        return K

    class WorkBase(OvldBase):
        def work(self, x: float):
            return ("float", self)

    for label, base, extend in (("plain", OvldBase, False), ("extend_super", WorkBase, True)):
        n += 1
        try:
            K = later_decorated(base, extend)
            k = K()
            got = [out(lambda: k.work(1)), out(lambda: k.work("a"))] + ([out(lambda: k.work(1.5))] if extend else [])
            want = [("wrap", ("int", k)), ("wrap", ("str", k))] + ([("wrap", ("float", k))] if extend else [])
            if got != want:
                fail("later_definition_with_its_own_decorator_joins_the_method", body=label, got=repr(got)[:160])
        except BaseException as e:
            fail("later_definition_with_its_own_decorator_joins_the_method", body=label, error=f"{type(e).__name__}: {str(e)[:60]}")
    # overloads of several bases are merged for EVERY method name - special methods included (__eq__, __init__ are in dir(object))
    def merged(kind):
        class Q(OvldBase):
            def __init__(self, value: int):
                self.value, self.how = value, "int"

            def __init__(self, value: str):
                self.value, self.how = int(value), "str"

            def __eq__(self, other: int):
                return ("eq.int", self.value == other)

            def __eq__(self, other: str):
                return ("eq.str", self.value == int(other))

            __hash__ = None

            def scale(self, k: int):
                return ("scale.int", self.value * k)

            def scale(self, k: str):
                return ("scale.str", self.value * int(k))

        class FloatSupport:  # a mixin class without the metaclass
            @extend_super
            def __init__(self, value: float):
                self.value, self.how = round(value), "float"

            @extend_super
            def __eq__(self, other: float):
                return ("eq.float", self.value == round(other))

            @extend_super
            def scale(self, k: float):
                return ("scale.float", self.value * k)

        if kind == "class_statement":

            class Full(Q, FloatSupport):
                pass

            return Q, Full
        return Q, Q.create_subclass(FloatSupport, name="Made")

    for kind in ("class_statement", "create_subclass"):
        n += 1
        try:
            Q, Full = merged(kind)
            f = Full(2.6)
            got = [f.how, out(lambda: f == 3.2), out(lambda: f == 3), out(lambda: f.scale(0.5)), out(lambda: f.scale(2)), Full("4").how]
            want = ["float", ("eq.float", True), ("eq.int", True), ("scale.float", 1.5), ("scale.int", 6), "str"]
            base = [out(lambda: Q(2.5))[:8], out(lambda: Q(1) == 1.0)[:8] if isinstance(out(lambda: Q(1) == 1.0), str) else out(lambda: Q(1) == 1.0)]
            if got != want:
                fail("bases_merge_overloaded_special_methods_like_ordinary_ones", kind=kind, got=repr(got)[:200], want=repr(want)[:200])
            if not str(base[0]).startswith("NOMETHOD"):
                fail("base_class_keeps_its_behaviour_after_the_merge", kind=kind, got=repr(base)[:120])
        except BaseException as e:
            fail("bases_merge_overloaded_special_methods_like_ordinary_ones", kind=kind, error=f"{type(e).__name__}: {str(e)[:80]}")
    # value-dependent overloads of a METHOD that all decline: the fall-through to the less specific overload passes self
    from ovld.dependent import Dependent, EndsWith, StartsWith

    class Words(OvldBase):
        def f(self, x: Dependent[str, StartsWith["a"]]):
            return ("a*", self)

        def f(self, x: Dependent[str, EndsWith["z"]]):
            return ("*z", self)

        def f(self, x: str):
            return ("str", self)

    class MoreWords(Words):
        @extend_super
        def f(self, x: Dependent[str, StartsWith["b"]]):
            return ("b*", self)

    for cls in (Words, MoreWords):
        inst = cls()
        for v, want in (("abc", "a*"), ("xyz", "*z"), ("hello", "str"), ("bcd", "b*" if cls is MoreWords else "str")):
            n += 1
            r = out(lambda: inst.f(v))
            if not (isinstance(r, tuple) and r[0] == want and r[1] is inst):
                fail("value_dependent_overloads_of_a_method_fall_through_with_self", cls=cls.__name__, value=v, got=repr(r)[:80], want=want)
    print(json.dumps(dict(evaluations=n, failing=list(failing.values()))))
    return 1 if failing else 0


if __name__ == "__main__":
    sys.exit(main())
