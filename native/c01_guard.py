"""C01 in R mode (bounded): every method body checks, on entry, that each supplied argument is an instance of its own
declared parameter type, that the arity is in range and required keywords are present (trivially true when CPython
binds), over the scenario families of c02_oracle.py and the value families of gen_dependent.py, including nested
entry through recurse / call_next."""
import itertools
import json
import sys

from ovld import Ovld, call_next, recurse
from ovld.types import normalize_type

import c02_oracle
import gen_dependent as GD

VIOL = []


def guarded(name, anns, body="return NAME"):
    """Build a function whose body first checks its arguments against its own annotations (positional parameters a0.., then
    keyword-only ones under their names)."""
    pos, kw = GD._split(anns)
    g = {f"T{k}": a for k, a in enumerate(pos)}
    g.update({f"K_{n_}": a for n_, a in kw})
    g["VIOL"] = VIOL
    g["N"] = [normalize_type(a, None) for a in pos]
    g["NK"] = {n_: normalize_type(a, None) for n_, a in kw}
    params = [f"a{k}: T{k}" for k in range(len(pos))]
    if kw:
        params += ["*"] + [f"{n_}: K_{n_}" for n_, _ in kw]
    checks = [f"    if not isinstance(a{k}, N[{k}]): VIOL.append(({name!r}, {k}, repr(a{k})))" for k in range(len(pos))]
    checks += [f"    if not isinstance({n_}, NK[{n_!r}]): VIOL.append(({name!r}, {n_!r}, repr({n_})))" for n_, _ in kw]
    exec(f"def {name}({', '.join(params)}):\n" + "\n".join(checks) + f"\n    {body.replace('NAME', repr(name))}\n", g)
    return g[name]


def main():
    n = 0
    failing = []
    # value-dependent families
    for fi, spec in enumerate(GD.families("quick")):
        anns_list, probes = spec[0], spec[1]
        if len(spec) > 2:
            continue  # families of methods with self: per-instance verification of the emitted text, and native/c17_classes.py
        ov = Ovld(name=f"fam{fi}")
        for hi, anns in enumerate(anns_list):
            ov.register(guarded(f"h{hi}", anns))
        pos0, kw0 = GD._split(anns_list[0])
        npos, kwn = len(pos0), [n_ for n_, _ in kw0]
        ov.register(guarded("base", [object] * npos + [GD.KW(n_, object) for n_ in kwn]))
        corpus = {bytes: [b"ab"], int: [0, 1, 2, 5, 7, -1, True], str: ["a", "b", "ab", "xb", ""], bool: [True, False], tuple: [(1, "a"), (1, 1), (1,)]}
        for probe in probes:
            probe = [e[2] if (isinstance(e, tuple) and e and e[0] == "kw") else e for e in probe]
            for vals in itertools.product(*[corpus[c] for c in probe]):
                n += 1
                del VIOL[:]
                try:
                    ov(*vals[:npos], **dict(zip(kwn, vals[npos:])))
                except Exception:
                    pass
                if VIOL:
                    failing.append(dict(family=[list(map(repr, a)) for a in anns_list], call=[repr(v) for v in vals], entered_with=list(VIOL)))
    # class scenarios (static types, arities, keywords): the body check is isinstance against the declared class
    for sc in c02_oracle.scenarios():
        n += 1
        ns = c02_oracle.build_classes(sc["classes"])
        ov = Ovld(name="f")
        for m in sc["methods"]:
            pos = [p for p in m["params"] if p["kind"] == "pos"]
            kw = [p for p in m["params"] if p["kind"] == "kw"]
            g = {f"T_{k}": v for k, v in ns.items()}
            g["VIOL"] = VIOL
            parts = [f"{p['name']}: T_{p['type']}" + (" = None" if p.get("default") else "") for p in pos]
            if kw:
                parts += ["*"] + [f"{p['name']}: T_{p['type']}" + (" = None" if p.get("default") else "") for p in kw]
            checks = "\n".join(f"    if {p['name']} is not None and not isinstance({p['name']}, T_{p['type']}): VIOL.append(({m['name']!r}, {p['name']!r}))" for p in m["params"])
            exec(f"def {m['name']}({', '.join(parts)}):\n{checks}\n    return 1\n", g)
            ov.register(g[m["name"]], priority=m.get("priority", 0))
        del VIOL[:]
        try:
            ov(*[ns[c]() for c in sc["call"]["pos"]], **{k: ns[c]() for k, c in sc["call"].get("kw", {}).items()})
        except Exception:
            pass
        if VIOL:
            failing.append(dict(scenario={k: sc[k] for k in ("classes", "methods", "call")}, entered_with=list(VIOL)))
    out = [dict(name="method_entered_with_arguments_its_annotations_exclude", n_violations=len(failing), violations=failing[:3])] if failing else []
    print(json.dumps(dict(evaluations=n, failing=out)))
    return 1 if failing else 0


if __name__ == "__main__":
    sys.exit(main())
