"""C13 cross-check (bounded): "a method declared on T is applicable to v ..." also when the method reaches the function asked through
a parent: methods on the special types registered on a parent AFTER a linked copy / variant was first used, in both orders of first
calls (the contracts behind this are C05's / C16's Ovld._update; here only the outcome for the documented meaning of T)."""
import json
import sys

from ovld import Ovld
from ovld.types import Exactly, HasMethod, Intersection, StrictSubclass, Union


class A: ...
class B(A): ...
class WithFoo:
    def foo(self): ...
class AFoo(A, WithFoo): ...


def out(f, v):
    try:
        return f(v)
    except TypeError as e:
        return "AMBIGUOUS" if __import__("_errs").amb(str(e)) else "NOMETHOD" if __import__("_errs").nomethod(str(e)) else f"TypeError:{str(e)[:40]}"


def main():
    failing, n = [], 0
    for parent_called_first in (True, False):
        for depth in (1, 2):
            parent = Ovld(name="p")

            def fallback(x: object):
                return "object"

            parent.register(fallback)
            chain = [parent]
            for _ in range(depth):
                chain.append(chain[-1].copy(linkback=True))
            leaf = chain[-1]
            if parent_called_first:
                out(parent, 1)
            out(leaf, 1)  # the leaf is in use before the parent learns the special-type methods

            def on_exact(x: Exactly[A]):
                return "exactly A"

            def on_strict(x: StrictSubclass[A]):
                return "strict A"

            def on_inter(x: Intersection[WithFoo, HasMethod["foo"]]):
                return "WithFoo & foo"

            def on_union(x: Union[int, str]):
                return "int|str"

            for m in (on_exact, on_strict, on_inter, on_union):
                parent.register(m)
            want = {"A": "exactly A", "B": "strict A", "WithFoo": "WithFoo & foo", "int": "int|str", "str": "int|str", "float": "object"}
            for v in (A(), B(), WithFoo(), 1, "s", 2.5):
                n += 1
                got = out(leaf, v)
                w = want[type(v).__name__]
                if got != w:
                    failing.append(dict(parent_called_first=parent_called_first, depth=depth, value=type(v).__name__, got=got, expected=w))
    res = [dict(name="special_type_methods_of_a_parent_apply_through_linked_copies", n_violations=len(failing), violations=failing[:3])] if failing else []
    print(json.dumps(dict(evaluations=n, failing=res)))
    return 1 if failing else 0


if __name__ == "__main__":
    sys.exit(main())
