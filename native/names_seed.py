"""Outcomes that must not depend on the iteration order of sets of NAMES (PYTHONHASHSEED): a position that two methods name
differently is strictly positional whatever the seed (docs/usage.md), and a body that uses recurse and then the function's own name
is rewritten the same way in every process (C06 / C08). Runs itself under several hash seeds and compares."""
import json
import os
import subprocess
import sys


def main():
    if len(sys.argv) > 1 and sys.argv[1] == "probe":
        import c06_order

        print(json.dumps(c06_order._names_probe()))
        return 0
    outs = {}
    for seed in ("0", "1", "2", "3", "12345", "99", "7", "424242"):
        p = subprocess.run([sys.executable, __file__, "probe"], env=dict(os.environ, PYTHONHASHSEED=seed), capture_output=True, text=True)
        outs[seed] = p.stdout.strip() or ("ERR " + p.stderr.strip()[-200:])
    distinct = sorted(set(outs.values()))
    failing = []
    if len(distinct) > 1:
        failing.append(dict(name="outcome_of_name_dependent_rewrites_independent_of_hash_seed", n_violations=len(distinct) - 1, violations=[dict(seeds=[k for k, v in outs.items() if v == d], outcome=d[:300]) for d in distinct[:3]]))
    elif distinct and distinct[0].startswith("ERR"):
        failing.append(dict(name="name_probe_runs", n_violations=1, violations=[dict(error=distinct[0])]))
    else:
        want = ["int", "str", "unexpected-keyword", "unexpected-keyword", "int", "unexpected-keyword", [2, 3, 1]]
        if json.loads(distinct[0]) != want:
            failing.append(dict(name="differently_named_position_is_strictly_positional_and_both_names_in_a_body_work", n_violations=1, violations=[dict(got=distinct[0][:300], expected=want)]))
    print(json.dumps(dict(evaluations=len(outs), failing=failing)))
    return 1 if failing else 0


if __name__ == "__main__":
    sys.exit(main())
