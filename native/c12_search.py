"""Bounded native search for a concrete violation of a C12 clause among small type terms of given kinds.
usage: c12_search.py <clause> <K1> [<K2>]   -> JSON {"clause":..., "violations":[...], "pairs_tried":n}"""
import json
import sys

from ovld.mro import Order, typeorder

import typeterms as T

OPP = {Order.LESS: Order.MORE, Order.MORE: Order.LESS, Order.SAME: Order.SAME, Order.NONE: Order.NONE}


def safe(f, *a):
    try:
        return f(*a)
    except Exception as e:  # an exception is itself a violation of "pure, never raises"
        return f"EXC {type(e).__name__}: {e}"


_TERMS = None


def run(clause, ks):
    global _TERMS
    if _TERMS is None:
        _TERMS = T.terms(depth=2)
    terms = _TERMS
    out = []
    tried = 0
    if clause == "mirror":
        for a in terms[ks[0]]:
            for b in terms[ks[1]]:
                tried += 1
                r1, r2 = safe(typeorder, a, b), safe(typeorder, b, a)
                if isinstance(r1, str) or isinstance(r2, str) or r1 is not OPP[r2]:
                    out.append(dict(t1=repr(a), t2=repr(b), forward=str(r1), backward=str(r2)))
    elif clause == "reflexive":
        for a in terms[ks[0]]:
            tried += 1
            r = safe(typeorder, a, a)
            if r is not Order.SAME:
                out.append(dict(t1=repr(a), result=str(r)))
    elif clause in ("union_above_members", "intersection_below_members"):
        kind = "Union" if clause.startswith("union") else "Inter"
        want = (Order.MORE, Order.LESS) if kind == "Union" else (Order.LESS, Order.MORE)
        plain_kinds = ("Class", "Alias", "Strict", "HasMethod", "ClassCheck")  # kinds without a two-sided order hook

        def member_kind(m):
            import typing as _t

            for k, ts in terms.items():
                if any(m is x for x in ts):
                    return k
            if isinstance(m, type) and type(m) is type or _t.get_origin(m) is not None:
                return "Class" if _t.get_origin(m) is None else "Alias"
            from ovld.types import MetaMC

            if isinstance(m, MetaMC):
                h = m._handler
                return {"Union": "Union", "Intersection": "Inter"}.get(type(h).__name__, getattr(getattr(h, "handler", None), "__name__", "?"))
            from ovld.dependent import DependentType

            return "FuncDep" if isinstance(m, DependentType) else "Class"

        for u in terms[kind]:
            for m in u.__args__:
                mk = member_kind(m)
                is_plain = mk in plain_kinds or mk in ("StrictSubclass", "HasMethod")
                if ks and (ks[0] == "plain_member") != is_plain:
                    continue
                tried += 1
                r1, r2 = safe(typeorder, u, m), safe(typeorder, m, u)
                if (r1, r2) != want:
                    out.append(dict(t=repr(u), member=repr(m), forward=str(r1), backward=str(r2)))
    elif clause == "dependent_below_bound":
        def is_inter(b):
            from ovld.types import MetaMC

            return isinstance(b, MetaMC) and type(b._handler).__name__ == "Intersection"

        for d in terms[ks[0]]:
            if len(ks) > 1 and (ks[1] == "inter_bound") != is_inter(d.bound):
                continue
            tried += 1
            r1, r2 = safe(typeorder, d, d.bound), safe(typeorder, d.bound, d)
            if (r1, r2) != (Order.LESS, Order.MORE):
                out.append(dict(t=repr(d), bound=repr(d.bound), forward=str(r1), backward=str(r2)))
    elif clause == "alias_origin":
        import typing

        for a in terms["Alias"]:
            tried += 1
            o = typing.get_origin(a)
            r1, r2 = safe(typeorder, a, o), safe(typeorder, o, a)
            if (r1, r2) != (Order.LESS, Order.MORE):
                out.append(dict(t=repr(a), origin=repr(o), forward=str(r1), backward=str(r2)))
    elif clause == "class_fragment":
        cls = terms["Class"]
        for a in cls:
            for b in cls:
                tried += 1
                r = safe(typeorder, a, b)
                sx, sy = issubclass(a, b), issubclass(b, a)
                want = Order.SAME if (a is b or (sx and sy)) else Order.LESS if sx else Order.MORE if sy else Order.NONE
                if r is not want:
                    out.append(dict(t1=repr(a), t2=repr(b), result=str(r), expected=str(want)))
    elif clause == "alias_argwise":
        import typing

        al = terms["Alias"]
        for a in al:
            for b in al:
                if a == b or typing.get_origin(a) is not typing.get_origin(b):
                    continue
                x, y = typing.get_args(a), typing.get_args(b)
                if not x or not y:
                    continue
                tried += 1
                want = Order.NONE if len(x) != len(y) else Order.merge([typeorder(p, q) for p, q in zip(x, y)])
                r = safe(typeorder, a, b)
                if r is not want:
                    out.append(dict(t1=repr(a), t2=repr(b), result=str(r), expected=str(want)))
    else:
        raise SystemExit(f"unknown clause {clause}")
    return dict(clause=clause, kinds=ks, violations=out[:20], all_violations=out, n_violations=len(out), pairs_tried=tried)


def _pairs():
    for i, a in enumerate(T.KINDS):
        for b in T.KINDS[i:]:
            yield ("mirror", [a, b])


SUITE = list(_pairs()) + [("reflexive", [k]) for k in T.KINDS] + [
    ("class_fragment", []),
    ("union_above_members", ["plain_member"]),
    ("union_above_members", ["hooked_member"]),
    ("intersection_below_members", ["plain_member"]),
    ("intersection_below_members", ["hooked_member"]),
    ("alias_origin", []),
    ("alias_argwise", []),
] + [("dependent_below_bound", [k, b]) for k in ["Equals", "FuncDep"] for b in ("inter_bound", "other_bound")] + [("dependent_below_bound", ["Product"])]


if __name__ == "__main__":
    r = run(sys.argv[1], sys.argv[2:])
    print(json.dumps(r))
    sys.exit(1 if r["n_violations"] else 0)
